"""C06: an EByte packet for a 3-byte ISO Request is 8 bytes long; the client cuts the stream every 13 bytes."""
import sys, os
sys.path.insert(0, os.environ.get('N2K_REPO', '/repo'))
from nmea2000.encoder import NMEA2000Encoder
from nmea2000.decoder import NMEA2000Decoder
from nmea2000.message import NMEA2000Message
js = '{"PGN":59904,"id":"isoRequest","description":"ISO Request","fields":[{"id":"pgn","name":"PGN","description":null,"unit_of_measurement":null,"value":60928,"raw_value":60928,"physical_quantities":null,"type":[13],"part_of_primary_key":false}],"source":0,"destination":255,"priority":6,"timestamp":"2012-06-17T15:02:11","source_iso_name":null,"hash":null}'
m = NMEA2000Message.from_json(js)
pk = NMEA2000Encoder().encode_ebyte(m)
print('packet lengths:', [len(p) for p in pk])
ok = all(len(p) == 13 for p in pk)
if ok:
    back = NMEA2000Decoder().decode_tcp(pk[0])
    ok = back is not None and back.PGN == 59904 and back.fields[0].value == 60928
print('PASS' if ok else 'FAIL'); sys.exit(0 if ok else 1)
