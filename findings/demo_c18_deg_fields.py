"""C18: a field the database already gives in degrees is pushed through the radian->degree conversion."""
import sys, os
sys.path.insert(0, os.environ.get('N2K_REPO', '/repo'))
from nmea2000.message import NMEA2000Message, NMEA2000Field
from nmea2000.consts import PhysicalQuantities, FieldTypes
def mk():
    m = NMEA2000Message(PGN=130818, id='furunoSensorSetup')
    m.fields.append(NMEA2000Field('headingOffset', 'Heading Offset', None, 'deg', 12.5, 12.5, PhysicalQuantities.ANGLE, FieldTypes.NUMBER, False))
    m.fields.append(NMEA2000Field('heading', 'Heading', None, 'rad', 1.0, 1.0, PhysicalQuantities.ANGLE, FieldTypes.NUMBER, False))
    return m
m = mk(); m.apply_preferred_units({PhysicalQuantities.ANGLE: 'deg'})
print([(f.id, f.value, f.unit_of_measurement) for f in m.fields])
ok = m.fields[0].value == 12.5 and m.fields[1].value == 57.0
print('PASS' if ok else 'FAIL'); sys.exit(0 if ok else 1)
