"""C01: a field sitting exactly at the end of its database range fails to decode (float product raw*resolution lands just outside)."""
import sys, os
sys.path.insert(0, os.environ.get('N2K_REPO', '/repo'))
from nmea2000.utils import decode_number
cases = [(65532, 16, False, 0.1, 0, 6553.2, '65284 breakerCurrent and 53 more fields'), (252, 8, False, 0.2, 0, 50.4, '128778 controllerVoltage'),
         (-32767 & 0xFFFF, 16, True, 0.1, -3276.7, 3276.4, '15 fields with range [-3276.7, 3276.4]'), (2147483644, 32, True, 1e-09, -2.147483647, 2.147483644, '130052 loranC fields')]
ok = True
for raw, n, s, res, lo, hi, who in cases:
    try:
        v = decode_number(raw, 0, n, s, res, lo, hi); print(f"{who}: raw {raw} -> {v}")
    except ValueError as e:
        print(f"{who}: raw {raw} (database range [{lo},{hi}], resolution {res}) -> ValueError: {e}"); ok = False
# one step beyond must still be rejected
for raw, n, s, res, lo, hi in [(65533, 16, False, 0.1, 0, 6553.2), (62832, 16, False, 0.0001, 0, 6.2831852)]:
    try:
        v = decode_number(raw, 0, n, s, res, lo, hi); print(f"raw {raw} beyond the range accepted as {v}"); ok = False
    except ValueError:
        pass
print('PASS' if ok else 'FAIL'); sys.exit(0 if ok else 1)
