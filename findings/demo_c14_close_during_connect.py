"""C14: close() while connect() is awaiting the transport is followed by CONNECTED and a running receive task."""
import sys, os, asyncio
sys.path.insert(0, os.environ.get('N2K_REPO', '/repo'))
from nmea2000.ioclient import EByteNmea2000Gateway, State
async def main():
    server = await asyncio.start_server(lambda r, w: None, '127.0.0.1', 0)
    port = server.sockets[0].getsockname()[1]
    c = EByteNmea2000Gateway('127.0.0.1', port)
    orig = c._connect_impl
    async def slow_connect():
        await asyncio.sleep(0.2)          # the transport takes a while
        await orig()
    c._connect_impl = slow_connect
    states = []
    async def on_status(s): states.append(s.name)
    c.set_status_callback(on_status)
    t = asyncio.create_task(c.connect())
    await asyncio.sleep(0.05)
    await c.close()                        # close() while the connect is in flight
    await asyncio.sleep(0.5)
    rx = c._receive_task is not None and not c._receive_task.done()
    print('states:', states, 'final:', c.state.name, 'receive task running:', rx)
    ok = c.state == State.CLOSED and not rx and 'CONNECTED' not in states
    for tk in asyncio.all_tasks():
        if tk is not asyncio.current_task(): tk.cancel()
    server.close()
    return ok
ok = asyncio.run(main())
print('PASS' if ok else 'FAIL'); os._exit(0 if ok else 1)
