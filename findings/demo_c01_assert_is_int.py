"""C01: PGN 129792/129795/129797 and 130820 fusionSiriusxmPresets can never be decoded: `assert <length field> is int` is always false."""
import sys, os
sys.path.insert(0, os.environ.get('N2K_REPO', '/repo'))
from nmea2000 import pgns
ok = True
for name, nbytes in (('decode_pgn_129792', 30), ('decode_pgn_129795', 30), ('decode_pgn_129797', 30), ('decode_pgn_130820_fusionSiriusxmPresets', 20)):
    payload = int.from_bytes(bytes([0x00] * nbytes), 'little')
    if name != 'decode_pgn_130820_fusionSiriusxmPresets':
        payload |= 244660000 << 8          # a valid MMSI in the sourceId field (bits 8..39)
    try:
        m = getattr(pgns, name)(payload)
        print(name, '->', m.id, len(m.fields), 'fields')
    except AssertionError as e:
        print(name, '-> AssertionError'); ok = False
    except Exception as e:
        print(name, '->', type(e).__name__, e, '(payload out of range for another field: not the defect shown here)')
print('PASS' if ok else 'FAIL'); sys.exit(0 if ok else 1)
