"""C10: include-by-id filters nothing / mixed include list drops listed PGNs / claim included by id is suppressed / dump by id stays empty (C15)."""
import sys, os, tempfile
sys.path.insert(0, os.environ.get('N2K_REPO', '/repo'))
from nmea2000.decoder import NMEA2000Decoder
# canboat plain-text lines: timestamp,prio,pgn,src,dst,len,data
VESSEL = "2024-01-01-00:00:00.000,2,127250,1,255,8,00,10,27,ff,7f,ff,7f,fd"   # vesselHeading
WIND   = "2024-01-01-00:00:00.000,2,130306,1,255,8,00,10,27,10,27,fa,ff,ff"   # windData
CLAIM  = "2024-01-01-00:00:00.000,6,60928,1,255,8,01,02,03,04,00,82,78,c0"    # isoAddressClaim
def run(**kw):
    d = NMEA2000Decoder(**kw)
    return [m.id if m else None for m in (d.decode_basic_string(x) for x in (VESSEL, WIND, CLAIM))]
ok = True
r = run(include_pgns=['vesselHeading'])
print('include by id only          ->', r); ok &= r == ['vesselHeading', None, None]
r = run(include_pgns=[130306, 'vesselHeading'])
print('mixed include list           ->', r); ok &= r == ['vesselHeading', 'windData', None]
r = run(include_pgns=['isoAddressClaim'])
print('claim included by id         ->', r); ok &= r == [None, None, 'isoAddressClaim']
with tempfile.TemporaryDirectory() as td:
    p = os.path.join(td, 'dump.jsonl')
    d = NMEA2000Decoder(dump_to_file=p, dump_pgns=['vesselHeading'])
    for x in (VESSEL, WIND): d.decode_basic_string(x)
    d.close()
    n = len(open(p).read().splitlines())
    print('dump filtered by id: lines   ->', n); ok &= n == 1
print('PASS' if ok else 'FAIL'); sys.exit(0 if ok else 1)
