"""C13: after the peer closes, the Yacht Devices (readline) client never reports DISCONNECTED and starves the event loop."""
import sys, os, asyncio
sys.path.insert(0, os.environ.get('N2K_REPO', '/repo'))
from nmea2000.ioclient import YachtDevicesNmea2000Gateway, State
async def main():
    conns = []
    async def handler(r, w):
        conns.append(w)
        await asyncio.sleep(0.2)
        w.close()                      # peer ends the stream
    server = await asyncio.start_server(handler, '127.0.0.1', 0)
    port = server.sockets[0].getsockname()[1]
    c = YachtDevicesNmea2000Gateway('127.0.0.1', port)
    states = []
    async def on_status(s): states.append(s)
    c.set_status_callback(on_status)
    beats = 0
    async def heartbeat():
        nonlocal beats
        while True:
            await asyncio.sleep(0.05); beats += 1
    hb = asyncio.create_task(heartbeat())
    await c.connect()
    await asyncio.sleep(0.1)
    b0 = beats
    try:
        await asyncio.wait_for(asyncio.sleep(1.0), 3)
    except Exception:
        pass
    b1 = beats
    hb.cancel()
    print('states:', [s.name for s in states], 'heartbeats during the second after EOF:', b1 - b0)
    ok = State.DISCONNECTED in states and (b1 - b0) >= 10
    c._state = State.CLOSED
    for t in asyncio.all_tasks():
        if t is not asyncio.current_task(): t.cancel()
    server.close()
    return ok
import threading
res = {}
def run():
    res['ok'] = asyncio.run(main())
t = threading.Thread(target=run, daemon=True); t.start(); t.join(8)
ok = res.get('ok', False)
print('PASS' if ok else 'FAIL (no DISCONNECTED / event loop starved)'); os._exit(0 if ok else 1)
