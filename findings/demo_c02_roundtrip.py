"""C02: decode -> encode loses a tick on TIME fields (int() truncation), cannot re-encode an absent DATE, and turns an absent signed DURATION into -1 tick."""
import sys, os
sys.path.insert(0, os.environ.get('N2K_REPO', '/repo'))
from nmea2000.decoder import NMEA2000Decoder
from nmea2000.encoder import NMEA2000Encoder
from datetime import datetime
d, e = NMEA2000Decoder(), NMEA2000Encoder()
def rt(pgn, payload):
    m = d._decode(pgn, 3, 1, 255, datetime.now(), payload[::-1], payload)
    try:
        return e._call_encode_function(m)
    except Exception as ex:
        return ex
ok = True
# PGN 126992 systemTime: sid, source+reserved, date(16), time(32, 1e-4 s) = 49 ticks
p = bytes([0x01, 0xF0]) + (19000).to_bytes(2, 'little') + (49).to_bytes(4, 'little')
r = rt(126992, p); print('126992 time ticks 49 ->', r.hex() if isinstance(r, bytes) else r); ok &= r == p
# PGN 129033 timeDate: absent date (FFFF), time 0, localOffset 0
p = bytes([0xFF, 0xFF]) + (0).to_bytes(4, 'little') + (0).to_bytes(2, 'little')
r = rt(129033, p); print('129033 absent date      ->', r.hex() if isinstance(r, bytes) else repr(r)); ok &= r == p
# PGN 129033: absent local offset (7FFF signed)
p = (19000).to_bytes(2, 'little') + (0).to_bytes(4, 'little') + bytes([0xFF, 0x7F])
r = rt(129033, p); print('129033 absent offset    ->', r.hex() if isinstance(r, bytes) else repr(r)); ok &= r == p
print('PASS' if ok else 'FAIL'); sys.exit(0 if ok else 1)
