"""C19: two concurrent multi-frame sends interleave their packets; an Actisense send is treated as a lost connection."""
import sys, os, asyncio
sys.path.insert(0, os.environ.get('N2K_REPO', '/repo'))
from nmea2000.ioclient import EByteNmea2000Gateway, ActisenseNmea2000Gateway, State
class W:
    def __init__(self): self.out = []
    def write(self, b): self.out.append(bytes(b))
    async def drain(self): await asyncio.sleep(0)     # flow control lets another task run
    def close(self): pass
async def main():
    c = EByteNmea2000Gateway('127.0.0.1', 1)
    c.writer = W()
    c._state = State.CONNECTED
    c._encode_impl = lambda m: [bytes([m * 16 + i]) for i in range(7)]
    await asyncio.gather(c.send(1), c.send(2))
    seq = [b[0] for b in c.writer.out]
    print('written:', [hex(x) for x in seq])
    contiguous = seq in ([0x10 + i for i in range(7)] + [0x20 + i for i in range(7)], [0x20 + i for i in range(7)] + [0x10 + i for i in range(7)])
    a = ActisenseNmea2000Gateway('127.0.0.1', 1)
    a.writer = W(); a._state = State.CONNECTED
    states = []
    async def st(s): states.append(s.name)
    a.set_status_callback(st)
    async def noconnect(): return None
    a.connect = noconnect
    await a.send(object())
    await asyncio.sleep(0.01)
    print('Actisense send -> state changes:', states)
    ok = contiguous and not states
    for t in (c, a):
        t._process_queue_task.cancel()
    return ok
ok = asyncio.run(main())
print('PASS' if ok else 'FAIL'); sys.exit(0 if ok else 1)
