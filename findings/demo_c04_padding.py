"""C04: padding bytes beyond the announced fast-packet length become part of the payload."""
import sys, os
sys.path.insert(0, os.environ.get('N2K_REPO', '/repo'))
from nmea2000.decoder import NMEA2000Decoder
from datetime import datetime
def feed(pad):
    d = NMEA2000Decoder()
    # PGN 126720 (fast, proprietary fallback): 8 payload bytes announced, second frame padded to 8 bytes with `pad`
    payload = bytes([0x00, 0x00, 0x00, 1, 2, 3, 4, 5])   # manufacturer 0 -> fallback definition
    f0 = bytes([0x00, 8]) + payload[:6]
    f1 = bytes([0x01]) + payload[6:] + bytes([pad] * 5)
    out = None
    for f in (f0, f1):
        out = d._decode(126720, 6, 1, 255, datetime.now(), f[::-1], f)
    return out
a, b = feed(0xFF), feed(0x00)
va = [(f.id, f.raw_value) for f in a.fields]; vb = [(f.id, f.raw_value) for f in b.fields]
print('FF padding:', va[-1]); print('00 padding:', vb[-1])
ok = va == vb
print('PASS' if ok else 'FAIL: the result depends on padding bytes'); sys.exit(0 if ok else 1)
