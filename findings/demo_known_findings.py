"""Genuine defects recorded as known findings (not repaired): each line shows the failing input against the real code.
Exit status 0 = every listed finding still reproduces (this script documents them; it is not a check)."""
import sys, os
sys.path.insert(0, os.environ.get('N2K_REPO', '/repo'))
from nmea2000 import pgns
from nmea2000.decoder import NMEA2000Decoder
from nmea2000.encoder import NMEA2000Encoder
from datetime import datetime
repro = True
# C01 GEN-OFFSET: 127513 batteryConfigurationStatus, peukertExponent: database Offset 1 (range 1..1.5, resolution 0.002) ignored
payload = bytes([0x00, 0x00, 0xC0, 0x64, 0x00, 0x32, 0x00, 0x00])      # peukert raw 50 -> 1.1 by the database
try:
    m = pgns.decode_pgn_127513(int.from_bytes(payload, 'little'))
    v = [f.value for f in m.fields if f.id == 'peukertExponent'][0]
    print('127513 peukertExponent raw 50 ->', v); repro &= abs((v or 0) - 1.1) > 1e-9
except ValueError as e:
    print('127513 with peukertExponent raw 50 (database value 1.1) ->', 'ValueError:', e)
# C01 NA-RANGE: 129796 sequenceNumber is a 2-bit field with database range 0..3: 3 is data, reported as None
from nmea2000.utils import decode_number
print('2-bit field, database range [0,3], raw 3 ->', decode_number(3, 0, 2, False, 1, 0, 3)); repro &= decode_number(3, 0, 2, False, 1, 0, 3) is None
print('1-bit field (129556 cna), raw 1        ->', decode_number(1, 0, 1, False, 1, 0, 1)); repro &= decode_number(1, 0, 1, False, 1, 0, 1) is None
# C08 DISP: 129808 with a DSC format that is not a distress call -> not dispatched to dscCallInformation (vacuous match), returns None
r = pgns.decode_pgn_129808(int.from_bytes(bytes([0x66] + [0] * 40), 'little'))
print('129808 non-distress payload           ->', r); repro &= r is None
# C09 ENC-PRODUCER: RESERVED / LOOKUP raw values wider than the field are silently truncated
d, e = NMEA2000Decoder(), NMEA2000Encoder()
p = bytes([0x01, 0x10, 0x27, 0xff, 0x7f, 0xff, 0x7f, 0xfd])
m = d._decode(127250, 2, 1, 255, datetime.now(), p[::-1], p)
for f in m.fields:
    if f.type.name == 'RESERVED': f.value = 0x7F            # 6-bit field
    if f.id == 'reference': f.raw_value = 5                   # 2-bit lookup
out = e._call_encode_function(m)
print('127250 reserved=0x7F (6 bits), reference raw=5 (2 bits) ->', out.hex(), '(last byte carries 0x3F and 1: truncated, no error)'); repro &= out[-1] == 0xFD
print('ALL REPRODUCE' if repro else 'SOMETHING NO LONGER REPRODUCES'); sys.exit(0 if repro else 1)
