"""C20: marker-free noise accumulates in the serial buffer without bound."""
import sys, os, asyncio
sys.path.insert(0, os.environ.get('N2K_REPO', '/repo'))
from nmea2000.ioclient import WaveShareNmea2000Gateway
class FakeReader:
    def __init__(self, chunks): self.chunks = list(chunks)
    async def read(self, n): return self.chunks.pop(0) if self.chunks else b'\x00' * 0
async def main():
    c = WaveShareNmea2000Gateway('/dev/null')
    c._buffer = bytearray()
    c.reader = FakeReader([bytes([1, 2, 3, 4] * 25)] * 1000)
    for _ in range(1000):
        await c._receive_impl()
    n = len(c._buffer)
    print('bytes buffered after 1000 reads of marker-free noise:', n)
    c._process_queue_task.cancel()
    return n <= 200
ok = asyncio.run(main())
print('PASS' if ok else 'FAIL'); sys.exit(0 if ok else 1)
