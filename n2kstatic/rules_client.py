"""rules_client.py -- typestate, atomic-section, fault-path and framing rules over nmea2000/ioclient.py
(properties C12, C13, C14, C19, C20).

Path facts come from cfg.CFG (statement CFG with exception edges).  The asyncio fact everything
rests on: between two points of one coroutine another task can run only if a suspending `await`
lies between them; `await coro()` runs coro synchronously up to its first suspension.
"""
from __future__ import annotations

import ast

from .cfg import CFG, walk_no_nested, contains, _own_exprs, handler_names, call_name
from .model import AnalysisError

IO = 'nmea2000/ioclient.py'
BASE = 'AsyncIOClient'

# ---------------------------------------------------------------------------
# discovery
# ---------------------------------------------------------------------------
def io(program):
    return program.mod('ioclient')

def suppressing_with(w):
    """`with attempt:` of a tenacity retry loop swallows the body's exception (and retries)"""
    for it in w.items:
        e = it.context_expr
        if isinstance(e, ast.Name) and e.id == 'attempt':
            return True
    return False

_cfgs = {}
def cfg_of(program, qual):
    key = (id(program), qual)
    if key not in _cfgs:
        fn = program.fn('ioclient', qual)
        _cfgs[key] = CFG(fn, suppressing=suppressing_with)
    return _cfgs[key]

def client_classes(program):
    """classes deriving from AsyncIOClient (transitively), base first"""
    m = io(program)
    if BASE not in m.classes:
        raise AnalysisError(f"anchor ioclient.{BASE} vanished")
    return [c for c in m.classes if BASE in program.mro('ioclient', c)]

def concrete_classes(program):
    """client classes on which all three abstract hooks resolve to a non-abstract implementation"""
    out = []
    for c in client_classes(program):
        ok = True
        for meth in ('_connect_impl', '_receive_impl', '_encode_impl'):
            q = program.resolve_method('ioclient', c, meth)
            if q is None or q.startswith(BASE + '.'):
                ok = False
        if ok:
            out.append(c)
    return out

def impls(program, meth):
    """distinct implementations of a hook reachable from concrete classes: {qualname: [classes using it]}"""
    out = {}
    for c in concrete_classes(program):
        q = program.resolve_method('ioclient', c, meth)
        out.setdefault(q, []).append(c)
    return out

def methods_of(program):
    m = io(program)
    return {q: f for q, f in m.defs.items() if '.' in q}

def state_member(e):
    """State.X -> 'X'"""
    if isinstance(e, ast.Attribute) and isinstance(e.value, ast.Name) and e.value.id == 'State':
        return e.attr
    return None

def is_self_attr(e, names):
    return isinstance(e, ast.Attribute) and isinstance(e.value, ast.Name) and e.value.id == 'self' and e.attr in names

def is_state_read(e):
    return is_self_attr(e, ('_state', 'state'))

def state_members(program):
    c = program.cls('ioclient', 'State')
    out = []
    for n in c.body:
        if isinstance(n, ast.Assign):
            for t in n.targets:
                if isinstance(t, ast.Name):
                    out.append(t.id)
    for need in ('DISCONNECTED', 'CONNECTED', 'CLOSED'):
        if need not in out:
            raise AnalysisError(f"anchor ioclient.State.{need} vanished")
    return out

def eval_under_closed(e, value='CLOSED'):
    """three-valued truth of a condition under the assumption self._state == State.<value>"""
    if isinstance(e, ast.UnaryOp) and isinstance(e.op, ast.Not):
        v = eval_under_closed(e.operand, value)
        return None if v is None else (not v)
    if isinstance(e, ast.BoolOp):
        vals = [eval_under_closed(v, value) for v in e.values]
        if isinstance(e.op, ast.And):
            if any(v is False for v in vals):
                return False
            if all(v is True for v in vals):
                return True
            return None
        if any(v is True for v in vals):
            return True
        if all(v is False for v in vals):
            return False
        return None
    if isinstance(e, ast.Compare) and len(e.ops) == 1:
        a, b, op = e.left, e.comparators[0], e.ops[0]
        if is_state_read(b) and not is_state_read(a):
            a, b = b, a
        if is_state_read(a):
            if isinstance(op, (ast.Eq, ast.Is, ast.NotEq, ast.IsNot)):
                m = state_member(b)
                if m is None:
                    return None
                eq = (m == value)
                return eq if isinstance(op, (ast.Eq, ast.Is)) else (not eq)
            if isinstance(op, (ast.In, ast.NotIn)) and isinstance(b, (ast.Tuple, ast.List, ast.Set)):
                ms = [state_member(x) for x in b.elts]
                if None in ms:
                    return None
                r = value in ms
                return r if isinstance(op, ast.In) else (not r)
    return None

STATE_NEUTRAL_ATTRS = {'writer', 'reader', 'receive_callback', 'status_callback', 'seed_network_map', '_receive_task', '_process_queue_task', 'queue', 'lock', '_send_lock',
                       'logger', 'decoder', 'encoder', 'type', 'host', 'port', '_buffer', 'serial_port'}

def may_encode_state(test):
    """an undecided test that reads something of the client this analysis does not know (another attribute, a property, a method): it may stand for
    the connection state, so a path through it is no witness under an assumed state.  Tests over locals and over the attributes listed above
    (none of which holds the state) can go both ways in every state."""
    for n in ast.walk(test):
        if isinstance(n, ast.Attribute) and isinstance(n.value, ast.Name) and n.value.id == 'self' and n.attr not in STATE_NEUTRAL_ATTRS:
            return True
    return False

def establishes_not_closed(cfg, p, label):
    """edge (p --label-->) proves self._state != CLOSED at its target"""
    n = cfg.nodes[p]
    if n.kind != 'test' or label not in ('true', 'false'):
        return False
    v = eval_under_closed(n.ast.test)
    if v is None:
        return False
    # under CLOSED the condition is v, so the edge labelled (not v) is taken only when not CLOSED
    return (label == 'true' and v is False) or (label == 'false' and v is True)

def atomic_not_closed(cfg, target):
    """backward search from `target`: every path must meet an edge establishing not-CLOSED before it meets
    an await node or the function entry.  Returns list of offending (kind, node id) witnesses."""
    bad = []
    seen = set()
    stack = [target]
    while stack:
        u = stack.pop()
        for p, label in cfg.pred[u]:
            if establishes_not_closed(cfg, p, label):
                continue
            if (p, label) in seen:
                continue
            seen.add((p, label))
            pn = cfg.nodes[p]
            if pn.kind == 'entry':
                bad.append(('entry', p))
                continue
            if cfg.is_await(p):
                bad.append(('await', p))
                continue
            stack.append(p)
    return bad

def calls_in_node(cfg, nid, pred):
    n = cfg.nodes[nid]
    if n.ast is None or n.kind not in ('stmt', 'test', 'iter', 'with'):
        return []
    out = []
    for e in _own_exprs(n.ast):
        for x in walk_no_nested(e):
            if isinstance(x, ast.Call) and pred(x):
                out.append(x)
    return out

def nodes_calling(cfg, pred):
    return [(n.id, c) for n in cfg.nodes for c in calls_in_node(cfg, n.id, pred)]

def is_self_call(c, name):
    return isinstance(c.func, ast.Attribute) and c.func.attr == name and isinstance(c.func.value, ast.Name) and c.func.value.id == 'self'

def outer_loops(g):
    """while-loops of the function that are not nested in another loop: the ones that keep a background task alive"""
    out = []
    for n in g.nodes:
        if n.kind == 'test' and isinstance(n.ast, ast.While):
            t = n.ast; nested = False
            while hasattr(t, '_parent') and t is not g.fn:
                t = t._parent
                if isinstance(t, (ast.While, ast.For, ast.AsyncFor)):
                    nested = True
            if not nested:
                out.append(n)
    return out

def stmt_key(node):
    """normalised statement text (never a line number) for instance keys"""
    try:
        s = ast.unparse(node)
    except Exception:
        s = type(node).__name__
    s = s.split('\n')[0]
    return s[:70].replace(' ', '')

# ---------------------------------------------------------------------------
# C14
# ---------------------------------------------------------------------------
def state_writer(chk, program, rule='STATE-WRITER'):
    """_state is assigned only in AsyncIOClient.__init__ and AsyncIOClient._update_state (package-wide)"""
    allowed = {('ioclient', f"{BASE}.__init__"), ('ioclient', f"{BASE}._update_state")}
    n = 0
    for mname, m in program.modules.items():
        for node in ast.walk(m.tree):
            hit = None
            if isinstance(node, ast.Attribute) and node.attr == '_state' and isinstance(node.ctx, (ast.Store, ast.Del)):
                hit = 'assignment'
            elif isinstance(node, ast.Call) and isinstance(node.func, ast.Name) and node.func.id in ('setattr', 'delattr') and len(node.args) >= 2 \
                    and isinstance(node.args[1], ast.Constant) and node.args[1].value == '_state':
                hit = node.func.id
            elif isinstance(node, ast.Subscript) and isinstance(node.ctx, (ast.Store, ast.Del)) and isinstance(node.slice, ast.Constant) and node.slice.value == '_state':
                hit = '__dict__ store'
            if not hit:
                continue
            n += 1
            q = _enclosing(node)
            ok = (mname, q) in allowed
            chk.check(ok, rule, f"{mname}.{q}::{hit}", file=m.rel(), line=node.lineno, func=q,
                      expected='_state written only by AsyncIOClient.__init__ / _update_state', found=f"{hit} in {mname}.{q}")
    chk.floor('state_write_sites', n, 2)
    return n

def _enclosing(node):
    q = []
    t = node
    while hasattr(t, '_parent'):
        t = t._parent
        if isinstance(t, (ast.FunctionDef, ast.AsyncFunctionDef, ast.ClassDef)):
            q.append(t.name)
    return '.'.join(reversed(q)) or '<module>'

def closed_final(chk, program, rule='CLOSED-FINAL'):
    """no path writes a state other than CLOSED, or opens a connection, after CLOSED could have been set:
    a not-CLOSED test reaches the write/open with no await in between"""
    m = io(program)
    us = cfg_of(program, f"{BASE}._update_state")
    fn = us.fn
    params = [a.arg for a in fn.args.args]
    if len(params) < 2:
        raise AnalysisError('_update_state lost its new-state parameter')
    newp = params[1]
    # assignments to self._state inside _update_state
    assigns = []
    for n in us.nodes:
        if n.kind == 'stmt' and isinstance(n.ast, (ast.Assign, ast.AnnAssign, ast.AugAssign)):
            tg = n.ast.targets if isinstance(n.ast, ast.Assign) else [n.ast.target]
            if any(is_self_attr(t, ('_state',)) for t in tg):
                assigns.append(n)
    if not assigns:
        raise AnalysisError('_update_state no longer assigns self._state')
    inner_guarded = True
    inner_bad = []
    for a in assigns:
        v = a.ast.value
        if isinstance(v, ast.Name) and v.id == newp:
            bad = atomic_not_closed(us, a.id)
            # inside the setter a test only helps when the value written could be non-CLOSED; entry reached = the caller must guard
            only_entry = all(k == 'entry' for k, _ in bad)
            if bad and not only_entry:
                inner_bad.extend(bad)
            if bad:
                inner_guarded = False
        elif state_member(v) == 'CLOSED':
            continue
        else:
            bad = atomic_not_closed(us, a.id)
            if bad:
                chk.violation(rule, f"_update_state::{stmt_key(a.ast)}", file=IO, line=a.line, func='_update_state',
                              expected='not-CLOSED test with no await before the write', found=[f"{k}@{us.nodes[i].line}" for k, i in bad])
    for k, i in inner_bad:
        chk.violation(rule, f"_update_state::await-before-write", file=IO, line=us.nodes[i].line, func='_update_state',
                      expected='no await between entry and the state write', found=f"await at line {us.nodes[i].line}")
    chk.unit('setter_guards_itself', inner_guarded)
    nsites = 0
    for q, f in methods_of(program).items():
        g = cfg_of(program, q)
        for nid, c in nodes_calling(g, lambda c: is_self_call(c, '_update_state')):
            nsites += 1
            arg = c.args[0] if c.args else (c.keywords[0].value if c.keywords else None)
            mem = state_member(arg) if arg is not None else None
            inst = f"{q}::_update_state({mem or (ast.unparse(arg) if arg is not None else '')})"
            if mem == 'CLOSED':
                chk.ok(rule, inst, file=IO, line=c.lineno, func=q, found='writes CLOSED', nontrivial=False)
                continue
            if inner_guarded:
                chk.ok(rule, inst, file=IO, line=c.lineno, func=q, found='setter refuses to leave CLOSED')
                continue
            bad = atomic_not_closed(g, nid)
            det = ''
            if bad:
                k, i = bad[0]
                det = (f"`{stmt_key(g.nodes[i].ast)}` (line {g.nodes[i].line}) suspends between the CLOSED test and this state change: close() can run there and is then overwritten"
                       if k == 'await' else 'no CLOSED test on a path from the function entry')
            chk.check(not bad, rule, inst, file=IO, line=c.lineno, func=q,
                      expected='a `state != CLOSED` test reaches this call with no await in between (on every path)',
                      found=[f"{k}@line{g.nodes[i].line}:{stmt_key(g.nodes[i].ast) if k == 'await' else ''}" for k, i in bad] or 'guarded', detail=det)
        for nid, c in nodes_calling(g, lambda c: is_self_call(c, '_connect_impl')):
            nsites += 1
            bad = atomic_not_closed(g, nid)
            chk.check(not bad, rule, f"{q}::_connect_impl()", file=IO, line=c.lineno, func=q,
                      expected='a `state != CLOSED` test reaches the connection attempt with no await in between',
                      found=[f"{k}@line{g.nodes[i].line}" for k, i in bad] or 'guarded')
    chk.floor('state_call_sites', nsites, 4)

def notify(chk, program, rule='NOTIFY'):
    g = cfg_of(program, f"{BASE}._update_state")
    fn = g.fn
    newp = [a.arg for a in fn.args.args][1]
    assigns = [n for n in g.nodes if n.kind == 'stmt' and isinstance(n.ast, ast.Assign) and any(is_self_attr(t, ('_state',)) for t in n.ast.targets)]
    if len(assigns) != 1:
        chk.unknown(rule, '_update_state', f"{len(assigns)} assignments to _state (expected 1)", IO, fn.lineno)
        return
    A = assigns[0]
    # (1) the assignment is reached only when the state really changes: forward must-analysis; in the world "current state == new state" a test
    # `X == new` is true and `X != new` false (X = self._state or a local bound to it); an outcome impossible in that world proves a change
    from .cfg import must_fact, implied_edges
    aliases = {n.ast.targets[0].id for n in g.nodes if n.kind == 'stmt' and isinstance(n.ast, ast.Assign) and len(n.ast.targets) == 1 and isinstance(n.ast.targets[0], ast.Name)
               and is_state_read(n.ast.value)}
    def is_x(e):
        return is_state_read(e) or (isinstance(e, ast.Name) and e.id in aliases)
    def world(e):
        if isinstance(e, ast.Compare) and len(e.ops) == 1:
            a_, b_ = e.left, e.comparators[0]
            if (is_x(a_) and isinstance(b_, ast.Name) and b_.id == newp) or (is_x(b_) and isinstance(a_, ast.Name) and a_.id == newp):
                if isinstance(e.ops[0], (ast.Eq, ast.Is)): return True
                if isinstance(e.ops[0], (ast.NotEq, ast.IsNot)): return False
        return NotImplemented
    ok1 = must_fact(g, gen_edges=implied_edges(g, world))[A.id]
    chk.check(ok1, rule, '_update_state::no-change-suppressed', file=IO, line=A.line, func='_update_state',
              expected='`if self._state == new_state: return` dominates the assignment (no notification without a change)',
              found='assignment reachable with an unchanged state' if not ok1 else 'dominated')
    # (2) callback invocation sites
    cb = nodes_calling(g, lambda c: is_self_attr(c.func, ('status_callback',)))
    chk.anchor(len(cb) == 1, rule, '_update_state::one-invocation', file=IO, line=fn.lineno, func='_update_state', expected=1, found=len(cb))
    for nid, c in cb:
        inst = f"_update_state::callback"
        # after the assignment, no await between
        dom = g.dominates(A.id, nid)
        aw = g.await_nodes() - {nid}
        between_bad = None
        # any path A -> nid that passes an await node?
        ra = g.reach(A.id)
        for w in aw:
            if w in ra and nid in g.reach(w):
                between_bad = w
                break
        chk.check(dom and between_bad is None, rule, f"{inst}::after-write-atomically", file=IO, line=c.lineno, func='_update_state',
                  expected='callback invoked after the state write with no await in between (notifications in order of changes)',
                  found=('callback not dominated by the write' if not dom else (f"await at line {g.nodes[between_bad].line} between write and callback" if between_bad is not None else 'ok')))
        arg = c.args[0] if c.args else None
        okarg = arg is not None and (is_state_read(arg) or (isinstance(arg, ast.Name) and arg.id == newp))
        chk.check(okarg, rule, f"{inst}::argument", file=IO, line=c.lineno, func='_update_state', expected='the new state', found=ast.unparse(arg) if arg is not None else None)
        # inside try catching Exception, handler does not re-raise
        tr = _enclosing_try(c, fn)
        okt = False
        found = 'not inside try'
        if tr is not None:
            found = [handler_names(h) for h in tr.handlers]
            for h in tr.handlers:
                names = handler_names(h)
                if any(x in ('Exception', 'BaseException', '<bare>') for x in names):
                    okt = not any(isinstance(x, ast.Raise) for x in walk_no_nested(ast.Module(body=h.body, type_ignores=[])))
                    break
        chk.check(okt, rule, f"{inst}::shielded", file=IO, line=c.lineno, func='_update_state',
                  expected='try/except Exception around the callback, handler does not re-raise', found=found)
    # (3) no other invocation site in the package
    others = 0
    for mname, m in program.modules.items():
        for node in ast.walk(m.tree):
            if isinstance(node, ast.Call) and isinstance(node.func, ast.Attribute) and node.func.attr == 'status_callback':
                q = _enclosing(node)
                if not (mname == 'ioclient' and q == f"{BASE}._update_state"):
                    others += 1
                    chk.violation(rule, f"{mname}.{q}::extra-invocation", file=m.rel(), line=node.lineno, func=q, expected='status callback invoked only by _update_state', found=q)
    if not others:
        chk.ok(rule, 'package::single-invocation-site', file=IO, line=fn.lineno, nontrivial=True)

def _enclosing_try(node, stop):
    t = node
    while hasattr(t, '_parent') and t is not stop:
        p = t._parent
        if isinstance(p, ast.Try) and any(t is b or _contains_node(b, t) for b in p.body):
            return p
        t = p
    return None

def _contains_node(root, node):
    for n in ast.walk(root):
        if n is node:
            return True
    return False

def close_does(chk, program, rule='CLOSE-DOES'):
    q = f"{BASE}.close"
    g = cfg_of(program, q)
    fn = g.fn
    upd = [(nid, c) for nid, c in nodes_calling(g, lambda c: is_self_call(c, '_update_state')) if c.args and state_member(c.args[0]) == 'CLOSED']
    chk.check(len(upd) == 1, rule, 'close::sets-CLOSED', file=IO, line=fn.lineno, func='close', expected='one _update_state(State.CLOSED)', found=len(upd))
    if len(upd) != 1:
        return
    U = upd[0][0]
    # nothing that touches the connection precedes it: every node calling/awaiting something other than logging is dominated by U
    for n in g.nodes:
        if n.kind in ('stmt', 'test') and n.id != U:
            cs = calls_in_node(g, n.id, lambda c: True)
            cs = [c for c in cs if not call_name(c).startswith('self.logger.')]
            if (cs or g.is_await(n.id)) and not g.dominates(U, n.id):
                chk.violation(rule, f"close::before-CLOSED::{stmt_key(n.ast)}", file=IO, line=n.line, func='close',
                              expected='CLOSED is set before anything else happens in close()', found=stmt_key(n.ast))
    chk.ok(rule, 'close::CLOSED-first', file=IO, line=g.nodes[U].line, func='close')
    # writer closed if present
    wc = nodes_calling(g, lambda c: call_name(c) == 'self.writer.close')
    chk.check(bool(wc), rule, 'close::writer-closed', file=IO, line=fn.lineno, func='close', expected='self.writer.close() when a writer exists', found=len(wc))
    for nid, c in wc:
        # reachable from U on the path where writer is truthy: the guard must be a test on self.writer only
        preds = [p for p, l in g.pred[nid]]
        okg = all(g.nodes[p].kind != 'test' or _mentions_only(g.nodes[p].ast.test, {'writer'}) for p in preds)
        chk.check(okg, rule, 'close::writer-close-guard', file=IO, line=c.lineno, func='close', expected='guarded only by the presence of a writer', found=[stmt_key(g.nodes[p].ast) for p in preds])
    # both stored tasks cancelled
    for attr in ('_receive_task', '_process_queue_task'):
        cc = nodes_calling(g, lambda c, attr=attr: call_name(c) == f"self.{attr}.cancel")
        chk.check(bool(cc), rule, f"close::cancels::{attr}", file=IO, line=fn.lineno, func='close', expected=f"self.{attr}.cancel()", found=len(cc))
        for nid, c in cc:
            preds = [p for p, l in g.pred[nid]]
            okg = all(g.nodes[p].kind != 'test' or _mentions_only(g.nodes[p].ast.test, {attr}) for p in preds)
            chk.check(okg, rule, f"close::cancel-guard::{attr}", file=IO, line=c.lineno, func='close',
                      expected='guarded only by the task existing / not being done', found=[stmt_key(g.nodes[p].ast) for p in preds])
    # every background loop re-tests CLOSED
    for lq in (f"{BASE}._receive_loop", f"{BASE}._process_queue"):
        lg = cfg_of(program, lq)
        loops = outer_loops(lg)
        chk.anchor(bool(loops), rule, f"{lq}::has-loop", file=IO, line=lg.fn.lineno, func=lq, expected='while loop', found=len(loops))
        for w in loops:
            v = eval_under_closed(w.ast.test)
            chk.check(v is False, rule, f"{lq}::loop-tests-CLOSED", file=IO, line=w.line, func=lq,
                      expected='loop condition is false once the state is CLOSED', found=ast.unparse(w.ast.test))
    # create_task inventory
    stored_cancelled = {'_receive_task', '_process_queue_task'}
    nct = 0
    for mq, f in methods_of(program).items():
        cg = cfg_of(program, mq)
        for nid, c in nodes_calling(cg, lambda c: call_name(c) in ('asyncio.create_task', 'asyncio.ensure_future', 'create_task') or (isinstance(c.func, ast.Attribute) and c.func.attr == 'create_task')):
            nct += 1
            st = cg.nodes[nid].ast
            coro = c.args[0] if c.args else None
            cname = coro.func.attr if isinstance(coro, ast.Call) and isinstance(coro.func, ast.Attribute) else None
            inst = f"{mq}::create_task({cname})"
            stored = isinstance(st, ast.Assign) and any(is_self_attr(t, stored_cancelled) for t in st.targets)
            if stored:
                chk.ok(rule, inst, file=IO, line=c.lineno, func=mq, found='stored and cancelled by close()')
                continue
            tq = program.resolve_method('ioclient', BASE, cname) if cname else None
            if tq is None:
                chk.violation(rule, inst, file=IO, line=c.lineno, func=mq, expected='task stored-and-cancelled or self-terminating', found='unresolved coroutine')
                continue
            tg = cfg_of(program, tq)
            # self-terminating on a CLOSED test at entry: the first test node is a CLOSED test whose CLOSED edge returns, and no await precedes it
            kind = None
            if atomic_not_closed_from_entry(tg):
                kind = 'CLOSED test at entry'
            elif not any(isinstance(n.ast, (ast.While,)) for n in tg.nodes if n.kind == 'test') and not any(n.kind == 'iter' for n in tg.nodes):
                kind = 'loop-free (finite)'
            chk.check(kind is not None, rule, inst, file=IO, line=c.lineno, func=mq,
                      expected='stored-and-cancelled, or self-terminating on a CLOSED test at entry, or loop-free', found=kind or 'unbounded background task not cancelled by close()')
    chk.floor('create_task_sites', nct, 4)

def atomic_not_closed_from_entry(g):
    """with the state CLOSED the function ends at once: following from the entry only the branch outcomes that state allows (tests on the state,
    and on local flags computed from it), no await, no loop and no raise is reachable and the normal exit is"""
    from .cfg import reach_with_flags
    def atom(e):
        r = eval_under_closed(e, 'CLOSED')
        return NotImplemented if r is None else r
    r = reach_with_flags(g, g.entry.id, (), atom)
    if g.exit.id in r and not (r & g.await_nodes()) and not any(g.nodes[x].kind == 'iter' or (g.nodes[x].kind == 'test' and isinstance(g.nodes[x].ast, ast.While)) for x in r):
        return True
    return _atomic_not_closed_from_entry_first_test(g)

def _atomic_not_closed_from_entry_first_test(g):
    """function starts with `if state == CLOSED: return` before any await: from entry, the first test reached on every
    path is a CLOSED test and its CLOSED edge leads to exit without an await"""
    cur = g.entry.id
    seen = set()
    while True:
        succ = g.succ[cur]
        nexts = [v for v, l in succ if l != 'exc']
        if len(nexts) != 1 and g.nodes[cur].kind != 'test':
            return False
        n = g.nodes[cur]
        if n.kind == 'test':
            v = eval_under_closed(n.ast.test)
            if v is None:
                return False
            closed_edge = 'true' if v else 'false'
            tgt = [x for x, l in succ if l == closed_edge]
            if not tgt:
                return False
            # CLOSED edge must reach exit without await and without loops
            r = g.reach(tgt[0], include_src=True)
            if any(g.is_await(x) for x in r):
                return False
            return g.exit.id in r
        if g.is_await(cur) or cur in seen:
            return False
        seen.add(cur)
        cur = nexts[0]

def _mentions_only(test, attrs):
    """the test mentions self.<attr> for attrs in the set and no other self attribute"""
    found = set()
    for n in ast.walk(test):
        if isinstance(n, ast.Attribute) and isinstance(n.value, ast.Name) and n.value.id == 'self':
            found.add(n.attr)
    return bool(found) and found <= attrs

# ---------------------------------------------------------------------------
# C13
# ---------------------------------------------------------------------------
READ_RAISES_AT_EOF = {'readexactly', 'readuntil'}
READ_EMPTY_AT_EOF = {'read', 'readline'}

def reader_reads(g):
    """(node id, call, method) for awaited self.reader.<read op>() calls"""
    out = []
    for nid, c in nodes_calling(g, lambda c: isinstance(c.func, ast.Attribute) and c.func.attr in (READ_RAISES_AT_EOF | READ_EMPTY_AT_EOF)
                                and is_self_attr(c.func.value, ('reader',))):
        out.append((nid, c, c.func.attr))
    return out

def emptiness_edge(test, var):
    """label of the edge taken when `var` is empty, for the accepted idioms; None if the test says nothing about it"""
    t = test
    if isinstance(t, ast.UnaryOp) and isinstance(t.op, ast.Not):
        inner = emptiness_edge(t.operand, var)
        return None if inner is None else ('false' if inner == 'true' else 'true')
    if isinstance(t, ast.Name) and t.id == var:
        return 'false'                                   # `if data:`  -> empty on the false edge
    if isinstance(t, ast.Compare) and len(t.ops) == 1:
        a, b, op = t.left, t.comparators[0], t.ops[0]
        def is_var(x): return isinstance(x, ast.Name) and x.id == var
        def is_empty_lit(x): return isinstance(x, ast.Constant) and x.value in (b'', '')
        def is_len(x): return isinstance(x, ast.Call) and isinstance(x.func, ast.Name) and x.func.id == 'len' and len(x.args) == 1 and is_var(x.args[0])
        def is_zero(x): return isinstance(x, ast.Constant) and x.value == 0
        if (is_var(a) and is_empty_lit(b)) or (is_var(b) and is_empty_lit(a)) or (is_len(a) and is_zero(b)) or (is_len(b) and is_zero(a)):
            if isinstance(op, ast.Eq):
                return 'true'
            if isinstance(op, ast.NotEq):
                return 'false'
        if is_len(a) and isinstance(b, ast.Constant) and isinstance(b.value, int):
            if isinstance(op, ast.Lt) and b.value == 1: return 'true'
            if isinstance(op, ast.Gt) and b.value == 0: return 'false'
            if isinstance(op, ast.GtE) and b.value == 1: return 'false'
            if isinstance(op, ast.LtE) and b.value == 0: return 'true'
    return None

def eof_ok(g, nid, call):
    """the read at node nid is under EOF discipline.  -> (ok, description)"""
    meth = call.func.attr
    if meth in READ_RAISES_AT_EOF:
        return True, f"{meth} raises IncompleteReadError at end of stream"
    st = g.nodes[nid].ast
    var = None
    if isinstance(st, ast.Assign) and len(st.targets) == 1 and isinstance(st.targets[0], ast.Name):
        var = st.targets[0].id
    if var is None:
        return False, 'result of the read is not bound to a name that could be tested'
    # names derived from the result by operations that map empty to empty (decode / strip / case changes)
    derived = {var}
    changed = True
    while changed:
        changed = False
        for n in g.nodes:
            if n.kind == 'stmt' and isinstance(n.ast, ast.Assign) and len(n.ast.targets) == 1 and isinstance(n.ast.targets[0], ast.Name) and n.ast.targets[0].id not in derived:
                v = n.ast.value
                okchain = False
                while isinstance(v, ast.Call) and isinstance(v.func, ast.Attribute) and v.func.attr in ('decode', 'strip', 'rstrip', 'lstrip', 'lower', 'upper'):
                    v = v.func.value
                    okchain = True
                if okchain and isinstance(v, ast.Name) and v.id in derived:
                    derived.add(n.ast.targets[0].id); changed = True
    # every path from the read to the normal exit passes an emptiness test whose empty edge cannot reach the normal exit
    tests = []
    for n in g.nodes:
        if n.kind == 'test' and isinstance(n.ast, ast.If):
            lab = None
            for dv in derived:
                lab = lab or emptiness_edge(n.ast.test, dv)
            if lab:
                tgt = [v for v, l in g.succ[n.id] if l == lab]
                if tgt and g.exit.id not in g.reach(tgt[0], include_src=True) and g.raise_exit.id in g.reach(tgt[0], include_src=True):
                    tests.append(n.id)
    if not tests:
        return False, f"`{var}` is never tested for emptiness with a raise on the empty branch ({meth}() returns b'' at end of stream)"
    # the variable must not be reassigned between read and test; simple: test reachable from read avoiding other assignments to var
    if g.exit.id in g.reach(nid, avoid=tests):
        p = g.path(nid, g.exit.id, avoid=tests)
        return False, f"a path from the read to the return avoids the emptiness test: {g.describe(p) if p else ''}"
    return True, f"`{var}` tested for emptiness, empty branch raises"

def eof_rule(chk, program, rule='EOF'):
    n = 0
    for q, classes in sorted(impls(program, '_receive_impl').items()):
        g = cfg_of(program, q)
        reads = reader_reads(g)
        chk.anchor(bool(reads), rule, f"{q}::has-read", file=IO, line=g.fn.lineno, func=q, expected='an awaited self.reader read', found=len(reads))
        for nid, c, meth in reads:
            n += 1
            ok, why = eof_ok(g, nid, c)
            chk.check(ok, rule, f"{q}::{meth}", file=IO, line=c.lineno, func=q,
                      expected='end of stream surfaces as an exception (so the loop reports DISCONNECTED and reconnects)', found=why,
                      detail='' if ok else f"after the peer closes, {meth}() returns b'' immediately forever: no DISCONNECTED, and the receive loop never suspends again (used by {', '.join(classes)})")
    chk.floor('reader_reads', n, 3)

def fault_path(chk, program, rule='FAULT-PATH'):
    """generic exception handlers of the receive loop and of send: under not-CLOSED -> _update_state(DISCONNECTED) then create_task(connect())"""
    for q, trigger in ((f"{BASE}._receive_loop", lambda c: is_self_call(c, '_receive_impl')),
                       (f"{BASE}.send", lambda c: isinstance(c.func, ast.Attribute) and c.func.attr in ('write', 'drain') and (is_self_attr(c.func.value, ('writer',)) or (isinstance(c.func.value, ast.Name) and 'writer' in c.func.value.id)))):
        g = cfg_of(program, q)
        trig = nodes_calling(g, trigger)
        chk.anchor(bool(trig), rule, f"{q}::trigger", file=IO, line=g.fn.lineno, func=q, expected='receive / write call present', found=len(trig))
        for nid, c in trig:
            hs = [v for v, l in g.succ[nid] if l == 'exc' and g.nodes[v].kind == 'handler']
            generic = [h for h in hs if any(x in ('Exception', 'BaseException', '<bare>') for x in handler_names(g.nodes[h].ast))]
            inst = f"{q}::{stmt_key(c)}"
            if not generic:
                chk.violation(rule, f"{inst}::handler", file=IO, line=c.lineno, func=q, expected='enclosed by `except Exception`', found=[g.nodes[h].label for h in hs])
                continue
            H = generic[0]
            U = [x for x, cc in nodes_calling(g, lambda c: is_self_call(c, '_update_state') and c.args and state_member(c.args[0]) == 'DISCONNECTED')]
            Kc = [x for x, cc in nodes_calling(g, lambda c: call_name(c).endswith('create_task') and c.args and isinstance(c.args[0], ast.Call) and is_self_call(c.args[0], 'connect'))]
            # for each state other than CLOSED: follow only the edges that state takes at tests on the state; every path handler -> exit must report and reconnect
            for sv in ('CONNECTED', 'DISCONNECTED'):
                def reach_state(start, avoid, sv=sv):
                    from .cfg import reach_with_flags
                    def atom(e, sv=sv):
                        r = eval_under_closed(e, sv)
                        return NotImplemented if r is None else r
                    return reach_with_flags(g, start, avoid, atom, taint=may_encode_state)
                ru, ru_sure = reach_state(H, set(U))
                rk, rk_sure = reach_state(H, set(Kc))
                miss_u = g.exit.id in ru
                miss_k = g.exit.id in rk
                order_ok = all(g.exit.id not in reach_state(u, set(Kc))[0] for u in U) if U else False
                if (miss_u and g.exit.id not in ru_sure) or (miss_k and g.exit.id not in rk_sure):
                    # the only paths that skip the report / the reconnect pass a test this analysis cannot evaluate under the assumed state and that
                    # reads something of the client it does not know: no witness
                    chk.unknown(rule, f"{inst}::state={sv}", 'the fault handler branches on something of the client that may stand for the connection state '
                                '(not a comparison of self._state with a State member): whether a path skips the report is not decided', IO, g.nodes[H].line)
                    continue
                chk.check(not miss_u, rule, f"{inst}::reports-DISCONNECTED::state={sv}", file=IO, line=g.nodes[H].line, func=q,
                          expected=f"with the client {sv}, every path through the fault handler calls _update_state(State.DISCONNECTED)", found='a path skips it' if miss_u else 'ok')
                chk.check(not miss_k and order_ok, rule, f"{inst}::reconnects::state={sv}", file=IO, line=g.nodes[H].line, func=q,
                          expected=f"with the client {sv} (anything but CLOSED), every path through the fault handler creates the connect() task, after reporting",
                          found='a path ends without a reconnect' if miss_k else ('ok' if order_ok else 'reconnect not after the report'),
                          detail='' if not miss_k else 'a fault that arrives while the state is already DISCONNECTED (set by the other fault path) would never be followed by a reconnect')
            closed_quiet = True
            # with the client CLOSED the handler must do neither
            def reach_closed(start):
                from .cfg import reach_with_flags
                def atom(e):
                    r = eval_under_closed(e, 'CLOSED')
                    return NotImplemented if r is None else r
                return reach_with_flags(g, start, (), atom)
            rc = reach_closed(H)
            from .cfg import reach_with_flags as _rwf
            rc_sure = _rwf(g, H, (), lambda e: (NotImplemented if eval_under_closed(e, 'CLOSED') is None else eval_under_closed(e, 'CLOSED')), taint=may_encode_state)[1]
            if ((set(U) | set(Kc)) & rc) and not ((set(U) | set(Kc)) & rc_sure):
                chk.unknown(rule, f"{inst}::quiet-when-CLOSED", 'the fault handler branches on something of the client that may stand for the connection state: whether it acts when CLOSED is not decided', IO, g.nodes[H].line)
                continue
            chk.check(not (set(U) & rc) and not (set(Kc) & rc), rule, f"{inst}::quiet-when-CLOSED", file=IO, line=g.nodes[H].line, func=q,
                      expected='with the client CLOSED the handler neither changes the state nor reconnects', found='reachable' if (set(U) | set(Kc)) & rc else 'ok')

def _kw(call, name):
    for k in call.keywords:
        if k.arg == name:
            return k.value
    return None

def _num(e):
    if isinstance(e, ast.Constant) and isinstance(e.value, (int, float)) and not isinstance(e.value, bool):
        return e.value
    if isinstance(e, ast.UnaryOp) and isinstance(e.op, ast.USub) and isinstance(e.operand, ast.Constant):
        return -e.operand.value
    return None

def retry_rule(chk, program, rule='RETRY'):
    q = f"{BASE}.connect"
    g = cfg_of(program, q)
    fn = g.fn
    loops = [n for n in g.nodes if n.kind == 'iter' and isinstance(n.ast, ast.AsyncFor) and isinstance(n.ast.iter, ast.Call) and call_name(n.ast.iter).endswith('AsyncRetrying')]
    if not loops:
        # no library retry loop: a hand-written one is decided by walking the graph of connect() along the path a failing attempt takes
        return retry_by_hand(chk, program, g, rule)
    chk.check(len(loops) == 1, rule, 'connect::retry-loop', file=IO, line=fn.lineno, func=q, expected='one `async for attempt in AsyncRetrying(...)`', found=len(loops))
    if len(loops) != 1:
        return
    L = loops[0]
    c = L.ast.iter
    stop = _kw(c, 'stop')
    chk.check(isinstance(stop, ast.Name) and stop.id == 'stop_never', rule, 'connect::stop', file=IO, line=c.lineno, func=q,
              expected='stop=stop_never (retries for as long as needed)', found=ast.unparse(stop) if stop is not None else 'default (stop_never)' if False else (ast.unparse(stop) if stop else 'absent'))
    wait = _kw(c, 'wait')
    okw = False; found = ast.unparse(wait) if wait is not None else 'absent (no wait: zero delay)'
    if isinstance(wait, ast.Call) and call_name(wait) == 'wait_exponential':
        mult = _num(_kw(wait, 'multiplier')) if _kw(wait, 'multiplier') is not None else (_num(wait.args[0]) if wait.args else 1)
        mx = _num(_kw(wait, 'max')) if _kw(wait, 'max') is not None else (_num(wait.args[1]) if len(wait.args) > 1 else None)
        mn = _num(_kw(wait, 'min')) if _kw(wait, 'min') is not None else 0
        base = _num(_kw(wait, 'exp_base')) if _kw(wait, 'exp_base') is not None else 2
        # tenacity 9: delay(n) = max(max(0,min), min(multiplier * exp_base**(n-1), max))
        okw = mult is not None and mult > 0 and mx is not None and 0 < mx < float('inf') and base is not None and base > 1 and mn is not None and mn >= 0 and mx >= mult
        found = {'multiplier': mult, 'max': mx, 'min': mn, 'exp_base': base}
    chk.check(okw, rule, 'connect::wait', file=IO, line=c.lineno, func=q,
              expected='wait_exponential(multiplier>0, exp_base>1, 0<max<inf): delays min(max, m*b^(n-1)) grow, are capped and never zero', found=found)
    retry = _kw(c, 'retry')
    okr = retry is None or (isinstance(retry, ast.Call) and call_name(retry) == 'retry_if_exception_type' and
                            (not retry.args or (isinstance(retry.args[0], ast.Name) and retry.args[0].id in ('Exception', 'BaseException'))))
    chk.check(okr, rule, 'connect::retry-on', file=IO, line=c.lineno, func=q, expected='retry on every Exception', found=ast.unparse(retry) if retry is not None else 'default')
    # _connect_impl awaited inside `with attempt` inside the loop
    tgt = L.ast.target.id if isinstance(L.ast.target, ast.Name) else None
    ci = nodes_calling(g, lambda c: is_self_call(c, '_connect_impl'))
    okc = False
    for nid, cc in ci:
        t = cc
        in_with = False; in_loop = False
        while hasattr(t, '_parent') and t is not fn:
            t = t._parent
            if isinstance(t, ast.With) and any(isinstance(i.context_expr, ast.Name) and i.context_expr.id == tgt for i in t.items):
                in_with = True
            if t is L.ast:
                in_loop = True
        okc = okc or (in_with and in_loop)
    chk.check(okc, rule, 'connect::attempt-scope', file=IO, line=L.line, func=q, expected='await self._connect_impl() inside `with attempt:` of the retry loop', found=okc)

def _num_eval(e, env):
    """concrete value of a numeric expression over numeric locals; raises KeyError / ValueError when it is anything else"""
    if isinstance(e, ast.Constant) and isinstance(e.value, (int, float)) and not isinstance(e.value, bool):
        return e.value
    if isinstance(e, ast.Name):
        return env[e.id]
    if isinstance(e, ast.UnaryOp) and isinstance(e.op, ast.USub):
        return -_num_eval(e.operand, env)
    if isinstance(e, ast.BinOp):
        a, b = _num_eval(e.left, env), _num_eval(e.right, env)
        ops = {ast.Add: lambda: a + b, ast.Sub: lambda: a - b, ast.Mult: lambda: a * b, ast.Div: lambda: a / b, ast.Pow: lambda: a ** b if abs(b) < 200 else float('inf'),
               ast.FloorDiv: lambda: a // b, ast.Mod: lambda: a % b, ast.LShift: lambda: a << min(b, 200)}
        if type(e.op) in ops:
            return ops[type(e.op)]()
    if isinstance(e, ast.Call) and isinstance(e.func, ast.Name) and e.func.id in ('min', 'max', 'float', 'int', 'abs') and not e.keywords:
        return {'min': min, 'max': max, 'float': float, 'int': int, 'abs': abs}[e.func.id](*[_num_eval(a, env) for a in e.args])
    if isinstance(e, ast.IfExp):
        return _num_eval(e.body if _num_test(e.test, env) else e.orelse, env)
    raise ValueError(ast.unparse(e)[:50])

def _num_test(t, env):
    if isinstance(t, ast.Compare) and len(t.ops) == 1:
        a, b = _num_eval(t.left, env), _num_eval(t.comparators[0], env)
        o = {ast.Lt: a < b, ast.LtE: a <= b, ast.Gt: a > b, ast.GtE: a >= b, ast.Eq: a == b, ast.NotEq: a != b}
        if type(t.ops[0]) in o:
            return o[type(t.ops[0])]
    if isinstance(t, ast.UnaryOp) and isinstance(t.op, ast.Not):
        return not _num_test(t.operand, env)
    if isinstance(t, ast.BoolOp):
        vs = [_num_test(v, env) for v in t.values]
        return all(vs) if isinstance(t.op, ast.And) else any(vs)
    if isinstance(t, ast.Constant):
        return bool(t.value)
    raise ValueError(ast.unparse(t)[:50])

def retry_by_hand(chk, program, g, rule='RETRY'):
    """connect() without a library retry loop.  The attempt (`await self._connect_impl()`) is made to fail again and again: from the handler that
    catches the failure the graph is walked with the client not CLOSED and with the numeric locals (delay, attempt counter) evaluated
    concretely -- tests on the state by the state, tests on numbers by their values.  Required for 40 consecutive failures: the walk comes back to
    the attempt (never to the exit of connect()), passes `await asyncio.sleep(d)` on the way, and the delays d are positive, never shrink, grow at
    least once and stay below a cap.  A walk that needs anything else to be known is not judged (undecided)."""
    q = f"{BASE}.connect"
    fn = g.fn
    ci = [x for x, c in nodes_calling(g, lambda c: is_self_call(c, '_connect_impl'))]
    if len(ci) != 1:
        chk.unknown(rule, 'connect::retry-loop', f"{len(ci)} call sites of _connect_impl and no AsyncRetrying loop", IO, fn.lineno)
        return
    A = ci[0]
    hs = [v for v, l in g.succ[A] if l == 'exc' and g.nodes[v].kind == 'handler']
    generic = [h for h in hs if any(x in ('Exception', 'BaseException', '<bare>') for x in handler_names(g.nodes[h].ast))]
    leaks = any(v == g.raise_exit.id for v, l in g.succ[A] if l == 'exc')
    if not generic or leaks:
        # a context manager around the attempt may swallow the failure (tenacity's `with attempt:` does): when the attempt sits in a `with` over
        # anything but a lock, or the loop draws its attempts from an iterator this analysis does not know, whether the failure leaves is not decided
        t_ = g.nodes[A].ast
        inside_with = None
        while hasattr(t_, '_parent') and t_ is not fn:
            t_ = t_._parent
            if isinstance(t_, (ast.With, ast.AsyncWith)) and not all(is_self_attr(i.context_expr, ('lock', '_send_lock')) for i in t_.items):
                inside_with = t_
        if inside_with is not None:
            chk.unknown(rule, 'connect::retry-on', f"the attempt runs inside `with {ast.unparse(inside_with.items[0].context_expr)[:40]}`, a context manager that may take the failure: "
                        'retry policy not decided', IO, g.nodes[A].line)
            return
        chk.violation(rule, 'connect::retry-on', file=IO, line=g.nodes[A].line, func=q, expected='a failing attempt is caught (except Exception) and retried',
                      found='the exception of _connect_impl leaves connect()' if leaks or not generic else '')
        return
    chk.ok(rule, 'connect::retry-on', file=IO, line=g.nodes[A].line, func=q, found='except ' + '/'.join(handler_names(g.nodes[generic[0]].ast)))
    # numeric locals: constants assigned on the way in
    env = {}
    for n in g.nodes:
        if n.kind == 'stmt' and isinstance(n.ast, ast.Assign) and len(n.ast.targets) == 1 and isinstance(n.ast.targets[0], ast.Name) and g.dominates(n.id, A):
            try:
                env[n.ast.targets[0].id] = _num_eval(n.ast.value, env)
            except (KeyError, ValueError):
                pass
    def is_sleep(c):
        return call_name(c) in ('asyncio.sleep', 'sleep') and c.args
    delays = []
    cur = generic[0]
    why = None
    gave_up = None
    for rnd in range(40):
        steps = 0
        slept = None
        while True:
            steps += 1
            if steps > 2000:
                why = 'the walk does not come back to the attempt'; break
            n = g.nodes[cur]
            nxt = None
            if cur == A and steps > 1:
                break
            if cur in (g.exit.id, g.raise_exit.id):
                gave_up = rnd; break
            outs = [(v, l) for v, l in g.succ[cur] if l != 'exc']
            if n.kind == 'test':
                t = n.ast.test
                v = eval_under_closed(t, 'DISCONNECTED')
                if v is None:
                    try:
                        v = _num_test(t, env)
                    except (KeyError, ValueError, TypeError, ZeroDivisionError):
                        why = f"test not decided: {ast.unparse(t)[:60]} (line {n.line})"; break
                want = 'true' if v else 'false'
                cand = [x for x, l in outs if l == want]
                if not cand:
                    why = f"no {want} edge at line {n.line}"; break
                nxt = cand[0]
            else:
                if n.kind == 'stmt':
                    a = n.ast
                    for c in calls_in_node(g, cur, is_sleep):
                        try:
                            slept = _num_eval(c.args[0], env)
                        except (KeyError, ValueError, TypeError, ZeroDivisionError):
                            why = f"delay not evaluable: {ast.unparse(c.args[0])[:50]} (line {n.line})"
                    if why:
                        break
                    if isinstance(a, ast.Assign) and len(a.targets) == 1 and isinstance(a.targets[0], ast.Name):
                        try:
                            env[a.targets[0].id] = _num_eval(a.value, env)
                        except (KeyError, ValueError, TypeError, ZeroDivisionError):
                            env.pop(a.targets[0].id, None)
                    elif isinstance(a, ast.AugAssign) and isinstance(a.target, ast.Name):
                        try:
                            env[a.target.id] = _num_eval(ast.BinOp(left=ast.Name(id=a.target.id, ctx=ast.Load()), op=a.op, right=a.value), env)
                        except (KeyError, ValueError, TypeError, ZeroDivisionError):
                            env.pop(a.target.id, None)
                if len(outs) != 1:
                    # loop headers etc.: one way only is expected on this walk
                    pref = [x for x, l in outs if l in ('next', 'loop', 'continue', 'true')]
                    if len(outs) == 0 or not pref:
                        why = f"walk stuck at line {n.line} ({n.kind})"; break
                    nxt = pref[0]
                else:
                    nxt = outs[0][0]
            cur = nxt
        if why or gave_up is not None:
            break
        delays.append(slept)
        cur = generic[0]
    if why:
        chk.unknown(rule, 'connect::retry-loop', f"hand-written retry loop not decided: {why}", IO, fn.lineno)
        return
    chk.check(gave_up is None, rule, 'connect::stop', file=IO, line=fn.lineno, func=q, expected='retries for as long as needed (40 consecutive failures walked: each is followed by another attempt)',
              found='ok' if gave_up is None else f"connect() returns after failure number {gave_up + 1} without another attempt")
    if gave_up is not None:
        return
    ds = delays
    okd = all(d is not None and d > 0 for d in ds) and all(b >= a for a, b in zip(ds, ds[1:])) and ds[-1] > ds[0] and ds[-1] == ds[-2] and ds[-1] < float('inf')
    chk.check(okd, rule, 'connect::wait', file=IO, line=fn.lineno, func=q,
              expected='an awaited sleep between attempts whose delay is positive, grows and is capped', found=[None if d is None else round(d, 3) for d in ds[:8]] + ['...', ds[-1]])

def retry_hook_cannot_raise(chk, program, rule='RETRY'):
    """an exception inside tenacity's before_sleep hook leaves AsyncRetrying: connect() ends after one attempt.  The hook (with the helpers it
    calls, inlined) may only log plain names, attributes, calls of methods of the retry state and conditional expressions of those: no
    subscripts, no arithmetic on what the exception carries, no raise."""
    q = f"{BASE}.connect"
    g = cfg_of(program, q)
    hooks = set()
    for n in ast.walk(g.fn):
        if isinstance(n, ast.Call) and call_name(n).endswith('AsyncRetrying'):
            for k in n.keywords:
                if k.arg in ('before_sleep', 'before', 'after') and is_self_attr(k.value, None) if False else (k.arg in ('before_sleep', 'before', 'after') and isinstance(k.value, ast.Attribute) and isinstance(k.value.value, ast.Name) and k.value.value.id == 'self'):
                    hooks.add(k.value.attr)
    for h in sorted(hooks):
        hq = program.resolve_method('ioclient', BASE, h)
        if hq is None:
            chk.unknown(rule, f"hook::{h}", 'hook method not found', IO, g.fn.lineno)
            continue
        fn = program.fn('ioclient', hq)
        bad = []
        for n in ast.walk(fn):
            if isinstance(n, ast.Raise):
                bad.append(f"raise at line {n.lineno}")
            if isinstance(n, ast.Subscript) and isinstance(n.ctx, ast.Load) and not isinstance(n.value, (ast.Tuple, ast.List, ast.Constant)):
                bad.append(f"{ast.unparse(n)[:50]} at line {n.lineno} (KeyError / IndexError)")
            if isinstance(n, ast.BinOp) and isinstance(n.op, (ast.Div, ast.FloorDiv, ast.Mod)) and not isinstance(n.left, ast.Constant) \
                    and not (isinstance(n.right, ast.Constant) and isinstance(n.right.value, (int, float)) and n.right.value != 0):
                bad.append(f"{ast.unparse(n)[:50]} at line {n.lineno} (ZeroDivisionError / TypeError)")
            if isinstance(n, ast.Call) and (is_self_call(n, n.func.attr) if isinstance(n.func, ast.Attribute) and isinstance(n.func.value, ast.Name) and n.func.value.id == 'self' else False) \
                    and not call_name(n).startswith('self.logger'):
                # a helper method that was not inlined: followed one level
                hq2 = program.resolve_method('ioclient', BASE, n.func.attr)
                if hq2:
                    for m_ in ast.walk(program.fn('ioclient', hq2)):
                        if isinstance(m_, ast.Raise) or (isinstance(m_, ast.Subscript) and isinstance(m_.ctx, ast.Load) and not isinstance(m_.value, (ast.Tuple, ast.List, ast.Constant))):
                            bad.append(f"{hq2}: {ast.unparse(m_)[:50]} at line {m_.lineno}")
        chk.check(not bad, rule, f"{hq}::hook-cannot-raise", file=IO, line=fn.lineno, func=hq, expected='the retry hook only logs (nothing in it can raise)', found=bad[:3] or 'logging only',
                  detail='' if not bad else 'an exception raised in the hook leaves the retry loop: after the first failed attempt nothing reconnects')

def one_rx(chk, program, rule='ONE-RX'):
    sites = []
    for mname, m in program.modules.items():
        for node in ast.walk(m.tree):
            if isinstance(node, ast.Call) and isinstance(node.func, ast.Attribute) and node.func.attr == '_receive_loop':
                sites.append((mname, _enclosing(node), node))
    if not sites:
        chk.unknown(rule, 'package::one-start-site', 'no call of _receive_loop() anywhere in the package: the receive loop is started some other way (renamed, handed over as a value)', IO, 0)
        return
    chk.check(len(sites) == 1, rule, 'package::one-start-site', file=IO, line=sites[0][2].lineno if sites else 0, expected='self._receive_loop() started at exactly one site',
              found=[f"{a}.{b}" for a, b, _ in sites])
    for mname, q, node in sites:
        if mname != 'ioclient':
            continue
        g = cfg_of(program, q)
        nid = None
        for n in g.nodes:
            if n.ast is not None and n.kind == 'stmt' and _contains_node(n.ast, node):
                nid = n.id
        if nid is None:
            chk.unknown(rule, q, 'start site not found in CFG', IO, node.lineno)
            continue
        # under the connect lock
        t = node; locked = False
        while hasattr(t, '_parent'):
            t = t._parent
            if isinstance(t, ast.AsyncWith) and any(is_self_attr(i.context_expr, ('lock',)) for i in t.items):
                locked = True
        if not locked:
            # the start site sits in a helper coroutine: it runs under the lock when every call of the helper does (followed up to three levels)
            def callers_locked(meth, depth=0):
                # calls, and the method handed over as a value (to a retry helper awaited at that place)
                calls_ = [(q2, c2) for q2, f2 in program.mod('ioclient').defs.items() for c2 in ast.walk(f2)
                          if isinstance(c2, ast.Attribute) and c2.attr == meth and isinstance(c2.value, ast.Name) and c2.value.id == 'self' and isinstance(c2.ctx, ast.Load)
                          and q2.count('.') == 1]
                if not calls_ or depth > 3:
                    return None
                res = True
                for q2, c2 in calls_:
                    t2 = c2; l2 = False
                    while hasattr(t2, '_parent'):
                        t2 = t2._parent
                        if isinstance(t2, ast.AsyncWith) and any(is_self_attr(i.context_expr, ('lock',)) for i in t2.items):
                            l2 = True
                    if not l2:
                        up = callers_locked(q2.split('.')[-1], depth + 1)
                        if up is None:
                            return None
                        res = res and up
                return res
            via = callers_locked(q.split('.')[-1])
            if not q.split('.')[-1].startswith('_'):
                via = False          # a public method: its callers (the application, the reconnect tasks) do not hold the lock
            if via is None:
                chk.unknown(rule, f"{q}::under-lock", f"the receive loop is started in {q}, outside `async with self.lock`, and the calls of {q} could not all be followed", IO, node.lineno)
            else:
                chk.check(via, rule, f"{q}::under-lock", file=IO, line=node.lineno, func=q, expected='inside `async with self.lock` (directly, or in a helper only ever called there)', found=via)
        else:
            chk.check(True, rule, f"{q}::under-lock", file=IO, line=node.lineno, func=q, expected='inside `async with self.lock`', found=locked)
        # stored into _receive_task
        st = g.nodes[nid].ast
        stored = isinstance(st, ast.Assign) and any(is_self_attr(x, ('_receive_task',)) for x in st.targets)
        kept_elsewhere = isinstance(st, (ast.Assign, ast.AnnAssign)) or (isinstance(st, ast.Expr) and isinstance(st.value, ast.Call) and st.value is not node and
                                                                         not (isinstance(st.value.func, ast.Attribute) and st.value.func.attr in ('create_task', 'ensure_future')))
        if not stored and kept_elsewhere:
            chk.unknown(rule, f"{q}::stored", f"the receive task is kept somewhere else than self._receive_task ({stmt_key(st)[:60]}): who cancels it was not followed", IO, node.lineno)
            continue
        chk.check(stored, rule, f"{q}::stored", file=IO, line=node.lineno, func=q, expected='task stored in self._receive_task', found=stmt_key(st))
        # on every path to the start site the previous task is absent, finished or has been cancelled: a forward must-analysis.
        # X = self._receive_task or a local bound to it; the world "X is a task that is still running" makes `X` true, `X is None` false, `X.done()` false;
        # a test outcome impossible in that world proves the task absent or finished; `X.cancel()` establishes the fact; a store to the attribute loses it
        from .cfg import must_fact, implied_edges
        aliases = set()
        for n in g.nodes:
            if n.kind == 'stmt' and isinstance(n.ast, ast.Assign) and len(n.ast.targets) == 1 and isinstance(n.ast.targets[0], ast.Name) and is_self_attr(n.ast.value, ('_receive_task',)):
                aliases.add(n.ast.targets[0].id)
        def is_x(e):
            return is_self_attr(e, ('_receive_task',)) or (isinstance(e, ast.Name) and e.id in aliases)
        def world(e):
            if is_x(e):
                return True
            if isinstance(e, ast.Compare) and len(e.ops) == 1 and is_x(e.left) and isinstance(e.comparators[0], ast.Constant) and e.comparators[0].value is None:
                if isinstance(e.ops[0], (ast.Is, ast.Eq)): return False
                if isinstance(e.ops[0], (ast.IsNot, ast.NotEq)): return True
            if isinstance(e, ast.Call) and isinstance(e.func, ast.Attribute) and e.func.attr in ('done', 'cancelled') and is_x(e.func.value) and not e.args:
                return False
            return NotImplemented
        cancels = [x for x, cc in nodes_calling(g, lambda c: isinstance(c.func, ast.Attribute) and c.func.attr == 'cancel' and is_x(c.func.value))]
        kills = [n.id for n in g.nodes if n.kind == 'stmt' and n.id != nid and isinstance(n.ast, (ast.Assign, ast.AugAssign)) and
                 any(is_self_attr(t, ('_receive_task',)) for t in (n.ast.targets if isinstance(n.ast, ast.Assign) else [n.ast.target]))
                 and not (isinstance(n.ast, ast.Assign) and isinstance(n.ast.value, ast.Constant) and n.ast.value.value is None)]
        fact = must_fact(g, gen_nodes=cancels, gen_edges=implied_edges(g, world), kill_nodes=kills)
        okc = fact[nid]
        chk.check(okc, rule, f"{q}::cancels-previous", file=IO, line=node.lineno, func=q,
                  expected='a still-running previous receive task is cancelled before the new one starts', found='ok' if okc else 'no dominating cancel')

def yield_rule(chk, program, rule='YIELD'):
    """every cycle of the background loops contains an await that can complete without suspending only finitely often in a row"""
    def qualifying(g, q):
        out = set()
        for nid, c, meth in reader_reads(g):
            ok, _ = eof_ok(g, nid, c)
            if ok:
                out.add(nid)
        for nid, c in nodes_calling(g, lambda c: call_name(c) == 'self.queue.get'):
            if g.is_await(nid):
                out.add(nid)
        for nid, c in nodes_calling(g, lambda c: call_name(c) == 'asyncio.sleep'):
            v = _num(c.args[0]) if c.args else None
            if g.is_await(nid) and v is not None and v > 0:
                out.add(nid)
        return out
    def always_suspends(q, depth=0):
        """every path entry->normal exit of coroutine q passes a qualifying await"""
        g = cfg_of(program, q)
        qa = qualifying(g, q)
        return g.exit.id not in g.reach(g.entry.id, avoid=qa), qa
    # consumer loop
    q = f"{BASE}._process_queue"
    g = cfg_of(program, q)
    qa = qualifying(g, q)
    for w in outer_loops(g):
        body = [v for v, l in g.succ[w.id] if l == 'true']
        spin = body and w.id in g.reach(body[0], avoid=qa, include_src=True) and body[0] not in qa
        chk.check(not spin, rule, f"{q}::loop", file=IO, line=w.line, func=q, expected='every iteration awaits queue.get() (suspends while the queue is empty)',
                  found='a cycle without a suspending await' if spin else 'ok')
    # receive loop, per implementation of _receive_impl
    q = f"{BASE}._receive_loop"
    g = cfg_of(program, q)
    for w in outer_loops(g):
        body = [v for v, l in g.succ[w.id] if l == 'true']
        calls = [nid for nid, c in nodes_calling(g, lambda c: is_self_call(c, '_receive_impl'))]
        for iq, classes in sorted(impls(program, '_receive_impl').items()):
            ok_impl, qa2 = always_suspends(iq)
            good = set(calls) if ok_impl else set()
            spin = body and (w.id in g.reach(body[0], avoid=good, include_src=True)) and body[0] not in good
            if spin and not reader_reads(cfg_of(program, iq)):
                # the implementation does not read from self.reader itself: the read (and its end-of-stream discipline) lives in a helper that was not followed
                chk.unknown(rule, f"{q}::loop::{iq}", f"{iq} reads through a helper, not from self.reader directly: whether every iteration suspends was not followed", IO, w.line)
                continue
            chk.check(not spin, rule, f"{q}::loop::{iq}", file=IO, line=w.line, func=q,
                      expected='every iteration passes a reader operation under EOF discipline / queue.get / sleep(>0)',
                      found=('ok' if not spin else f"{iq} can return without suspending (a read that returns b'' at EOF is not followed by a raise): the loop spins and starves the event loop"),
                      detail=f"classes: {', '.join(classes)}")

# ---------------------------------------------------------------------------
# explicit-raise sets (C19 SEND-RAISES)
# ---------------------------------------------------------------------------
import builtins as _bi

def _exc_class(name):
    base = name.split('.')[-1]
    c = getattr(_bi, base, None)
    if isinstance(c, type) and issubclass(c, BaseException):
        return c
    return None

def caught_by(exc_name, handler_names_):
    for h in handler_names_:
        if h == '<bare>':
            return True
        ec, hc = _exc_class(exc_name), _exc_class(h)
        if ec is not None and hc is not None:
            if issubclass(ec, hc):
                return True
        elif h.split('.')[-1] == exc_name.split('.')[-1]:
            return True
        elif hc is not None and hc in (Exception, BaseException) and ec is None:
            return True       # unknown (user-defined) exception classes derive from Exception
    return False

class Raises:
    """explicit-raise set per function, closed over the resolved call graph"""
    def __init__(self, program):
        self.program = program
        self.memo = {}
        self.stack = set()

    def resolve(self, module, cls, call):
        """-> list of (module, qualname) or ('dyn', kind)"""
        f = call.func
        if isinstance(f, ast.Attribute):
            v = f.value
            if isinstance(v, ast.Name) and v.id == 'self' and cls:
                q = self.program.resolve_method(module, cls, f.attr)
                return [(module, q)] if q else []
            if isinstance(v, ast.Attribute) and isinstance(v.value, ast.Name) and v.value.id == 'self':
                owner = {'encoder': ('encoder', 'NMEA2000Encoder'), 'decoder': ('decoder', 'NMEA2000Decoder')}.get(v.attr)
                if owner:
                    q = f"{owner[1]}.{f.attr}"
                    return [(owner[0], q)] if q in self.program.mod(owner[0]).defs else []
            if isinstance(v, ast.Name) and v.id in ('NMEA2000Decoder', 'NMEA2000Encoder'):
                mod = 'decoder' if v.id == 'NMEA2000Decoder' else 'encoder'
                q = f"{v.id}.{f.attr}"
                return [(mod, q)] if q in self.program.mod(mod).defs else []
        if isinstance(f, ast.Name):
            if f.id in ('encode_func', 'decode_func', 'is_fast_func'):
                return [('dyn', f.id)]
            m = self.program.mod(module)
            if f.id in m.defs:
                return [(module, f.id)]
            for other in ('utils', 'message'):
                if f.id in self.program.mod(other).defs:
                    return [(other, f.id)]
        return []

    def of(self, module, qual, dyn=None):
        key = (module, qual, tuple(sorted((dyn or {}).items())))
        if key in self.memo:
            return self.memo[key]
        if key in self.stack:
            return set()
        self.stack.add(key)
        fn = self.program.fn(module, qual)
        cls = qual.split('.')[0] if '.' in qual else None
        out = self._block(fn.body, module, cls, dyn or {})
        self.stack.discard(key)
        self.memo[key] = out
        return out

    def _block(self, stmts, module, cls, dyn):
        out = set()
        for s in stmts:
            out |= self._stmt(s, module, cls, dyn)
        return out

    def _expr_raises(self, node, module, cls, dyn):
        out = set()
        for n in walk_no_nested(node):
            # documented implicit raise: indexing the module namespace / a dict display with a computed key
            if isinstance(n, ast.Subscript) and isinstance(n.ctx, ast.Load) and isinstance(n.value, ast.Call) and isinstance(n.value.func, ast.Name) \
                    and n.value.func.id in ('globals', 'locals', 'vars') and not isinstance(n.slice, ast.Constant):
                out.add('KeyError')
            if isinstance(n, ast.Call):
                for tgt in self.resolve(module, cls, n):
                    if tgt[0] == 'dyn':
                        out |= set(dyn.get(tgt[1], ()))
                    else:
                        out |= self.of(tgt[0], tgt[1], dyn)
        return out

    def _stmt(self, s, module, cls, dyn):
        if isinstance(s, ast.Raise):
            if s.exc is None:
                return {'<reraise>'}
            e = s.exc.func if isinstance(s.exc, ast.Call) else s.exc
            return {ast.unparse(e)} | self._expr_raises(s, module, cls, dyn)
        if isinstance(s, ast.Assert):
            # an assert states an invariant its author believes: the analysis takes it as holding (as the interpreters do, and as `python -O` does);
            # what evaluating the condition itself can raise still counts
            return self._expr_raises(s, module, cls, dyn)
        if isinstance(s, ast.Try):
            body = self._block(s.body, module, cls, dyn)
            out = set()
            remaining = set(body)
            for h in s.handlers:
                names = handler_names(h)
                caught = {e for e in remaining if e != '<reraise>' and caught_by(e, names)}
                remaining -= caught
                hb = self._block(h.body, module, cls, dyn)
                if '<reraise>' in hb:
                    hb.discard('<reraise>')
                    hb |= caught
                out |= hb
            out |= remaining
            out |= self._block(s.orelse, module, cls, dyn) | self._block(s.finalbody, module, cls, dyn)
            return out
        if isinstance(s, (ast.If, ast.While)):
            return self._expr_raises(s.test, module, cls, dyn) | self._block(s.body, module, cls, dyn) | self._block(s.orelse, module, cls, dyn)
        if isinstance(s, (ast.For, ast.AsyncFor)):
            return self._expr_raises(s.iter, module, cls, dyn) | self._block(s.body, module, cls, dyn) | self._block(s.orelse, module, cls, dyn)
        if isinstance(s, (ast.With, ast.AsyncWith)):
            out = set()
            for i in s.items:
                out |= self._expr_raises(i.context_expr, module, cls, dyn)
            return out | self._block(s.body, module, cls, dyn)
        if isinstance(s, (ast.FunctionDef, ast.AsyncFunctionDef, ast.ClassDef)):
            return set()
        return self._expr_raises(s, module, cls, dyn)

# ---------------------------------------------------------------------------
# C19
# ---------------------------------------------------------------------------
def instance_locks(program):
    """attributes assigned asyncio.Lock() in an __init__ of a client class"""
    out = set()
    for c in client_classes(program):
        q = f"{c}.__init__"
        m = io(program)
        if q in m.defs:
            for n in ast.walk(m.defs[q]):
                if isinstance(n, ast.Assign) and isinstance(n.value, ast.Call) and call_name(n.value) in ('asyncio.Lock', 'Lock'):
                    for t in n.targets:
                        if is_self_attr(t, (t.attr,) if isinstance(t, ast.Attribute) else ()):
                            out.add(t.attr)
    return out

def send_rules(chk, program):
    q = f"{BASE}.send"
    g = cfg_of(program, q)
    fn = g.fn
    # the receiver of write/drain: self.writer itself, or a local name bound to it
    aliases = {}
    for n in g.nodes:
        if n.kind == 'stmt' and isinstance(n.ast, ast.Assign) and len(n.ast.targets) == 1 and isinstance(n.ast.targets[0], ast.Name) and is_self_attr(n.ast.value, ('writer',)):
            aliases[n.ast.targets[0].id] = n.id
    def is_writer_call(c, meth):
        f = c.func
        return isinstance(f, ast.Attribute) and f.attr == meth and (is_self_attr(f.value, ('writer',)) or (isinstance(f.value, ast.Name) and f.value.id in aliases))
    writes = nodes_calling(g, lambda c: is_writer_call(c, 'write'))
    for nid_, c_ in writes:
        if isinstance(c_.func.value, ast.Name):
            a_node = aliases[c_.func.value.id]
            stale = [x for x in g.await_nodes() if x in g.reach(a_node) and nid_ in g.reach(x) and not calls_in_node(g, x, lambda cc: is_writer_call(cc, 'drain'))]
            chk.check(not stale, 'SEND-ORDER', f"send::writer-read-when-used::{c_.func.value.id}", file=IO, line=c_.lineno, func=q,
                      expected='the link written to is self.writer as it is when the write happens (no suspension between reading it and using it, other than the drains of this message)',
                      found=[f"await@line{g.nodes[x].line}:{stmt_key(g.nodes[x].ast)}" for x in stale] or 'ok',
                      detail='' if not stale else 'a reconnect can replace self.writer while this send waits: its packets would go to the abandoned connection')
    chk.anchor(bool(writes), 'SEND-ORDER', 'send::writes', file=IO, line=fn.lineno, func=q, expected='self.writer.write(...)', found=len(writes))
    enc = nodes_calling(g, lambda c: is_self_call(c, '_encode_impl'))
    chk.check(len(enc) == 1, 'SEND-ENCODE-FIRST', 'send::one-encode', file=IO, line=fn.lineno, func=q, expected='one call of _encode_impl', found=len(enc))
    locks = instance_locks(program)
    aw = g.await_nodes()
    def _lock_of(call):
        t = call
        while hasattr(t, '_parent') and t is not fn:
            t = t._parent
            if isinstance(t, ast.AsyncWith):
                for i in t.items:
                    e = i.context_expr
                    if isinstance(e, ast.Attribute) and isinstance(e.value, ast.Name) and e.value.id == 'self' and e.attr in locks:
                        return e.attr
        return None
    any_offender = any(a in g.reach(n1) and n2 in g.reach(a) for a in aw for n1, _ in writes for n2, _ in writes)
    if any_offender:
        for nid0, c0 in writes:
            covered = _lock_of(c0) is not None
            acq0 = [x for x, cc in nodes_calling(g, lambda c: isinstance(c.func, ast.Attribute) and c.func.attr == 'acquire' and is_self_attr(c.func.value, tuple(locks))) if g.dominates(x, nid0)]
            chk.check(covered or bool(acq0), 'SEND-ATOMIC', f"send::every-write-under-the-lock::{stmt_key(c0)}", file=IO, line=c0.lineno, func=q,
                      expected='once some send can suspend between its packets, every write to the link happens under the same lock',
                      found='locked' if (covered or acq0) else 'written outside the lock',
                      detail='' if (covered or acq0) else 'an unlocked single-packet send can land between the packets of a message whose sender is suspended in drain()')
    for nid, c in writes:
        # atomic section: an await on a cycle through the write, or between two different writes, breaks contiguity unless locked
        offenders = []
        for a in aw:
            for nid2, _c2 in writes:
                if a in g.reach(nid) and nid2 in g.reach(a):
                    offenders.append(a)
        offenders = sorted(set(offenders))
        locked = None
        t = c
        while hasattr(t, '_parent') and t is not fn:
            t = t._parent
            if isinstance(t, ast.AsyncWith):
                for i in t.items:
                    e = i.context_expr
                    if isinstance(e, ast.Attribute) and isinstance(e.value, ast.Name) and e.value.id == 'self' and e.attr in locks:
                        locked = e.attr
        if locked is None:
            # explicit acquire ... try/finally release
            acq = [x for x, cc in nodes_calling(g, lambda c: isinstance(c.func, ast.Attribute) and c.func.attr == 'acquire' and is_self_attr(c.func.value, tuple(locks)))]
            for a in acq:
                lockname = [cc for x, cc in nodes_calling(g, lambda c: isinstance(c.func, ast.Attribute) and c.func.attr == 'acquire') if x == a][0].func.value.attr
                rel_in_finally = any(isinstance(tn, ast.Try) and any(isinstance(x, ast.Call) and call_name(x) == f"self.{lockname}.release" for fb in tn.finalbody for x in ast.walk(fb))
                                     and _contains_node(tn, c) for tn in ast.walk(fn))
                if g.dominates(a, nid) and rel_in_finally:
                    locked = lockname
        ok = (not offenders) or (locked is not None)
        # a lock must cover all writes of the message: the whole loop, not a single write
        if locked is not None and offenders:
            # the loop statement containing the write must be inside the same lock region
            loop = None
            t = c
            while hasattr(t, '_parent') and t is not fn:
                t = t._parent
                if isinstance(t, (ast.For, ast.While, ast.AsyncFor)):
                    loop = t
            if loop is not None:
                inside = False
                t = loop
                while hasattr(t, '_parent') and t is not fn:
                    t = t._parent
                    if isinstance(t, ast.AsyncWith) and any(isinstance(i.context_expr, ast.Attribute) and i.context_expr.attr == locked for i in t.items):
                        inside = True
                    if isinstance(t, ast.Try) and t.finalbody:
                        inside = inside or any(isinstance(x, ast.Call) and call_name(x) == f"self.{locked}.release" for fb in t.finalbody for x in ast.walk(fb))
                ok = inside
        chk.check(ok, 'SEND-ATOMIC', f"send::{stmt_key(c)}", file=IO, line=c.lineno, func=q,
                  expected='all writes of one message in one atomic section: no await between them, or the loop inside `async with <instance asyncio.Lock>`',
                  found=(f"locked by self.{locked}" if locked else [f"await@line{g.nodes[a].line}:{stmt_key(g.nodes[a].ast)}" for a in offenders] or 'no await between writes'),
                  detail='' if ok else 'another send() can run at the await and interleave its packets with this message')
        # encode first
        for en, ec in enc:
            on_cycle = en in g.reach(en)
            chk.check(g.dominates(en, nid) and not on_cycle, 'SEND-ENCODE-FIRST', f"send::{stmt_key(c)}", file=IO, line=c.lineno, func=q,
                      expected='_encode_impl (once, outside the loop) dominates the first write: an encoding error writes nothing',
                      found='dominates' if g.dominates(en, nid) else 'write reachable without encoding')
        # order: write then drain inside the loop; loop iterates the encoder's list directly
        drains = [x for x, cc in nodes_calling(g, lambda c: is_writer_call(c, 'drain'))]
        loop = None
        t = c
        while hasattr(t, '_parent') and t is not fn:
            t = t._parent
            if isinstance(t, (ast.For, ast.AsyncFor)) and loop is None:
                loop = t
        if loop is not None:
            itok = isinstance(loop.iter, ast.Name)
            src_ok = False
            if itok:
                for en, ec in enc:
                    st = g.nodes[en].ast
                    if isinstance(st, ast.Assign) and any(isinstance(x, ast.Name) and x.id == loop.iter.id for x in st.targets):
                        src_ok = True
            arg_ok = c.args and isinstance(c.args[0], ast.Name) and isinstance(loop.target, ast.Name) and c.args[0].id == loop.target.id
            chk.check(itok and src_ok and arg_ok, 'SEND-ORDER', f"send::{stmt_key(c)}", file=IO, line=c.lineno, func=q,
                      expected='for p in <result of _encode_impl>: write(p)  (list order, every packet, nothing else)',
                      found={'iterates': ast.unparse(loop.iter), 'writes': ast.unparse(c.args[0]) if c.args else None})
        else:
            chk.unknown('SEND-ORDER', 'send', 'write is not inside a for loop over the encoded packets', IO, c.lineno)
        for d in drains:
            chk.check(g.dominates(nid, d) or nid in g.reach(d), 'SEND-ORDER', f"send::drain-after-write", file=IO, line=g.nodes[d].line, func=q,
                      expected='drain follows write', found='ok', nontrivial=False)
    # handlers: log-and-drop handler leaves connection and state alone
    trys = [n for n in ast.walk(fn) if isinstance(n, ast.Try)]
    drop_types = []
    for tr in trys:
        for h in tr.handlers:
            names = handler_names(h)
            if any(x in ('Exception', 'BaseException', '<bare>') for x in names):
                break
            drop_types.extend(names)
            touched = [ast.unparse(x.func) for x in ast.walk(ast.Module(body=h.body, type_ignores=[])) if isinstance(x, ast.Call) and
                       (call_name(x).endswith('_update_state') or call_name(x).endswith('create_task') or call_name(x) in ('self.connect', 'self.writer.close', 'self.close'))]
            chk.check(not touched, 'SEND-RAISES', f"send::drop-handler::{','.join(names)}", file=IO, line=h.lineno, func=q,
                      expected='handler for unsendable messages only logs (state and connection untouched)', found=touched or 'logs only')
    chk.unit('drop_handler_types', drop_types)
    # raise sets of every _encode_impl
    db, gen = program.db, program.gen
    R = Raises(program)
    # dynamic calls: encode_func is wrapped; is_fast_func per PGN group
    fast_raisers = []
    for pgn, grp in db.groups.items():
        s = gen.funcs.get(f"is_fast_pgn_{pgn}")
        if s and any(e[0] == 'raise' for e in s['events']):
            # reached only if some encoder of the group can return
            can_return = [d.id for d in grp.defs if any(e[0] == 'return' for e in gen.funcs.get(f"encode_pgn_{d.suffix}", {'events': []})['events'])]
            fast_raisers.append((pgn, can_return))
    dyn_common = {'encode_func': ('Exception',), 'decode_func': (), 'is_fast_func': ()}
    for iq, classes in sorted(impls(program, '_encode_impl').items()):
        rs = R.of('ioclient', iq, dyn_common)
        extra = {r for r in rs if not caught_by(r, drop_types)}
        chk.check(not extra, 'SEND-RAISES', f"{iq}::raise-set", file=IO, line=program.fn('ioclient', iq).lineno, func=iq,
                  expected=f"everything an unsendable message raises is caught by the log-and-drop handler ({', '.join(drop_types)})",
                  found=sorted(rs), detail='' if not extra else f"{sorted(extra)} reach the generic handler, which treats them as a lost connection (DISCONNECTED + reconnect); classes: {', '.join(classes)}")
    for pgn, can_return in fast_raisers:
        chk.check(not can_return, 'SEND-RAISES', f"is_fast_pgn_{pgn}::raises", file='nmea2000/pgns.py', line=gen.funcs[f"is_fast_pgn_{pgn}"]['line'],
                  expected='reached only after an encoder that can return (none can: the encoder raises first and is wrapped into ValueError)', found=can_return)
    chk.unit('encode_impls', len(impls(program, '_encode_impl')))
    chk.floor('encode_impls', len(impls(program, '_encode_impl')), 3)

# ---------------------------------------------------------------------------
# C20 / C12 serial receive path
# ---------------------------------------------------------------------------
def serial_impl(program):
    """the _receive_impl that keeps a buffer: discovered as the implementation that calls .extend on a self attribute"""
    for q in impls(program, '_receive_impl'):
        fn = program.fn('ioclient', q)
        for n in ast.walk(fn):
            if isinstance(n, ast.Call) and isinstance(n.func, ast.Attribute) and n.func.attr == 'extend' and isinstance(n.func.value, ast.Attribute) \
                    and isinstance(n.func.value.value, ast.Name) and n.func.value.value.id == 'self':
                return q, n.func.value.attr
    # another spelling of the append (`+=`): the class whose constructor / _connect_impl binds an attribute to a fresh bytearray
    m = program.mod('ioclient')
    for q in impls(program, '_receive_impl'):
        cname = q.split('.')[0]
        for c in program.mro('ioclient', cname):
            for n in ast.walk(m.classes[c]):
                if isinstance(n, ast.Assign) and len(n.targets) == 1 and isinstance(n.targets[0], ast.Attribute) and isinstance(n.targets[0].value, ast.Name) and n.targets[0].value.id == 'self' and isinstance(n.value, ast.Call) and isinstance(n.value.func, ast.Name) \
                        and n.value.func.id == 'bytearray' and not n.value.args:
                    return q, n.targets[0].attr
    raise AnalysisError('no buffering _receive_impl found (anchor: self.<buffer>.extend(data) or an attribute bound to bytearray())')

def _is_buf(e, buf):
    return is_self_attr(e, (buf,))

def _const_int(e, consts=None):
    if isinstance(e, ast.Constant) and isinstance(e.value, int) and not isinstance(e.value, bool):
        return e.value
    if isinstance(e, ast.UnaryOp) and isinstance(e.op, ast.USub):
        v = _const_int(e.operand, consts)
        return None if v is None else -v
    if isinstance(e, ast.Name) and consts and e.id in consts:
        return consts[e.id]
    return None

def const_int_in(program, module, e):
    """an integer expression of a hand-written module as a number: a literal, or what the module environment makes of it (a module constant, a
    class attribute, also of a sibling module, small arithmetic).  None when it is not a constant"""
    v = _const_int(e)
    if v is not None:
        return v
    from . import absint as _A
    try:
        r = _A.Interp(module=_A.ModuleEnv(program.mod(module).tree)).expr(e, {})
    except (_A.Unknown, _A.RaiseSignal, Exception):
        return None
    return r.v if isinstance(r, _A.AInt) and r.v is not None else None

def _upper_const(e, env):
    """upper bound of a small int expression: constants, names bound to (1 if c else 0), len(bytes literal)"""
    v = _const_int(e)
    if v is not None:
        return v
    if isinstance(e, ast.IfExp):
        a, b = _upper_const(e.body, env), _upper_const(e.orelse, env)
        return None if a is None or b is None else max(a, b)
    if isinstance(e, ast.Name) and e.id in env:
        return env[e.id]
    if isinstance(e, ast.Call) and isinstance(e.func, ast.Name) and e.func.id == 'len' and e.args and isinstance(e.args[0], ast.Constant) and isinstance(e.args[0].value, (bytes, str)):
        return len(e.args[0].value)
    if isinstance(e, ast.Call) and isinstance(e.func, ast.Name) and e.func.id == 'min' and e.args:
        vals = [_upper_const(a, env) for a in e.args]
        vals = [v for v in vals if v is not None]
        return min(vals) if vals else None
    if isinstance(e, ast.BinOp) and isinstance(e.op, ast.Sub):
        a = _upper_const(e.left, env)
        b = _const_int(e.right)
        if a is not None and b is not None:
            return a - b
    return None

def trim_bound(stmt, buf, env):
    """if stmt leaves at most a constant number of bytes in the buffer, return that constant, else None.
    Recognised: buf.clear(); buf = bytearray(); del buf[:]; del buf[:-k]; buf = buf[-k:]; del buf[:len(buf)-keep]; buf = buf[len(buf)-keep:]"""
    def keep_from_lower(lo):
        # slice [lo:] keeps len-lo... forms: -k  |  len(buf) - keep
        k = _const_int(lo)
        if k is not None and k < 0:
            return -k
        if isinstance(lo, ast.BinOp) and isinstance(lo.op, ast.Sub) and isinstance(lo.left, ast.Call) and isinstance(lo.left.func, ast.Name) and lo.left.func.id == 'len' \
                and lo.left.args and _is_buf(lo.left.args[0], buf):
            return _upper_const(lo.right, env)
        if isinstance(lo, ast.Call) and isinstance(lo.func, ast.Name) and lo.func.id == 'len' and lo.args and _is_buf(lo.args[0], buf):
            return 0
        return None
    if isinstance(stmt, ast.Expr) and isinstance(stmt.value, ast.Call) and isinstance(stmt.value.func, ast.Attribute) and stmt.value.func.attr == 'clear' and _is_buf(stmt.value.func.value, buf):
        return 0
    if isinstance(stmt, ast.Assign) and len(stmt.targets) == 1 and _is_buf(stmt.targets[0], buf):
        v = stmt.value
        if isinstance(v, ast.Call) and isinstance(v.func, ast.Name) and v.func.id in ('bytearray', 'bytes') and not v.args:
            return 0
        if isinstance(v, ast.Subscript) and _is_buf(v.value, buf) and isinstance(v.slice, ast.Slice) and v.slice.upper is None and v.slice.lower is not None:
            return keep_from_lower(v.slice.lower)
        if isinstance(v, ast.Call) and isinstance(v.func, ast.Name) and v.func.id == 'bytearray' and len(v.args) == 1:
            a = v.args[0]
            if isinstance(a, ast.Subscript) and _is_buf(a.value, buf) and isinstance(a.slice, ast.Slice) and a.slice.upper is None and a.slice.lower is not None:
                return keep_from_lower(a.slice.lower)
    if isinstance(stmt, ast.Delete) and len(stmt.targets) == 1:
        t = stmt.targets[0]
        if isinstance(t, ast.Subscript) and _is_buf(t.value, buf) and isinstance(t.slice, ast.Slice) and t.slice.lower is None:
            if t.slice.upper is None:
                return 0
            return keep_from_lower(t.slice.upper)
    return None

def consume_amount(stmt, buf, startvar):
    """buf = buf[start + P:] / del buf[:start + P]  -> P (int) ; with start == 0 normalised earlier: buf = buf[P:]"""
    def amount(e):
        if isinstance(e, ast.BinOp) and isinstance(e.op, ast.Add):
            for a, b in ((e.left, e.right), (e.right, e.left)):
                if isinstance(a, ast.Name) and a.id == startvar:
                    return _const_int(b)
        return None
    if isinstance(stmt, ast.Assign) and len(stmt.targets) == 1 and _is_buf(stmt.targets[0], buf):
        v = stmt.value
        if isinstance(v, ast.Call) and isinstance(v.func, ast.Name) and v.func.id == 'bytearray' and len(v.args) == 1:
            v = v.args[0]
        if isinstance(v, ast.Subscript) and _is_buf(v.value, buf) and isinstance(v.slice, ast.Slice) and v.slice.upper is None and v.slice.lower is not None:
            return amount(v.slice.lower)
    if isinstance(stmt, ast.Delete) and len(stmt.targets) == 1:
        t = stmt.targets[0]
        if isinstance(t, ast.Subscript) and _is_buf(t.value, buf) and isinstance(t.slice, ast.Slice) and t.slice.lower is None and t.slice.upper is not None:
            return amount(t.slice.upper)
    return None

def serial_facts(program):
    q, buf = serial_impl(program)
    g = cfg_of(program, q)
    fn = g.fn
    facts = {'q': q, 'buf': buf, 'g': g}
    # read size
    reads = reader_reads(g)
    facts['R'] = _const_int(reads[0][1].args[0]) if reads and reads[0][1].args else None
    facts['read_node'] = reads[0][0] if reads else None
    # extend node
    ext = nodes_calling(g, lambda c: isinstance(c.func, ast.Attribute) and c.func.attr == 'extend' and _is_buf(c.func.value, buf))
    facts['extend'] = ext[0][0] if ext else None
    # marker search: start = buf.find(b"..")
    finds = []
    for n in g.nodes:
        if n.kind == 'stmt' and isinstance(n.ast, ast.Assign) and isinstance(n.ast.value, ast.Call) and isinstance(n.ast.value.func, ast.Attribute) \
                and n.ast.value.func.attr in ('find', 'index') and _is_buf(n.ast.value.func.value, buf) and isinstance(n.ast.targets[0], ast.Name):
            arg = n.ast.value.args[0] if n.ast.value.args else None
            finds.append((n.id, n.ast.targets[0].id, arg.value if isinstance(arg, ast.Constant) else None))
    finds.sort(key=lambda t: (0 if all(g.dominates(t[0], o[0]) for o in finds) else 1, g.nodes[t[0]].line))
    facts['finds'] = finds
    return facts

def buf_rules(chk, program):
    f = serial_facts(program)
    q, buf, g = f['q'], f['buf'], f['g']
    fn = g.fn
    if not f['finds'] or f['extend'] is None or f['R'] is None:
        chk.unknown('BUF-BOUND', q, 'serial receive idiom not recognised (read(R) / buffer.extend / start = buffer.find(marker))', IO, fn.lineno)
        return
    find_node, startvar, marker = f['finds'][0]
    chk.unit('serial', {'impl': q, 'buffer': buf, 'R': f['R'], 'marker': marker.hex() if isinstance(marker, bytes) else str(marker)})
    # names bound to small constants (keep = 1 if ... else 0)
    env = {}
    for n in g.nodes:
        if n.kind == 'stmt' and isinstance(n.ast, ast.Assign) and len(n.ast.targets) == 1 and isinstance(n.ast.targets[0], ast.Name):
            v = _upper_const(n.ast.value, env)
            if v is not None:
                env[n.ast.targets[0].id] = v
    # classify tests on start
    def notfound_edge(test):
        """edge label on which the marker was NOT found"""
        t = test
        if isinstance(t, ast.Compare) and len(t.ops) == 1 and isinstance(t.left, ast.Name) and t.left.id == startvar:
            k = _const_int(t.comparators[0]); op = t.ops[0]
            if k == -1 and isinstance(op, ast.Eq): return 'true'
            if k == -1 and isinstance(op, ast.NotEq): return 'false'
            if k == 0 and isinstance(op, ast.Lt): return 'true'
            if k == 0 and isinstance(op, ast.GtE): return 'false'
            if k == -1 and isinstance(op, ast.Gt): return 'false'
            if k == -1 and isinstance(op, ast.LtE): return 'true'
        return None
    def incomplete_edge(test):
        """edge label on which fewer than P bytes follow the marker; returns (label, P)"""
        t = test
        if isinstance(t, ast.Compare) and len(t.ops) == 1:
            a, b, op = t.left, t.comparators[0], t.ops[0]
            def start_plus(e):
                if isinstance(e, ast.BinOp) and isinstance(e.op, ast.Add):
                    for x, y in ((e.left, e.right), (e.right, e.left)):
                        if isinstance(x, ast.Name) and x.id == startvar and _const_int(y) is not None:
                            return _const_int(y)
                return None
            def is_len(e):
                return isinstance(e, ast.Call) and isinstance(e.func, ast.Name) and e.func.id == 'len' and e.args and _is_buf(e.args[0], buf)
            P = start_plus(a)
            if P is not None and is_len(b):
                if isinstance(op, ast.Gt): return ('true', P)
                if isinstance(op, ast.LtE): return ('false', P)
            P = start_plus(b)
            if P is not None and is_len(a):
                if isinstance(op, ast.Lt): return ('true', P)
                if isinstance(op, ast.GtE): return ('false', P)
            # len(buf) - start < P
            if isinstance(a, ast.BinOp) and isinstance(a.op, ast.Sub) and is_len(a.left) and isinstance(a.right, ast.Name) and a.right.id == startvar and _const_int(b) is not None:
                if isinstance(op, ast.Lt): return ('true', _const_int(b))
                if isinstance(op, ast.GtE): return ('false', _const_int(b))
        return None
    nf_tests = [(n.id, notfound_edge(n.ast.test)) for n in g.nodes if n.kind == 'test' and isinstance(n.ast, ast.If) and notfound_edge(n.ast.test)]
    inc_tests = [(n.id,) + incomplete_edge(n.ast.test) for n in g.nodes if n.kind == 'test' and isinstance(n.ast, ast.If) and incomplete_edge(n.ast.test)]
    if not nf_tests or not inc_tests:
        chk.unknown('BUF-BOUND', q, 'marker-not-found / incomplete-packet tests not recognised', IO, fn.lineno)
        return
    P = inc_tests[0][2]
    chk.unit('packet_length', P)
    trims = {n.id: trim_bound(n.ast, buf, env) for n in g.nodes if n.kind == 'stmt'}
    trims = {k: v for k, v in trims.items() if v is not None}
    consumes = {n.id: consume_amount(n.ast, buf, startvar) for n in g.nodes if n.kind == 'stmt'}
    consumes = {k: v for k, v in consumes.items() if v is not None}
    # (a) marker not found: every path from that edge to the exit passes a trim
    for tid, lab in nf_tests:
        tgt = [v for v, l in g.succ[tid] if l == lab][0]
        leak = g.exit.id in g.reach(tgt, avoid=list(trims), include_src=True) and tgt not in trims
        K1 = max(trims.values()) if trims else None
        chk.check(not leak, 'BUF-BOUND', f"{q}::marker-not-found-exit", file=IO, line=g.nodes[tid].line, func=q,
                  expected='(a) when no start marker is in the buffer, all but a constant number of bytes are dropped before waiting for more data',
                  found=(f"buffer trimmed to <= {K1} bytes" if not leak else 'the buffer is kept whole: marker-free noise accumulates without bound'),
                  detail='' if not leak else f"each read appends up to {f['R']} bytes and nothing is ever removed while no marker arrives")
    # (b) incomplete packet exits are guarded by len(buf) < start + P  (recognised above) and exit without consuming
    for tid, lab, Pn in inc_tests:
        chk.check(Pn == P and Pn > 0, 'BUF-BOUND', f"{q}::incomplete-exit", file=IO, line=g.nodes[tid].line, func=q,
                  expected='(b) exit with a marker but fewer than P bytes after it: at most prefix + P bytes stay', found={'P': Pn})
    # (c) every non-exiting iteration consumes through start + P
    loops = [n for n in g.nodes if n.kind == 'test' and isinstance(n.ast, ast.While)]
    for w in loops:
        body = [v for v, l in g.succ[w.id] if l == 'true']
        if not body:
            continue
        good = [k for k, v in consumes.items() if v is not None and v >= P]
        back = w.id in g.reach(body[0], avoid=good, include_src=True) and body[0] not in good
        chk.check(not back, 'BUF-PROGRESS', f"{q}::loop", file=IO, line=w.line, func=q,
                  expected=f"(c) every iteration that does not exit removes the buffer through start + {P}", found={'consume_statements': {g.nodes[k].line: v for k, v in consumes.items()}},
                  detail='' if not back else 'an iteration can return to the loop head without consuming a whole packet (no progress / unbounded growth)')
    chk.unit('bound', f"len(buffer) <= K1 + 2*{f['R']} + {P} at every exit, K1 = {max(trims.values()) if trims else 'n/a'}")
    # SER-DELIVER: once a marker with P bytes behind it is in the buffer, that window reaches decode_usb (no path back to the loop head or out avoids the decode call)
    decs = [x for x, c in nodes_calling(g, lambda c: isinstance(c.func, ast.Attribute) and c.func.attr.startswith('decode_') and is_self_attr(c.func.value, ('decoder',)))]
    for tid, lab, Pn in inc_tests[:1]:
        complete = [v for v, l in g.succ[tid] if l != lab and l in ('true', 'false')]
        if complete and decs and loops:
            w = loops[0]
            r = g.reach(complete[0], avoid=decs, include_src=True)
            skipped = (w.id in r or g.exit.id in r) and complete[0] not in decs
            chk.check(not skipped, 'SER-DELIVER', f"{q}::complete-window-is-decoded", file=IO, line=g.nodes[tid].line, func=q,
                      expected=f"every window of {P} bytes behind a start marker is handed to the decoder (which validates length and checksum)",
                      found='a path skips the decoder' if skipped else 'ok',
                      detail='' if not skipped else 'a valid packet is discarded by a client-side heuristic (e.g. when its own bytes contain the marker) although encode/decode round-trip it')
    # SCAN-PROGRESS (weaker than BUF-PROGRESS): every iteration that does not exit removes at least one byte
    def any_progress(st):
        amt = consume_amount(st, buf, startvar)
        if amt is not None and amt >= 1:
            return True
        # del buf[:len(x)] / buf = buf[len(x):] with x bound to a P-byte slice of the buffer; del buf[:k] with a name known to be >= 1 is not assumed
        def lenof(e):
            return isinstance(e, ast.Call) and isinstance(e.func, ast.Name) and e.func.id == 'len' and e.args and isinstance(e.args[0], ast.Name)
        if isinstance(st, ast.Delete) and len(st.targets) == 1 and isinstance(st.targets[0], ast.Subscript) and _is_buf(st.targets[0].value, buf) and isinstance(st.targets[0].slice, ast.Slice) \
                and st.targets[0].slice.lower is None and st.targets[0].slice.upper is not None and lenof(st.targets[0].slice.upper):
            return True
        return False
    prog_nodes = [n.id for n in g.nodes if n.kind == 'stmt' and any_progress(n.ast)]
    for w in loops:
        body = [v for v, l in g.succ[w.id] if l == 'true']
        if body:
            spin = w.id in g.reach(body[0], avoid=prog_nodes, include_src=True) and body[0] not in prog_nodes
            chk.check(not spin, 'SCAN-PROGRESS', f"{q}::loop", file=IO, line=w.line, func=q, expected='every iteration of the await-free scan loop removes bytes from the buffer',
                      found='an iteration can repeat without removing anything' if spin else 'ok', detail='' if not spin else 'the loop would spin forever inside one task: the event loop is starved')
    return f, P, marker

def ser_const(chk, program, P, marker, rule='SER-CONST'):
    """marker, packet length and header check agree among client, encode_usb and decode_usb.  Decided on the interpreted writer and reader
    (what the writer's packet starts with and how long it is; which packets the reader lets through); the syntactic reading is the fallback"""
    from . import wire, absint as _A
    D = 'nmea2000/decoder.py'
    if isinstance(marker, bytes) and len(marker) == 2 and isinstance(P, int):
        try:
            res, rec = wire.encode_with(program, 'encode_usb', [wire.frame_bytes(8)])
            pk = res.items[0]
            wm = bytes(x[1] for x in pk.items[:2]) if all(x[0] == 'c' for x in pk.items[:2]) else None
            acc = lambda head, length: wire.usb_reader_semantics(program, 8, head, length)['decoded_when_equal']
            accepts = acc(tuple(marker), P)
            wrong = [w for w in (((marker[0] ^ 0xff), marker[1]), (marker[0], (marker[1] ^ 0xff)), (marker[1], marker[0])) if w != tuple(marker) and acc(w, P)]
            wrong_len = [l for l in (P - 1, P + 1) if acc(tuple(marker), l)]
        except (_A.Unknown, _A.RaiseSignal, AttributeError, IndexError, TypeError) as u:
            chk.unit('ser_const_not_interpretable', str(u))
        else:
            enc = program.fn('encoder', 'NMEA2000Encoder.encode_usb')
            dec = program.fn('decoder', 'NMEA2000Decoder.decode_usb')
            chk.check(wm == marker, rule, 'marker::client-vs-encode_usb', file='nmea2000/encoder.py', line=enc.lineno, expected=marker.hex(), found=wm.hex() if wm else 'not constant')
            chk.check(len(pk) == P, rule, 'length::client-vs-encode_usb', file='nmea2000/encoder.py', line=enc.lineno, expected=P, found=len(pk), nontrivial=False)
            chk.check(accepts and not wrong, rule, 'marker::client-vs-decode_usb', file=D, line=dec.lineno, expected=f"the reader lets through packets that start with {marker.hex()} and no others",
                      found='ok' if accepts and not wrong else {'accepts_client_marker': accepts, 'also_accepts': [bytes(w).hex() for w in wrong]})
            chk.check(accepts and not wrong_len, rule, 'length::client-vs-decode_usb', file=D, line=dec.lineno, expected=f"the reader lets through {P}-byte packets only",
                      found='ok' if accepts and not wrong_len else {'accepts_client_length': accepts, 'also_accepts_lengths': wrong_len})
            return
    # neither writer nor reader could be interpreted, or the client's own marker / length were not read: the spelling-bound reading below may
    # confirm, it cannot alarm
    from .rules_reasm import _ConfirmOnly as _CO
    real_ = chk
    chk = _CO(real_, {rule})
    dec = program.fn('decoder', 'NMEA2000Decoder.decode_usb')
    D = 'nmea2000/decoder.py'
    pname = [a.arg for a in dec.args.args][1]
    hdr = {}
    plen = None
    for n in ast.walk(dec):
        if isinstance(n, ast.Compare) and len(n.ops) == 1:
            a, b = n.left, n.comparators[0]
            if isinstance(a, ast.Subscript) and isinstance(a.value, ast.Name) and a.value.id == pname and _const_int(a.slice) is not None and _const_int(b) is not None \
                    and isinstance(n.ops[0], (ast.NotEq, ast.Eq)) and _const_int(a.slice) in (0, 1):
                hdr[_const_int(a.slice)] = _const_int(b)
            if isinstance(a, ast.Call) and isinstance(a.func, ast.Name) and a.func.id == 'len' and a.args and isinstance(a.args[0], ast.Name) and a.args[0].id == pname and _const_int(b) is not None:
                plen = _const_int(b)
    dm = bytes([hdr.get(0, 256) % 256, hdr.get(1, 256) % 256]) if len(hdr) == 2 else None
    chk.check(isinstance(marker, bytes) and dm == marker, rule, 'marker::client-vs-decode_usb', file=D, line=dec.lineno, expected=marker.hex() if isinstance(marker, bytes) else marker,
              found=dm.hex() if dm else hdr)
    chk.check(plen == P, rule, 'length::client-vs-decode_usb', file=D, line=dec.lineno, expected=P, found=plen)
    # encode_usb: first literal bytes([...]) starts with the marker
    enc = program.fn('encoder', 'NMEA2000Encoder.encode_usb')
    first = None
    for n in ast.walk(enc):
        if isinstance(n, ast.Call) and isinstance(n.func, ast.Name) and n.func.id == 'bytes' and n.args and isinstance(n.args[0], ast.List) and len(n.args[0].elts) >= 2:
            vals = [_const_int(e) for e in n.args[0].elts[:2]]
            if None not in vals and (first is None or n.lineno < first[1]):
                first = (bytes(vals), n.lineno)
    chk.check(first is not None and first[0] == marker, rule, 'marker::client-vs-encode_usb', file='nmea2000/encoder.py', line=first[1] if first else enc.lineno,
              expected=marker.hex() if isinstance(marker, bytes) else marker, found=first[0].hex() if first else None)
    if chk.unrecognised:
        real_.unknown(rule, 'marker / length', 'writer, reader or client constants not interpretable and not of the recognised spelling: ' + ', '.join(chk.unrecognised)[:200], 'nmea2000/decoder.py', dec.lineno)

def csum_dom(chk, program, rule='CSUM-DOM'):
    """in decode_usb the checksum comparison dominates the call to _decode.  Decided on the interpreted reader (wire.usb_reader_semantics:
    symbolic packet, the undecidable comparison answered both ways); the CFG reading below is the fallback when the reader is not interpretable"""
    from .cfg import CFG as _CFG
    from . import wire, absint as _A
    dec = program.fn('decoder', 'NMEA2000Decoder.decode_usb')
    D = 'nmea2000/decoder.py'
    sems = []
    try:
        for n in (8, 3, 0):
            sems.append((n, wire.usb_reader_semantics(program, n)))
    except _A.Unknown as u:
        sems = None
        chk.unit('decode_usb_not_interpretable', str(u))
    if sems is not None:
        bad_dom = [n for n, r in sems if not (r['decoded_when_equal'] and not r['decoded_when_different'] and r['asked_different'] >= 1)]
        chk.check(not bad_dom, rule, 'decode_usb::checksum-before-decode', file=D, line=dec.lineno, func='decode_usb',
                  expected='_decode is reached when the computed checksum equals the stored byte and never when it differs',
                  found='dominated' if not bad_dom else {f"data length {n}": {k: v for k, v in r.items() if k.startswith('decoded') or k.startswith('asked_')} for n, r in sems if n in bad_dom},
                  detail='' if not bad_dom else 'a packet with a wrong checksum can reach _decode')
        bad_cov = [n for n, r in sems if not r['compares_sum_2_18_with_byte_19']]
        chk.check(not bad_cov, 'CSUM-COVER' if rule == 'CSUM-DOM' else rule, 'decode_usb::compares-sum-of-2..18-with-byte-19', file=D, line=dec.lineno, func='decode_usb',
                  expected='the reader compares (sum of packet bytes 2..18) mod 256 with packet byte 19', found='ok' if not bad_cov else {f"data length {n}": r['described'] for n, r in sems if n in bad_cov},
                  detail='' if not bad_cov else 'a byte the comparison does not cover can be corrupted without the packet being rejected')
        return
    g = _CFG(dec)
    pname = [a.arg for a in dec.args.args][1]
    calls = nodes_calling(g, lambda c: is_self_call(c, '_decode'))
    chk.check(len(calls) >= 1, rule, 'decode_usb::funnel', file=D, line=dec.lineno, expected='calls self._decode', found=len(calls), nontrivial=False)
    # checksum variable(s): names assigned calculate_canbus_checksum(packet)
    csvars = set()
    for n in ast.walk(dec):
        if isinstance(n, ast.Assign) and isinstance(n.value, ast.Call) and call_name(n.value) == 'calculate_canbus_checksum' and n.value.args and isinstance(n.value.args[0], ast.Name) \
                and n.value.args[0].id == pname:
            for t in n.targets:
                if isinstance(t, ast.Name):
                    csvars.add(t.id)
    def is_cs(e):
        return (isinstance(e, ast.Name) and e.id in csvars) or (isinstance(e, ast.Call) and call_name(e) == 'calculate_canbus_checksum' and e.args and isinstance(e.args[0], ast.Name) and e.args[0].id == pname)
    def is_stored(e):
        return isinstance(e, ast.Subscript) and isinstance(e.value, ast.Name) and e.value.id == pname and _const_int(e.slice) in (19, -1)
    tests = []
    for n in g.nodes:
        if n.kind == 'test' and isinstance(n.ast.test, ast.Compare) and len(n.ast.test.ops) == 1:
            a, b, op = n.ast.test.left, n.ast.test.comparators[0], n.ast.test.ops[0]
            if (is_cs(a) and is_stored(b)) or (is_cs(b) and is_stored(a)):
                if isinstance(op, ast.NotEq): tests.append((n.id, 'false'))
                if isinstance(op, ast.Eq): tests.append((n.id, 'true'))
    okd = False
    for nid, c in calls:
        for tid, eq_label in tests:
            seen = set(); stack = [g.entry.id]
            while stack:
                u = stack.pop()
                for v, l in g.succ[u]:
                    if u == tid and l == eq_label:
                        continue
                    if v not in seen:
                        seen.add(v); stack.append(v)
            if nid not in seen:
                okd = True
    if not tests or not calls:
        # neither interpretable nor of the shape the graph reading knows (the comparison or the hand-over lives in a helper): no verdict
        chk.unknown(rule, 'decode_usb::checksum-before-decode', 'decode_usb is not interpretable and holds no direct comparison of calculate_canbus_checksum(packet) with packet[19] '
                    'on the way to self._decode', D, dec.lineno)
        return
    chk.check(okd, rule, 'decode_usb::checksum-before-decode', file=D, line=dec.lineno, func='decode_usb',
              expected='_decode is reachable only through the `computed checksum == stored byte` edge', found='dominated' if okd else 'a packet with a wrong checksum can reach _decode')

# ---------------------------------------------------------------------------
# C12
# ---------------------------------------------------------------------------
def rx_rules(chk, program):
    nput = 0
    for q, classes in sorted(impls(program, '_receive_impl').items()):
        g = cfg_of(program, q)
        fn = g.fn
        decs = nodes_calling(g, lambda c: isinstance(c.func, ast.Attribute) and c.func.attr.startswith('decode_') and is_self_attr(c.func.value, ('decoder',)))
        chk.anchor(bool(decs), 'RX-CONTAIN', f"{q}::has-decode", file=IO, line=fn.lineno, func=q, expected='calls self.decoder.decode_*', found=len(decs))
        for nid, c in decs:
            inst = f"{q}::{c.func.attr}"
            hs = [v for v, l in g.succ[nid] if l == 'exc' and g.nodes[v].kind == 'handler']
            generic = [h for h in hs if any(x in ('Exception', 'BaseException', '<bare>') for x in handler_names(g.nodes[h].ast))]
            # the exception edge must not reach the raise exit before a generic handler
            leaks = any(v == g.raise_exit.id for v, l in g.succ[nid] if l == 'exc')
            ok = bool(generic) and not leaks
            if ok:
                H = generic[0]
                # handler must not re-raise: raise_exit not reachable from the handler through explicit Raise statements
                reraises = [n for n in g.reach(H, include_src=True) if g.nodes[n].kind == 'stmt' and isinstance(g.nodes[n].ast, ast.Raise)
                            and _contains_node(ast.Module(body=g.nodes[H].ast.body, type_ignores=[]), g.nodes[n].ast)]
                ok = not reraises
            chk.check(ok, 'RX-CONTAIN', inst, file=IO, line=c.lineno, func=q,
                      expected='decode call inside try/except Exception whose handler does not re-raise (a bad packet never ends the receive loop)',
                      found='contained' if ok else ('exception leaves _receive_impl' if leaks or not generic else 'handler re-raises'),
                      detail=f"classes: {', '.join(classes)}")
        puts = nodes_calling(g, lambda c: call_name(c) in ('self.queue.put', 'self.queue.put_nowait'))
        chk.anchor(bool(puts), 'RX-ONCE', f"{q}::has-put", file=IO, line=fn.lineno, func=q, expected='queue.put of the decoded message', found=len(puts))
        for pid, pc in puts:
            nput += 1
            # at most one put per decode result: every cycle through the put passes a decode call, and no second put is reachable without a decode in between
            dn = [x for x, _ in decs]
            again = [p2 for p2, _ in puts if p2 in g.reach(pid, avoid=dn)]
            chk.check(not again, 'RX-ONCE', f"{q}::{stmt_key(pc)}", file=IO, line=pc.lineno, func=q,
                      expected='at most one queue.put per decoded message (another put is reachable only through another decode call)',
                      found='ok' if not again else f"put at line {g.nodes[again[0]].line} reachable again without decoding")
            # what is put is the decode result, guarded by `is not None`
            arg = pc.args[0] if pc.args else None
            okarg = False
            if isinstance(arg, ast.Name):
                for x, dc in decs:
                    st = g.nodes[x].ast
                    if isinstance(st, ast.Assign) and any(isinstance(t, ast.Name) and t.id == arg.id for t in st.targets):
                        okarg = True
            if not okarg:
                # a witness: what is put is the bytes read (or a constant), not a decoded message.  Any other origin of the value is not followed here.
                read_names = {t.id for x_, c_, m_ in reader_reads(g) for t in (g.nodes[x_].ast.targets if isinstance(g.nodes[x_].ast, ast.Assign) else []) if isinstance(t, ast.Name)}
                raw_put = isinstance(arg, ast.Constant) or (isinstance(arg, ast.Name) and arg.id in read_names)
                if not raw_put:
                    chk.unknown('RX-ONCE', f"{q}::put-argument", f"what is queued ({ast.unparse(arg)[:40] if arg is not None else None}) does not come from a call of self.decoder.decode_* this reading recognises", IO, pc.lineno)
                    continue
            chk.check(okarg, 'RX-ONCE', f"{q}::put-argument", file=IO, line=pc.lineno, func=q, expected='the value returned by the decode call', found=ast.unparse(arg) if arg is not None else None)
    # puts nowhere else
    for mname, m in program.modules.items():
        for node in ast.walk(m.tree):
            if isinstance(node, ast.Call) and isinstance(node.func, ast.Attribute) and node.func.attr in ('put', 'put_nowait') and isinstance(node.func.value, ast.Attribute) and node.func.value.attr == 'queue':
                qn = _enclosing(node)
                if not (mname == 'ioclient' and qn.endswith('._receive_impl')):
                    if nput == 0:
                        # no _receive_impl queues anything itself: the put has moved into this helper, it is not a second producer
                        chk.unknown('RX-ONCE', f"{mname}.{qn}::extra-put", f"the queue is written in {qn} and in no _receive_impl: the producer path goes through a helper that was not followed", m.rel(), node.lineno)
                        continue
                    chk.violation('RX-ONCE', f"{mname}.{qn}::extra-put", file=m.rel(), line=node.lineno, expected='queue written only by _receive_impl', found=qn)
    chk.floor('queue_put_sites', nput, 3)

def q_fifo(chk, program):
    m = io(program)
    init = program.fn('ioclient', f"{BASE}.__init__")
    qa = [n for n in ast.walk(init) if isinstance(n, ast.Assign) and any(is_self_attr(t, ('queue',)) for t in n.targets)]
    okq = len(qa) == 1 and isinstance(qa[0].value, ast.Call) and call_name(qa[0].value) in ('asyncio.Queue', 'Queue') and not qa[0].value.args and \
        all(k.arg != 'maxsize' or _const_int(k.value) == 0 for k in qa[0].value.keywords)
    chk.check(okq, 'Q-FIFO', '__init__::queue', file=IO, line=qa[0].lineno if qa else init.lineno, func='__init__',
              expected='self.queue = asyncio.Queue() (FIFO, unbounded)', found=ast.unparse(qa[0].value) if qa else 'absent')
    # queue rebound elsewhere?
    for q, f in methods_of(program).items():
        if q == f"{BASE}.__init__":
            continue
        for n in ast.walk(f):
            if isinstance(n, ast.Attribute) and n.attr == 'queue' and isinstance(n.ctx, ast.Store) and isinstance(n.value, ast.Name) and n.value.id == 'self':
                chk.violation('Q-FIFO', f"{q}::rebinds-queue", file=IO, line=n.lineno, func=q, expected='queue created once', found='reassigned')
    # one consumer task
    starts = []
    for mname, mm in program.modules.items():
        for node in ast.walk(mm.tree):
            if isinstance(node, ast.Call) and isinstance(node.func, ast.Attribute) and node.func.attr == '_process_queue':
                starts.append((mname, _enclosing(node), node.lineno))
    chk.check(len(starts) == 1 and starts[0][1] == f"{BASE}.__init__", 'Q-FIFO', 'package::one-consumer', file=IO, line=starts[0][2] if starts else 0,
              expected='_process_queue started once, in AsyncIOClient.__init__', found=[f"{a}.{b}" for a, b, _ in starts])
    gets = []
    for mname, mm in program.modules.items():
        for node in ast.walk(mm.tree):
            if isinstance(node, ast.Call) and isinstance(node.func, ast.Attribute) and node.func.attr in ('get', 'get_nowait') and isinstance(node.func.value, ast.Attribute) and node.func.value.attr == 'queue':
                gets.append((mname, _enclosing(node), node.lineno))
    if gets and not any(b == f"{BASE}._process_queue" for a, b, _ in gets):
        # _process_queue does not take from the queue itself: the consumer reads through a helper (one reader still, if the helper is only used there)
        chk.unknown('Q-FIFO', 'package::one-reader', f"queue.get is not in _process_queue but in {[f'{a}.{b}' for a, b, _ in gets]}: who consumes through it was not followed", IO, gets[0][2])
    else:
      # the consumer task is the one reader; a plain (not async) method it calls -- every call site of which lies in _process_queue or in another such
      # helper -- runs inside that task and is the same reader
      accepted = {f"{BASE}._process_queue"}
      for _ in range(3):
          for a_, b_, _l in gets:
              if b_ in accepted or not b_.startswith(BASE + '.'):
                  continue
              hname = b_.split('.', 1)[1]
              hfn = methods_of(program).get(b_)
              if hfn is None or isinstance(hfn, ast.AsyncFunctionDef):
                  continue
              sites = [(_enclosing(node)) for mm in program.modules.values() for node in ast.walk(mm.tree)
                       if isinstance(node, ast.Call) and isinstance(node.func, ast.Attribute) and node.func.attr == hname]
              named = [n_ for mm in program.modules.values() for n_ in ast.walk(mm.tree) if isinstance(n_, ast.Attribute) and n_.attr == hname and isinstance(n_.ctx, ast.Load)]
              if sites and len(named) == len(sites) and all(s_ in accepted for s_ in sites):
                  accepted.add(b_)
      chk.check(bool(gets) and all(b_ in accepted for _a, b_, _l in gets), 'Q-FIFO', 'package::one-reader', file=IO, line=gets[0][2] if gets else 0,
              expected='queue.get only in _process_queue (or in a plain helper only it calls)', found=[f"{a}.{b}" for a, b, _ in gets])
    q = f"{BASE}._process_queue"
    g = cfg_of(program, q)
    getn = [x for x, c in nodes_calling(g, lambda c: call_name(c) == 'self.queue.get')]
    cb = []
    # callback: awaited call of a local alias of self.receive_callback or of the attribute itself
    aliases = {'receive_callback'}
    for n in ast.walk(g.fn):
        if isinstance(n, ast.Assign) and is_self_attr(n.value, ('receive_callback',)):
            for t in n.targets:
                if isinstance(t, ast.Name):
                    aliases.add(t.id)
    for n in g.nodes:
        for c in calls_in_node(g, n.id, lambda c: (isinstance(c.func, ast.Name) and c.func.id in aliases) or is_self_attr(c.func, ('receive_callback',))):
            cb.append((n.id, c))
    chk.anchor(len(cb) >= 1, 'Q-FIFO', f"{q}::one-callback-site", file=IO, line=g.fn.lineno, func=q, expected='at least 1', found=len(cb))
    if len(cb) > 1:
        # several sites (the callback awaited plainly or under a timeout, per branch): no path hands one message to two of them -- from one site no
        # other (nor the same one again) is reached without taking the next message from the queue first
        twice = []
        for nid, c in cb:
            seen = set(); stack = [v for v, _ in g.succ[nid]]
            while stack:
                u = stack.pop()
                if u in seen or u in getn:
                    continue
                seen.add(u)
                if any(u == n2 for n2, _ in cb):
                    twice.append((c.lineno, g.nodes[u].ast.lineno if hasattr(g.nodes[u].ast, 'lineno') else 0)); continue
                stack.extend(v for v, _ in g.succ[u])
        chk.check(not twice, 'Q-FIFO', f"{q}::one-callback-per-message", file=IO, line=g.fn.lineno, func=q, expected='between two queue.get at most one callback site is passed',
                  found='ok' if not twice else [f"line {a} -> line {b}" for a, b in twice[:3]], detail='' if not twice else 'a message is handed to the callback twice')
    for nid, c in cb:
        st = g.nodes[nid].ast
        inline = g.is_await(nid) and isinstance(c._parent, ast.Await)
        if not inline and isinstance(c._parent, ast.Call) and call_name(c._parent) in ('asyncio.wait_for', 'wait_for') and c._parent.args and c._parent.args[0] is c \
                and isinstance(getattr(c._parent, '_parent', None), ast.Await):
            inline = True          # await asyncio.wait_for(callback(message), t): still awaited to its end (or its cancellation) before the next message
        chk.check(inline, 'Q-FIFO', f"{q}::callback-awaited-inline", file=IO, line=c.lineno, func=q,
                  expected='`await receive_callback(message)` (no task per message: the next message waits for this callback)', found=stmt_key(st))
        arg_ok = False
        if c.args and isinstance(c.args[0], ast.Name):
            for x in getn:
                stx = g.nodes[x].ast
                if isinstance(stx, ast.Assign) and any(isinstance(t, ast.Name) and t.id == c.args[0].id for t in stx.targets):
                    arg_ok = True
        if not arg_ok and not getn:
            chk.unknown('Q-FIFO', f"{q}::callback-argument", 'no queue.get in _process_queue: where the value handed to the callback comes from was not followed', IO, c.lineno)
            continue
        chk.check(arg_ok, 'Q-FIFO', f"{q}::callback-argument", file=IO, line=c.lineno, func=q, expected='the message taken from the queue', found=ast.unparse(c.args[0]) if c.args else None)
        tr = _enclosing_try(c, g.fn)
        names = [handler_names(h) for h in tr.handlers] if tr is not None else []
        flat = [x for hn in names for x in hn]
        okt = tr is not None and 'Exception' in flat and not any(x in ('BaseException', '<bare>', 'asyncio.CancelledError', 'CancelledError') for x in flat)
        if okt:
            for h in tr.handlers:
                if any(isinstance(x, ast.Raise) for x in walk_no_nested(ast.Module(body=h.body, type_ignores=[]))):
                    okt = False
        if tr is None:
            # no try around the callback: inside a `with` over something other than a lock the context manager may take the exception
            t_ = c; cm = None
            while hasattr(t_, '_parent') and t_ is not g.fn:
                t_ = t_._parent
                if isinstance(t_, (ast.With, ast.AsyncWith)) and not all(is_self_attr(i.context_expr, ('lock', '_send_lock')) for i in t_.items):
                    cm = t_
            if cm is not None:
                chk.unknown('Q-FIFO', f"{q}::callback-shielded", f"the callback runs inside `with {ast.unparse(cm.items[0].context_expr)[:50]}`: whether that context manager contains a failing callback was not followed", IO, c.lineno)
                continue
        chk.check(okt, 'Q-FIFO', f"{q}::callback-shielded", file=IO, line=c.lineno, func=q,
                  expected='try/except Exception (not BaseException/CancelledError), no re-raise: a failing callback never stops delivery, cancellation still works', found=names)
        # task_done on every path from get back to the loop head
        td = [x for x, cc in nodes_calling(g, lambda c: call_name(c) == 'self.queue.task_done')]
        loops = [n for n in g.nodes if n.kind == 'test' and isinstance(n.ast, ast.While)]
        for x in getn:
            okd = bool(td) and all(w.id not in g.reach(x, avoid=td, labels_excluded=('exc',)) for w in loops)
            chk.check(okd, 'Q-FIFO', f"{q}::task_done", file=IO, line=g.nodes[x].line, func=q, expected='task_done() on every normal path from get() to the next iteration', found='ok' if okd else 'missing on some path', nontrivial=False)

def rx_frame(chk, program):
    """framing per decoder front-end: the fixed-size binary format (decode_tcp) needs an exact-size read of the packet length the encoder
    produces; the text formats need line reads; the windowed serial format is C20's"""
    for q, classes in sorted(impls(program, '_receive_impl').items()):
        g = cfg_of(program, q)
        fronts = {c.func.attr for _, c in nodes_calling(g, lambda c: isinstance(c.func, ast.Attribute) and c.func.attr.startswith('decode_') and is_self_attr(c.func.value, ('decoder',)))}
        reads = reader_reads(g)
        kinds = sorted({meth for _, _, meth in reads})
        if 'decode_tcp' in fronts:
            ok = len(reads) == 1 and reads[0][2] == 'readexactly' and const_int_in(program, 'ioclient', reads[0][1].args[0]) == 13
            if not ok and len(reads) == 1 and reads[0][2] == 'readexactly' and const_int_in(program, 'ioclient', reads[0][1].args[0]) is None:
                chk.unknown('RX-FRAME', f"{q}::fixed-13-byte-framing", f"readexactly({ast.unparse(reads[0][1].args[0])[:40]}): the size is not a constant this analysis can follow", IO, reads[0][1].lineno)
                continue
            chk.check(ok, 'RX-FRAME', f"{q}::fixed-13-byte-framing", file=IO, line=reads[0][1].lineno if reads else g.fn.lineno, func=q,
                      expected='one `await self.reader.readexactly(13)` per packet: 1 type byte + 4 identifier bytes + 8 data bytes (C06 WF-LEN13)',
                      found=[f"{m}({ast.unparse(c.args[0]) if c.args else ''})" for _, c, m in reads],
                      detail='' if ok else 'read(n) may return fewer bytes when a packet is split across TCP segments: the partial packet is decoded and every later 13-byte window is shifted')
        elif fronts & {'decode_actisense_string', 'decode_yacht_devices_string'}:
            # the stream reader's line limit (default 64 KiB) must hold the longest line: an assembled 223-byte fast packet in hex is 446
            # characters plus time stamp, header and CR LF -- an Actisense line of about 475 characters
            LONGEST_LINE = 446 + 29
            for cname in classes:
                for qn, fdef in program.mod('ioclient').defs.items():
                    if not qn.endswith('._connect_impl'):
                        continue
                    for c_ in ast.walk(fdef):
                        if isinstance(c_, ast.Call) and call_name(c_).endswith('open_connection'):
                            lim = next((k.value for k in c_.keywords if k.arg == 'limit'), None)
                            if lim is None:
                                continue
                            owner = qn.rsplit('.', 1)[0]
                            if owner not in classes and owner != q.rsplit('.', 1)[0]:
                                continue
                            v_ = const_int_in(program, 'ioclient', lim)
                            if v_ is None and isinstance(lim, ast.Attribute) and isinstance(lim.value, ast.Name) and lim.value.id == 'self':
                                # a class-level constant read through self
                                for cn_, cd_ in program.mod('ioclient').classes.items():
                                    for st_ in cd_.body:
                                        if isinstance(st_, ast.Assign) and any(isinstance(t_, ast.Name) and t_.id == lim.attr for t_ in st_.targets):
                                            v_ = _const_int(st_.value) if v_ is None else v_
                            if v_ is None:
                                chk.unknown('RX-FRAME', f"{q}::line-limit", f"open_connection(limit={ast.unparse(lim)[:30]}): not a constant this analysis can follow", IO, c_.lineno)
                            else:
                                chk.check(v_ >= LONGEST_LINE, 'RX-FRAME', f"{q}::line-limit", file=IO, line=c_.lineno, func=qn, expected=f"a line limit of at least {LONGEST_LINE} characters (or the default 64 KiB)",
                                          found=v_, detail='' if v_ >= LONGEST_LINE else 'readline() raises for a longer line: the lines of long fast-packet messages (product / configuration information) are lost or end the connection')
                break
            ok = len(reads) == 1 and reads[0][2] in ('readline', 'readuntil')
            chk.check(ok, 'RX-FRAME', f"{q}::line-framing", file=IO, line=reads[0][1].lineno if reads else g.fn.lineno, func=q,
                      expected='one line read per packet (CR LF terminated text formats)', found=kinds)
        elif 'decode_usb' in fronts:
            chk.ok('RX-FRAME', f"{q}::window-framing", file=IO, line=g.fn.lineno, func=q, found='marker + 20-byte window (C20 SER-CONST, BUF-PROGRESS)', nontrivial=False)
        else:
            chk.unknown('RX-FRAME', q, f"front-end(s) {sorted(fronts)} not classified", IO, g.fn.lineno)

def ser_state(chk, program):
    """the serial path's only persistent state is the buffer; new bytes are appended before scanning; the scan loop exits only by the two need-more-data conditions"""
    f = serial_facts(program)
    q, buf, g = f['q'], f['buf'], f['g']
    cls = q.split('.')[0]
    stores = set()
    for n in ast.walk(g.fn):
        if isinstance(n, ast.Attribute) and isinstance(n.ctx, (ast.Store, ast.Del)) and isinstance(n.value, ast.Name) and n.value.id == 'self':
            stores.add(n.attr)
    chk.check(stores <= {buf}, 'SER-STATE', f"{q}::persistent-state", file=IO, line=g.fn.lineno, func=q, expected=f"only self.{buf} written", found=sorted(stores))
    if f['extend'] is not None and f['finds']:
        chk.check(g.dominates(f['extend'], f['finds'][0][0]), 'SER-STATE', f"{q}::append-before-scan", file=IO, line=g.nodes[f['extend']].line, func=q,
                  expected='new bytes appended before the marker search', found='dominates' if g.dominates(f['extend'], f['finds'][0][0]) else 'scan reachable without append')
    # loop exits: breaks only under tests on start / len(buffer)
    for w in [n for n in g.nodes if n.kind == 'test' and isinstance(n.ast, ast.While)]:
        for n in g.nodes:
            if n.kind == 'stmt' and isinstance(n.ast, (ast.Break, ast.Return)) and _contains_node(w.ast, n.ast):
                # controlling tests: walk back over straight-line statements to the nearest test nodes
                preds = []
                seenp = set(); stackp = [n.id]
                while stackp:
                    u = stackp.pop()
                    for p, l in g.pred[u]:
                        if p in seenp:
                            continue
                        seenp.add(p)
                        if g.nodes[p].kind == 'test':
                            preds.append(p)
                        elif g.nodes[p].kind == 'stmt':
                            stackp.append(p)
                startvar = f['finds'][0][1] if f['finds'] else None
                okb = all(_test_mentions_only_start_len(g.nodes[p].ast.test, startvar, buf) for p in preds) and bool(preds)
                chk.check(okb, 'SER-STATE', f"{q}::loop-exit::{stmt_key(g.nodes[preds[0]].ast.test) if preds else 'unconditional'}", file=IO, line=n.line, func=q,
                          expected='scan loop exits only on need-more-data conditions over (start, len(buffer))', found=[stmt_key(g.nodes[p].ast.test) for p in preds])

def _test_mentions_only_start_len(test, startvar, buf):
    for n in ast.walk(test):
        if isinstance(n, ast.Name) and n.id not in (startvar, 'len', 'self'):
            return False
        if isinstance(n, ast.Attribute) and not _is_buf(n, buf):
            return False
    return True


# ---------------------------------------------------------------------------
# additional clauses found necessary by seeded changes
# ---------------------------------------------------------------------------
def buf_reset(chk, program, rule='BUF-RESET'):
    """the buffering client starts every connection with an empty buffer: _connect_impl assigns a fresh empty bytearray on every normal path"""
    q, buf = serial_impl(program)
    cls = q.split('.')[0]
    cq = program.resolve_method('ioclient', cls, '_connect_impl')
    g = cfg_of(program, cq)
    resets = [n.id for n in g.nodes if n.kind == 'stmt' and isinstance(n.ast, ast.Assign) and any(_is_buf(t, buf) for t in n.ast.targets) and isinstance(n.ast.value, ast.Call)
              and isinstance(n.ast.value.func, ast.Name) and n.ast.value.func.id in ('bytearray', 'bytes') and not n.ast.value.args]
    resets += [n.id for n in g.nodes if n.kind == 'stmt' and isinstance(n.ast, ast.Expr) and isinstance(n.ast.value, ast.Call) and isinstance(n.ast.value.func, ast.Attribute)
               and n.ast.value.func.attr == 'clear' and _is_buf(n.ast.value.func.value, buf)]
    ok = bool(resets) and g.exit.id not in g.reach(g.entry.id, avoid=resets, labels_excluded=('exc',))
    chk.check(ok, rule, f"{cq}::fresh-buffer", file=IO, line=g.fn.lineno, func=cq, expected=f"self.{buf} = bytearray() (or .clear()) on every normal path of _connect_impl",
              found='reset' if ok else 'the buffer survives a reconnect', detail='' if ok else 'a fragment left by the lost connection is glued in front of the first packet of the new one: that frame is lost or mis-decoded')

def close_order(chk, program, rule='CLOSE-DOES'):
    """close() may be called from inside the receive callback (i.e. by the process-queue task itself): cancelling that task and then awaiting
    anything raises CancelledError in close().  The link must therefore be shut before the first suspension that follows a task cancellation:
    on every path from the entry of close() to an await that a `.cancel()` can precede, `self.writer.close()` has been passed (unless the
    path established that there is no writer)."""
    from .cfg import must_fact, implied_edges
    q = f"{BASE}.close"
    g = cfg_of(program, q)
    cancels = [nid for nid, c in nodes_calling(g, lambda c: isinstance(c.func, ast.Attribute) and c.func.attr == 'cancel' and not c.args)]
    closes = [nid for nid, c in nodes_calling(g, lambda c: isinstance(c.func, ast.Attribute) and c.func.attr == 'close' and is_self_attr(c.func.value, ('writer',)))]
    if not cancels:
        return
    def world(e):          # the world "a writer exists"
        if is_self_attr(e, ('writer',)):
            return True
        if isinstance(e, ast.Compare) and len(e.ops) == 1 and is_self_attr(e.left, ('writer',)) and isinstance(e.comparators[0], ast.Constant) and e.comparators[0].value is None:
            return isinstance(e.ops[0], (ast.IsNot, ast.NotEq))
        return NotImplemented
    shut = must_fact(g, gen_nodes=closes, gen_edges=implied_edges(g, world))
    bad = []
    for a in sorted(g.await_nodes()):
        if any(a in g.reach(cn) for cn in cancels) and not shut[a]:
            bad.append(a)
    chk.check(not bad, rule, 'close::link-shut-before-awaiting-after-a-cancel', file=IO, line=g.nodes[bad[0]].line if bad else g.fn.lineno, func='close',
              expected='self.writer.close() happens before the first await that can follow a task cancellation',
              found='ok' if not bad else [f"await at line {g.nodes[a].line}: {stmt_key(g.nodes[a].ast)}" for a in bad[:2]],
              detail='' if not bad else 'close() called from the receive callback cancels its own task; the CancelledError raised at that await skips the rest of close(), so the link would stay open')

def close_every_path(chk, program, rule='CLOSE-DOES'):
    """close() does its work on every path, whatever the state was: in the graph of close() (helpers inlined), in the world "a writer exists and
    both background tasks exist and are still running", every path from the entry to the end passes self.writer.close(), the cancellation of the
    receive task and the cancellation of the consumer task.  Paths that only branch on something of the client this analysis does not know are
    no witness; a branch on the connection state is taken both ways (close() must work from every state)."""
    from .cfg import reach_with_flags
    q = f"{BASE}.close"
    g = cfg_of(program, q)
    aliases = {}
    for n in g.nodes:
        if n.kind == 'stmt' and isinstance(n.ast, ast.Assign) and len(n.ast.targets) == 1 and isinstance(n.ast.targets[0], ast.Name):
            for attr in ('_receive_task', '_process_queue_task', 'writer'):
                if is_self_attr(n.ast.value, (attr,)):
                    aliases[n.ast.targets[0].id] = attr
    def which(e):
        if isinstance(e, ast.Attribute) and isinstance(e.value, ast.Name) and e.value.id == 'self' and e.attr in ('_receive_task', '_process_queue_task', 'writer'):
            return e.attr
        if isinstance(e, ast.Name) and e.id in aliases:
            return aliases[e.id]
        return None
    def atom(e):          # tasks exist and are running, a writer exists
        if which(e) is not None:
            return True
        if isinstance(e, ast.Compare) and len(e.ops) == 1 and which(e.left) is not None and isinstance(e.comparators[0], ast.Constant) and e.comparators[0].value is None:
            return isinstance(e.ops[0], (ast.IsNot, ast.NotEq))
        if isinstance(e, ast.Call) and isinstance(e.func, ast.Attribute) and e.func.attr in ('done', 'cancelled') and which(e.func.value) in ('_receive_task', '_process_queue_task') and not e.args:
            return False
        return NotImplemented
    def state_test(t):
        return any(is_state_read(x) for x in ast.walk(t))
    def taint(t):
        return may_encode_state(t) and not state_test(t)
    for what, pred in (('link-shut', lambda c: isinstance(c.func, ast.Attribute) and c.func.attr == 'close' and which(c.func.value) == 'writer'),
                       ('receive-task-cancelled', lambda c: isinstance(c.func, ast.Attribute) and c.func.attr == 'cancel' and which(c.func.value) == '_receive_task'),
                       ('consumer-task-cancelled', lambda c: isinstance(c.func, ast.Attribute) and c.func.attr == 'cancel' and which(c.func.value) == '_process_queue_task')):
        doers = {nid for nid, c in nodes_calling(g, pred)}
        if not doers:
            continue          # absent altogether: CLOSE-DOES `close::cancels::*` / `writer-closed` report (or refuse) that
        may, sure = reach_with_flags(g, g.entry.id, doers, atom, taint=taint)
        if g.exit.id in may and g.exit.id not in sure:
            chk.unknown(rule, f"close::on-every-path::{what}", 'close() branches on something of the client that this analysis does not know: not decided', IO, g.fn.lineno)
            continue
        bad = g.exit.id in sure
        chk.check(not bad, rule, f"close::on-every-path::{what}", file=IO, line=g.fn.lineno, func='close',
                  expected='done on every path through close(), from whatever state it is called (task running, writer present)',
                  found='ok' if not bad else 'a path through close() returns without it',
                  detail='' if not bad else 'closing a client that is not connected (before connect, during a retry wait, after a fault) would leave the link open or a background task running for ever')

def connect_shuts_late_link(chk, program, rule='CLOSE-DOES'):
    """close() can run while connect() waits for the transport: the link that _connect_impl() then opens must be shut by connect() itself.  In the
    graph of connect() (helpers inlined), from the `_connect_impl()` call onwards, in the world "the state is CLOSED and a writer exists", every path
    to an exit passes `self.writer.close()` (the attribute as it is after the connect, or a local bound to it after the connect).  A path that
    only branches on something of the client this analysis does not know is no witness."""
    from .cfg import reach_with_flags
    q = f"{BASE}.connect"
    g = cfg_of(program, q)
    sites = [nid for nid, c in nodes_calling(g, lambda c: is_self_call(c, '_connect_impl'))]
    if len(sites) != 1:
        chk.unknown(rule, 'connect::shuts-a-link-opened-while-closing', f"{len(sites)} call sites of _connect_impl in connect()", IO, g.fn.lineno)
        return
    N = sites[0]
    after = g.reach(N)
    # locals bound to self.writer only after the connect (dominated by it: a binding made before it, even in a retry loop, may hold the old link)
    fresh = {n.ast.targets[0].id for n in g.nodes if n.id in after and n.id != N and g.dominates(N, n.id) and n.kind == 'stmt' and isinstance(n.ast, ast.Assign) and len(n.ast.targets) == 1
             and isinstance(n.ast.targets[0], ast.Name) and is_self_attr(n.ast.value, ('writer',))}
    stale = {n.ast.targets[0].id for n in g.nodes if n.kind == 'stmt' and isinstance(n.ast, ast.Assign) and len(n.ast.targets) == 1 and isinstance(n.ast.targets[0], ast.Name)
             and is_self_attr(n.ast.value, ('writer',)) and not (n.id in after and n.id != N and g.dominates(N, n.id))}
    fresh -= stale
    def is_w(e):
        return is_self_attr(e, ('writer',)) or (isinstance(e, ast.Name) and e.id in fresh)
    closers = {nid for nid, c in nodes_calling(g, lambda c: isinstance(c.func, ast.Attribute) and c.func.attr == 'close' and is_w(c.func.value)) if nid in after}
    def atom(e):
        r = eval_under_closed(e, 'CLOSED')
        if r is not None:
            return r
        if is_w(e):
            return True
        if isinstance(e, ast.Compare) and len(e.ops) == 1 and is_w(e.left) and isinstance(e.comparators[0], ast.Constant) and e.comparators[0].value is None:
            return isinstance(e.ops[0], (ast.IsNot, ast.NotEq))
        return NotImplemented
    starts = [v for v, l in g.succ[N] if l != 'exc']
    may, sure = set(), set()
    for s_ in starts:
        if s_ in closers:
            continue
        a_, b_ = reach_with_flags(g, s_, closers, atom, taint=may_encode_state)
        may |= a_; sure |= b_
    exits = {g.exit.id}
    if exits & may and not exits & sure:
        chk.unknown(rule, 'connect::shuts-a-link-opened-while-closing', 'after _connect_impl() connect() branches on something of the client that may stand for the connection state: not decided', IO, g.nodes[N].line)
        return
    chk.check(not (exits & sure), rule, 'connect::shuts-a-link-opened-while-closing', file=IO, line=g.nodes[N].line, func='connect',
              expected='when close() ran while the transport was being opened, connect() shuts the link it has just opened (self.writer.close()) before it returns',
              found='ok' if not (exits & sure) else 'a path from _connect_impl() to the end of connect() in state CLOSED does not close self.writer',
              detail='' if not (exits & sure) else 'the state stays CLOSED but the connection opened during close() is never shut')

def lock_owner(chk, program, rule='SEND-ATOMIC'):
    """an explicitly released lock is released only by the invocation that acquired it: every path to `<lock>.release()` passes the matching
    `await <lock>.acquire()` of the same function (a release reachable from before the acquire frees a lock held by another task)"""
    from .cfg import must_fact
    n = 0
    for qn in (f"{BASE}.send", f"{BASE}.connect"):
        g = cfg_of(program, qn)
        rel = nodes_calling(g, lambda c: isinstance(c.func, ast.Attribute) and c.func.attr == 'release' and not c.args)
        for nid, c in rel:
            lk = ast.unparse(c.func.value)
            acq = [x for x, cc in nodes_calling(g, lambda c2: isinstance(c2.func, ast.Attribute) and c2.func.attr == 'acquire' and ast.unparse(c2.func.value) == lk)]
            held = must_fact(g, gen_nodes=acq)
            n += 1
            chk.check(bool(acq) and held[nid], rule, f"{qn}::release-by-owner::{lk}", file=IO, line=c.lineno, func=qn,
                      expected=f"every path to {lk}.release() has passed {lk}.acquire() in this invocation", found='ok' if acq and held[nid] else 'release reachable without the acquire',
                      detail='' if acq and held[nid] else 'e.g. an exception raised before the acquire (an unencodable message) reaches the finally clause and releases the lock another sender holds: its packets can then be interleaved')
    return n

def rx_raise(chk, program, rule='RX-RAISE'):
    """a raise in a _receive_impl ends the connection: it may depend only on end of stream (emptiness of the raw read result) or on the
    gateway's literal busy banner -- never on the content of a line / packet"""
    for q, classes in sorted(impls(program, '_receive_impl').items()):
        g = cfg_of(program, q)
        reads = reader_reads(g)
        readvars = set()
        for nid, c, meth in reads:
            st = g.nodes[nid].ast
            if isinstance(st, ast.Assign) and len(st.targets) == 1 and isinstance(st.targets[0], ast.Name):
                readvars.add(st.targets[0].id)
        for n in g.nodes:
            if n.kind == 'stmt' and isinstance(n.ast, ast.Raise):
                # leaves the function?  (a raise inside the decode try that is caught locally does not)
                if g.raise_exit.id not in [v for v, l in g.succ[n.id]]:
                    continue
                if not readvars:
                    # nothing in this function is the raw result of a read of self.reader: what the tests look at was produced by a helper
                    chk.unknown(rule, f"{q}::{stmt_key(n.ast)}", 'the function does not bind the result of a read of self.reader: whether the raise depends on content or on end of stream was not followed', IO, n.line)
                    continue
                # controlling tests
                ctl = []
                seenp = set(); stackp = [n.id]
                while stackp:
                    u = stackp.pop()
                    for p_, l in g.pred[u]:
                        if p_ in seenp: continue
                        seenp.add(p_)
                        if g.nodes[p_].kind == 'test': ctl.append((p_, l))
                        elif g.nodes[p_].kind in ('stmt', 'handler'): stackp.append(p_)
                ok = bool(ctl)
                for p_, l in ctl:
                    t = g.nodes[p_].ast.test
                    e_ok = any(emptiness_edge(t, v) == l for v in readvars)
                    banner = isinstance(t, ast.Compare) and len(t.ops) == 1 and isinstance(t.ops[0], (ast.Eq, ast.NotEq)) and isinstance(t.left, ast.Name) and t.left.id in readvars \
                        and isinstance(t.comparators[0], ast.Constant) and isinstance(t.comparators[0].value, (bytes, str)) and len(t.comparators[0].value) > 0 \
                        and l == ('true' if isinstance(t.ops[0], ast.Eq) else 'false')
                    # a test that reads nothing received (configuration such as the gateway type) says nothing about content
                    tainted = set(readvars)
                    for _ in range(4):
                        for a_ in ast.walk(g.fn):
                            if isinstance(a_, ast.Assign) and any(isinstance(x_, ast.Name) and x_.id in tainted for x_ in ast.walk(a_.value)):
                                for t_ in a_.targets:
                                    for x_ in ast.walk(t_):
                                        if isinstance(x_, ast.Name): tainted.add(x_.id)
                                        if isinstance(x_, ast.Attribute): tainted.add(ast.unparse(x_))
                    reads_t = {x_.id for x_ in ast.walk(t) if isinstance(x_, ast.Name)} | {ast.unparse(x_) for x_ in ast.walk(t) if isinstance(x_, ast.Attribute)}
                    config_only = not (reads_t & tainted) and not any(isinstance(x_, (ast.Call, ast.Await)) for x_ in ast.walk(t)) \
                        and all(isinstance(x_, ast.Attribute) or x_.id in ('self',) or x_.id[:1].isupper() for x_ in ast.walk(t) if isinstance(x_, (ast.Name, ast.Attribute)))
                    if not (e_ok or banner or config_only):
                        ok = False
                chk.check(ok, rule, f"{q}::{stmt_key(n.ast)}", file=IO, line=n.line, func=q,
                          expected='a connection-ending raise depends only on end of stream (empty raw read) or on the literal busy banner',
                          found=[stmt_key(g.nodes[p_].ast.test) for p_, l in ctl] or 'unconditional',
                          detail='' if ok else 'content that is merely undecodable (a blank line, a stray packet) would be handled as a lost connection: reconnect, later messages lost')

def handler_cannot_raise(chk, program, rule='Q-FIFO'):
    """the except clause around the receive callback must not be able to fail itself: only logging of plain names / attributes"""
    q = f"{BASE}._process_queue"
    g = cfg_of(program, q)
    fn = g.fn
    for tr in [n for n in ast.walk(fn) if isinstance(n, ast.Try)]:
        body_calls = [c for b in tr.body for c in ast.walk(b) if isinstance(c, ast.Call)]
        is_cb = any((isinstance(c.func, ast.Name) and 'callback' in c.func.id) or is_self_attr(c.func, ('receive_callback',)) for c in body_calls)
        if not is_cb:
            continue
        own_attrs = {n.attr for n in ast.walk(program.mod('ioclient').tree) if isinstance(n, ast.Attribute) and isinstance(n.ctx, ast.Store) and isinstance(n.value, ast.Name) and n.value.id == 'self'}
        def plain_test(e):
            """a test that cannot raise: names, attributes of names, constants, is / is not / == on those, isinstance(name, dotted class), not / and / or"""
            if isinstance(e, (ast.Name, ast.Constant)):
                return True
            if isinstance(e, ast.Attribute):
                return isinstance(e.value, ast.Name) and (e.value.id != 'self' or e.attr in own_attrs)
            if isinstance(e, ast.UnaryOp) and isinstance(e.op, ast.Not):
                return plain_test(e.operand)
            if isinstance(e, ast.BoolOp):
                return all(plain_test(v) for v in e.values)
            if isinstance(e, ast.Compare):
                return all(isinstance(o, (ast.Is, ast.IsNot, ast.Eq, ast.NotEq)) for o in e.ops) and all(plain_test(v) for v in [e.left] + e.comparators)
            if isinstance(e, ast.Call) and isinstance(e.func, ast.Name) and e.func.id == 'isinstance' and len(e.args) == 2 and not e.keywords:
                cls_ = e.args[1].elts if isinstance(e.args[1], ast.Tuple) else [e.args[1]]
                return isinstance(e.args[0], ast.Name) and all(isinstance(c_, (ast.Name, ast.Attribute)) and (isinstance(c_, ast.Name) or isinstance(c_.value, ast.Name)) for c_ in cls_)
            return False
        def walk_handler(stmts, bad):
            for st in stmts:
                if isinstance(st, (ast.Pass, ast.Continue)):
                    continue
                if isinstance(st, ast.Expr) and isinstance(st.value, ast.Call) and call_name(st.value).startswith('self.logger.'):
                    for a in list(st.value.args) + [k.value for k in st.value.keywords]:
                        for x in ast.walk(a):
                            if isinstance(x, (ast.Call, ast.Subscript, ast.BinOp, ast.Await)):
                                bad.append(ast.unparse(x)[:60])
                    continue
                if isinstance(st, ast.If) and plain_test(st.test):
                    walk_handler(st.body, bad); walk_handler(st.orelse, bad)
                    continue
                if isinstance(st, ast.AugAssign) and isinstance(st.op, (ast.Add, ast.Sub)) and is_self_attr(st.target, tuple(own_attrs)) and isinstance(st.value, ast.Constant) and isinstance(st.value.value, int):
                    continue          # a counter of the client itself
                if isinstance(st, ast.Assign) and len(st.targets) == 1 and (isinstance(st.targets[0], ast.Name) or is_self_attr(st.targets[0], tuple(own_attrs))) and plain_test(st.value):
                    continue
                bad.append(ast.unparse(st)[:60])
        for h in tr.handlers:
            bad = []
            walk_handler(h.body, bad)
            chk.check(not bad, rule, f"{q}::callback-handler-cannot-fail", file=IO, line=h.lineno, func=q,
                      expected='handler only logs plain names / attributes / f-strings of them (nothing in it can raise)', found=bad or 'logging only',
                      detail='' if not bad else 'an exception inside the handler (e.g. a method that exists only for some message kinds) ends the consumer task: later messages are queued and never delivered')

def lock_window(chk, program, rule='ONE-RX'):
    """after the new receive task has been created, connect() reaches the end of its locked region without any await: the receive loop --
    whose fault path needs connect() -- never runs while the connect lock is still held (a connect() issued then returns 'already running')"""
    q = f"{BASE}.connect"
    g = cfg_of(program, q)
    starts = [x for x, c in nodes_calling(g, lambda c: call_name(c).endswith('create_task') and c.args and isinstance(c.args[0], ast.Call) and is_self_call(c.args[0], '_receive_loop'))]
    for sidx in starts:
        r = g.reach(sidx, labels_excluded=('exc',))
        # awaits after the start that are still inside the `async with self.lock` body (the with-exit itself is not a suspension that matters)
        aw = [x for x in r if g.is_await(x) and g.nodes[x].kind != 'withexit' and not (g.nodes[x].kind == 'iter')]
        # only those reachable before the loop is re-entered / function exits without passing the async-with exit
        wx = [n.id for n in g.nodes if n.kind == 'withexit' and isinstance(n.ast, ast.AsyncWith)]
        # a successful attempt ends tenacity's retry iteration: the walk stops at the retry loop header and at the lock exit
        stop = wx + [n.id for n in g.nodes if n.kind == 'iter' and isinstance(n.ast, ast.AsyncFor)]
        inside = [x for x in aw if x in g.reach(sidx, avoid=stop, labels_excluded=('exc',))]
        chk.check(not inside, rule, f"{q}::no-await-between-task-start-and-lock-release", file=IO, line=g.nodes[sidx].line, func=q,
                  expected='nothing is awaited between creating the receive task and leaving the connect lock',
                  found=[f"await@line{g.nodes[x].line}:{stmt_key(g.nodes[x].ast)}" for x in inside] or 'ok',
                  detail='' if not inside else 'the new receive loop can fault while connect() still holds the lock (e.g. inside a slow status callback): its reconnect request is dropped as "already running" and nobody retries')

def other_writers(chk, program, rule='SEND-ATOMIC'):
    """besides send(), nothing writes to the link while messages may be in flight unless it holds the send lock: every `self.writer.write(..)` in
    another method of the client classes (the connection set-up in _connect_impl aside: the link is not handed out yet) is inside `async with
    self.<lock>`, or the method is private and every one of its call sites is."""
    m = program.mod('ioclient')
    locks = instance_locks(program)
    def locked(node, top):
        t = node
        while hasattr(t, '_parent') and t is not top:
            t = t._parent
            if isinstance(t, ast.AsyncWith) and any(is_self_attr(i.context_expr, tuple(locks)) for i in t.items):
                return True
        return False
    found = 0
    for q, fn in m.defs.items():
        if q.count('.') != 1 or q.endswith('.send') or q.endswith('._connect_impl'):
            continue
        aliases = {t.id for n in ast.walk(fn) if isinstance(n, ast.Assign) and is_self_attr(n.value, ('writer',)) for t in n.targets if isinstance(t, ast.Name)}
        for c in ast.walk(fn):
            if isinstance(c, ast.Call) and isinstance(c.func, ast.Attribute) and c.func.attr in ('write', 'writelines') and \
                    (is_self_attr(c.func.value, ('writer',)) or (isinstance(c.func.value, ast.Name) and c.func.value.id in aliases)):
                found += 1
                if locked(c, fn):
                    chk.ok(rule, f"{q}::write-under-the-send-lock", file=IO, line=c.lineno, found='locked')
                    continue
                meth = q.split('.')[1]
                sites = [(q2, n) for q2, f2 in m.defs.items() for n in ast.walk(f2) if isinstance(n, ast.Call) and is_self_call(n, meth)]
                if meth.startswith('_') and sites and all(locked(n, m.defs[q2]) for q2, n in sites):
                    chk.ok(rule, f"{q}::write-under-the-send-lock", file=IO, line=c.lineno, found='every caller holds the lock')
                    continue
                chk.violation(rule, f"{q}::write-under-the-send-lock", file=IO, line=c.lineno, func=q, expected='a write to the link outside send() holds the send lock',
                              found='written outside the lock' + ('' if not sites else f" (called from {sorted({q2 for q2, _ in sites})[:3]})"),
                              detail='its packet can land between the packets of a message whose sender is suspended in drain()')
    chk.unit('other_link_writers', found)

def send_types(chk, program, rule='SEND-TYPES'):
    """what _encode_impl hands to writer.write is bytes: each implementation returns the result of an encoder method annotated -> list[bytes]
    (a str, or a list of str, makes write() raise TypeError, which send() treats as a lost connection)"""
    enc = program.mod('encoder')
    def ann_of(method):
        f = enc.defs.get(f"NMEA2000Encoder.{method}")
        return ast.unparse(f.returns) if f is not None and f.returns is not None else None
    def type_of(e, fn=None, depth=0):
        if isinstance(e, ast.Name) and fn is not None and depth < 4:
            # a local bound once: the type of what it is bound to
            binds = [n for n in ast.walk(fn) if isinstance(n, ast.Assign) and any(isinstance(t, ast.Name) and t.id == e.id for t in n.targets)]
            others = [n for n in ast.walk(fn) if isinstance(n, ast.Name) and n.id == e.id and isinstance(n.ctx, ast.Store)]
            if len(binds) == 1 and len(others) == 1:
                return type_of(binds[0].value, fn, depth + 1)
            return None
        if isinstance(e, ast.Call) and isinstance(e.func, ast.Attribute) and isinstance(e.func.value, ast.Attribute) and e.func.value.attr == 'encoder':
            return ann_of(e.func.attr)
        if isinstance(e, ast.Constant):
            return type(e.value).__name__
        if isinstance(e, ast.JoinedStr):
            return 'str'
        if isinstance(e, ast.BinOp) and isinstance(e.op, ast.Add):
            a, b = type_of(e.left), type_of(e.right)
            return a if a == b else (a or b) if (a is None or b is None) else f"{a}+{b}"
        if isinstance(e, ast.Call) and isinstance(e.func, ast.Attribute) and e.func.attr == 'encode':
            return 'bytes'
        if isinstance(e, ast.List):
            ts = {type_of(x) for x in e.elts}
            return f"list[{ts.pop()}]" if len(ts) == 1 else f"list[{'|'.join(sorted(str(t) for t in ts))}]"
        if isinstance(e, ast.ListComp):
            return f"list[{type_of(e.elt)}]"
        return None
    for iq, classes in sorted(impls(program, '_encode_impl').items()):
        fn = program.fn('ioclient', iq)
        rets = [n for n in ast.walk(fn) if isinstance(n, ast.Return) and n.value is not None]
        raises = [n for n in ast.walk(fn) if isinstance(n, ast.Raise)]
        if not rets:
            chk.check(bool(raises), rule, f"{iq}::returns", file=IO, line=fn.lineno, func=iq, expected='returns packets or raises', found='neither', nontrivial=False)
            continue
        for r in rets:
            t = type_of(r.value, fn)
            if t is None:
                chk.unknown(rule, iq, f"type of `{ast.unparse(r.value)[:60]}` not inferable", IO, r.lineno)
                continue
            chk.check(t == 'list[bytes]', rule, f"{iq}::packet-type", file=IO, line=r.lineno, func=iq, expected='list[bytes]', found=t,
                      detail='' if t == 'list[bytes]' else 'StreamWriter.write(str) raises TypeError; send() handles it as a lost connection (DISCONNECTED + reconnect) for a perfectly good message')
