"""rules_iso.py -- ownership / aliasing rules for instance isolation (C16)."""
from __future__ import annotations

import ast

from .model import AnalysisError

MUT_METHODS = {'append', 'extend', 'remove', 'clear', 'pop', 'update', 'add', 'discard', 'insert', 'sort', 'reverse', 'setdefault', 'popitem'}
RO_METHODS = {'items', 'keys', 'values', 'get', 'lower', 'upper', 'copy', 'count', 'index', 'startswith', 'endswith', 'split', 'join', 'hex', 'format'}
RO_FUNCS = {'len', 'isinstance', 'list', 'set', 'dict', 'tuple', 'sorted', 'str', 'repr', 'bool', 'any', 'all', 'enumerate', 'iter', 'frozenset', 'type', 'print', 'min', 'max', 'sum'}

def is_mutable_literal(v):
    return isinstance(v, (ast.List, ast.Dict, ast.Set, ast.ListComp, ast.DictComp, ast.SetComp)) or \
        (isinstance(v, ast.Call) and isinstance(v.func, ast.Name) and v.func.id in ('list', 'dict', 'set', 'bytearray', 'defaultdict', 'deque', 'OrderedDict'))

def no_class_state(chk, program, rule='NO-CLASS-STATE'):
    targets = [('decoder', 'NMEA2000Decoder'), ('decoder', 'fast_pgn_metadata'), ('encoder', 'NMEA2000Encoder'), ('message', 'NMEA2000Message'), ('message', 'NMEA2000Field'),
               ('message', 'IsoName'), ('message', 'LookupFieldTypeEnumeration')]
    n = 0
    for mod, cname in targets:
        c = program.cls(mod, cname)
        m = program.mod(mod)
        for s in c.body:
            tgt = None; val = None
            if isinstance(s, ast.Assign):
                tgt = ','.join(ast.unparse(t) for t in s.targets); val = s.value
            elif isinstance(s, ast.AnnAssign) and s.value is not None:
                tgt = ast.unparse(s.target); val = s.value
            if val is None:
                continue
            n += 1
            bad = is_mutable_literal(val)
            # dataclass field(default=<mutable>) is rejected by dataclasses itself; default_factory is the accepted idiom
            if isinstance(val, ast.Call) and isinstance(val.func, ast.Name) and val.func.id == 'field':
                bad = any(k.arg == 'default' and is_mutable_literal(k.value) for k in val.keywords)
            chk.check(not bad, rule, f"{mod}.{cname}.{tgt}", file=m.rel(), line=s.lineno, expected='no mutable object shared at class level (use default_factory / __init__)',
                      found=ast.unparse(val)[:60], detail='' if not bad else 'every instance would share (and mutate) the same object')
    # the message's field list comes from a factory
    c = program.cls('message', 'NMEA2000Message')
    fl = [s for s in c.body if isinstance(s, ast.AnnAssign) and isinstance(s.target, ast.Name) and s.target.id == 'fields']
    ok = len(fl) == 1 and isinstance(fl[0].value, ast.Call) and ast.unparse(fl[0].value.func) == 'field' and any(k.arg == 'default_factory' for k in fl[0].value.keywords)
    chk.check(ok, 'FRESH-MSG', 'NMEA2000Message.fields::default_factory', file='nmea2000/message.py', line=fl[0].lineno if fl else c.lineno, expected='fields = field(default_factory=list)',
              found=ast.unparse(fl[0].value) if fl and fl[0].value else None)
    chk.floor('class_level_assignments', n, 10)

class ParamUse:
    """read-only summary of a parameter: every use is classified; anything not recognised as read-only is reported"""
    def __init__(self, program):
        self.program = program
        self.memo = {}

    def resolve_callee(self, module, cls, call):
        f = call.func
        if isinstance(f, ast.Attribute) and isinstance(f.value, ast.Name) and f.value.id == 'self' and cls:
            q = self.program.resolve_method(module, cls, f.attr) if module == 'ioclient' else (f"{cls}.{f.attr}" if f"{cls}.{f.attr}" in self.program.mod(module).defs else None)
            return (module, q) if q else None
        if isinstance(f, ast.Attribute) and isinstance(f.value, ast.Call) and isinstance(f.value.func, ast.Name) and f.value.func.id == 'super' and cls and f.attr == '__init__':
            mro = self.program.mro(module, cls)
            for b in mro[1:]:
                if f"{b}.__init__" in self.program.mod(module).defs:
                    return (module, f"{b}.__init__")
            return None
        if isinstance(f, ast.Name):
            for mod in ('decoder', 'encoder', 'message', 'ioclient'):
                m = self.program.modules.get(mod)
                if m and f.id in m.classes and f"{f.id}.__init__" in m.defs:
                    return (mod, f"{f.id}.__init__")
                if m and f.id in m.defs:
                    return (mod, f.id)
        return None

    def summary(self, module, qual, pname, depth=0):
        """-> list of (kind, description, line) problems; empty = read-only"""
        key = (module, qual, pname)
        if key in self.memo:
            return self.memo[key]
        self.memo[key] = []       # recursion guard: assume fine
        fn = self.program.fn(module, qual)
        cls = qual.split('.')[0] if '.' in qual else None
        aliases = {pname}
        for _ in range(6):
            probs = []
            grown = False
            for node in ast.walk(fn):
                if isinstance(node, ast.Name) and node.id in aliases and isinstance(node.ctx, ast.Load):
                    par = getattr(node, '_parent', None)
                    # other names for the same object: a plain local alias, the loop variable over a literal tuple / list that holds it
                    if isinstance(par, ast.Assign) and par.value is node and len(par.targets) == 1 and isinstance(par.targets[0], ast.Name):
                        if par.targets[0].id not in aliases:
                            aliases.add(par.targets[0].id); grown = True
                        continue
                    if isinstance(par, ast.AnnAssign) and par.value is node and isinstance(par.target, ast.Name):
                        if par.target.id not in aliases:
                            aliases.add(par.target.id); grown = True
                        continue
                    if isinstance(par, ast.BoolOp) and isinstance(par.op, ast.Or):
                        # `y = x or <fresh>`: y is the caller's object whenever that object is not empty
                        gp = getattr(par, '_parent', None)
                        tname = gp.targets[0] if isinstance(gp, ast.Assign) and len(gp.targets) == 1 and gp.value is par else (gp.target if isinstance(gp, ast.AnnAssign) and gp.value is par else None)
                        if isinstance(tname, ast.Name) and tname.id != pname:
                            if tname.id not in aliases:
                                aliases.add(tname.id); grown = True
                            continue
                    if isinstance(par, (ast.Tuple, ast.List)):
                        gp = getattr(par, '_parent', None)
                        tgt = gp.target if isinstance(gp, (ast.For, ast.AsyncFor, ast.comprehension)) and gp.iter is par else None
                        if isinstance(tgt, ast.Name):
                            if tgt.id not in aliases:
                                aliases.add(tgt.id); grown = True
                            continue
                    probs.extend(self._classify(node, par, fn, module, cls, pname, depth))
            if not grown:
                break
        self.memo[key] = probs
        return probs

    def _classify(self, node, par, fn, module, cls, pname, depth):
        ln = node.lineno
        if par is None:
            return [('unknown', 'use without context', ln)]
        # iteration source
        if isinstance(par, (ast.For, ast.AsyncFor)) and par.iter is node:
            return []
        if isinstance(par, ast.comprehension) and par.iter is node:
            return []
        if isinstance(par, ast.Compare):
            return []
        if isinstance(par, (ast.BoolOp, ast.UnaryOp, ast.IfExp)) :
            if isinstance(par, ast.IfExp) and par.test is not node:
                # `X if c else <param>`: the conditional expression stands for the parameter object in its own context
                gp = getattr(par, '_parent', None)
                if (isinstance(gp, (ast.For, ast.AsyncFor)) and gp.iter is par) or (isinstance(gp, ast.comprehension) and gp.iter is par) or isinstance(gp, ast.Compare):
                    return []
                return [('escape', 'parameter object may be returned/bound by a conditional expression', ln)]
            if isinstance(par, ast.BoolOp):
                gp = getattr(par, '_parent', None)
                if isinstance(gp, ast.Assign) and len(gp.targets) == 1 and isinstance(gp.targets[0], ast.Name) and gp.targets[0].id == pname:
                    return []      # `x = x or <fresh default>`: the name keeps denoting the caller's object or a fresh one
                if not isinstance(gp, (ast.If, ast.While, ast.Assert, ast.BoolOp, ast.UnaryOp)):
                    return [('escape', '`x or default` style expression may bind the caller\'s object', ln)]
            return []
        if isinstance(par, (ast.If, ast.While, ast.Assert)):
            return []
        if isinstance(par, ast.Attribute) and par.value is node:
            gp = getattr(par, '_parent', None)
            if isinstance(gp, ast.Call) and gp.func is par:
                if par.attr in MUT_METHODS:
                    return [('mutated', f"{pname}.{par.attr}(...) mutates the caller's object", ln)]
                if par.attr in RO_METHODS:
                    return []
                return [('unknown', f"method {par.attr} not classified", ln)]
            return []
        if isinstance(par, ast.Subscript) and par.value is node:
            if isinstance(par.ctx, (ast.Store, ast.Del)):
                return [('mutated', f"{pname}[...] is assigned/deleted", ln)]
            return []
        if isinstance(par, ast.AugAssign) and par.target is node:
            return [('mutated', f"{pname} {type(par.op).__name__}= ... (in place for lists/dicts)", ln)]
        if isinstance(par, ast.Call):
            if isinstance(par.func, ast.Name) and par.func.id in RO_FUNCS:
                return []
            if isinstance(par.func, ast.Attribute) and isinstance(par.func.value, ast.Attribute) and par.func.value.attr == 'logger':
                return []
            if isinstance(par.func, ast.Attribute) and isinstance(par.func.value, ast.Name) and par.func.value.id == 'logger':
                return []
            tgt = self.resolve_callee(module, cls, par)
            if tgt is None:
                return [('unknown', f"passed to unresolved callee {ast.unparse(par.func)}", ln)]
            cfn = self.program.fn(tgt[0], tgt[1])
            cparams = [a.arg for a in cfn.args.args]
            has_self = cparams and cparams[0] in ('self', 'cls')
            is_static = any(isinstance(d, ast.Name) and d.id == 'staticmethod' for d in cfn.decorator_list)
            off = 1 if (has_self and not is_static) else 0
            target_param = None
            for i, a in enumerate(par.args):
                if a is node and i + off < len(cparams):
                    target_param = cparams[i + off]
            for k in par.keywords:
                if k.value is node:
                    target_param = k.arg
            if target_param is None:
                return [('unknown', f"position in call to {tgt[1]} not resolved", ln)]
            if depth > 6:
                return [('unknown', 'call chain too deep', ln)]
            sub = self.summary(tgt[0], tgt[1], target_param, depth + 1)
            out_ = []
            for k, d, l in sub:
                if k == 'returned':
                    # the callee hands the object back: the call expression stands for it here
                    gp_ = getattr(par, '_parent', None)
                    if isinstance(gp_, ast.Await):
                        gp_ = getattr(gp_, '_parent', None)
                    if isinstance(gp_, ast.Assign) and any(isinstance(x, ast.Attribute) for t in gp_.targets for x in ast.walk(t) if isinstance(x, ast.Attribute) and isinstance(x.ctx, ast.Store)):
                        out_.append(('stored', f"via {tgt[1]}({target_param}), which returns it: stored un-copied into {', '.join(ast.unparse(t) for t in gp_.targets)}", ln))
                    elif isinstance(gp_, ast.Expr):
                        pass
                    else:
                        out_.append(('escape', f"via {tgt[1]}({target_param}): returned and used in {type(gp_).__name__}", ln))
                else:
                    out_.append((k, f"via {tgt[1]}({target_param}): {d}", l))
            return out_
        if isinstance(par, ast.keyword):
            call = getattr(par, '_parent', None)
            if isinstance(call, ast.Call):
                return self._classify(node, call, fn, module, cls, pname, depth)
        if isinstance(par, ast.Assign):
            tg = par.targets
            if any(isinstance(t, ast.Attribute) for t in tg):
                return [('stored', f"stored un-copied into {', '.join(ast.unparse(t) for t in tg)}", ln)]
            return [('alias', f"aliased as {', '.join(ast.unparse(t) for t in tg)}", ln)]
        if isinstance(par, ast.Return):
            return [('returned', 'returned to the caller', ln)]
        if isinstance(par, (ast.Tuple, ast.List)) and isinstance(getattr(par, '_parent', None), ast.Return):
            return [('returned', 'returned to the caller (inside a tuple)', ln)]
        if isinstance(par, (ast.JoinedStr, ast.FormattedValue)):
            return []
        if isinstance(par, (ast.Tuple, ast.List)):
            return [('escape', 'placed in a container', ln)]
        if isinstance(par, ast.Starred):
            return []
        return [('unknown', f"use in {type(par).__name__}", ln)]

def defaults_ro(chk, program, rule='DEFAULTS-RO'):
    pu = ParamUse(program)
    n = 0
    scanned = 0
    for mname in ('decoder', 'encoder', 'message', 'ioclient'):
        m = program.mod(mname)
        for q, fn in m.defs.items():
            scanned += 1
            a = fn.args
            params = a.args
            for p, d in zip(params[len(params) - len(a.defaults):], a.defaults):
                if isinstance(d, (ast.List, ast.Dict, ast.Set)):
                    n += 1
                    probs = pu.summary(mname, q, p.arg)
                    # a witness is a place that edits the shared object or keeps it un-copied in an instance; a use the analysis cannot follow
                    # (handed out, put in a container, an unclassified method) is no verdict
                    unknown = [x for x in probs if x[0] in ('unknown', 'alias', 'escape', 'returned')]
                    bad = [x for x in probs if x[0] in ('mutated', 'stored')]
                    inst = f"{mname}.{q}({p.arg})"
                    if unknown and not bad:
                        chk.unknown(rule, inst, '; '.join(f"{d_} (line {l})" for _, d_, l in unknown), m.rel(), fn.lineno)
                        continue
                    chk.check(not bad, rule, inst, file=m.rel(), line=fn.lineno, func=q, expected='mutable default is only read (iterated, copied, compared), transitively through the callees it is passed to',
                              found=[f"{k}: {d_} (line {l})" for k, d_, l in bad] or 'read-only',
                              detail='' if not bad else 'the object handed in (the caller\'s list, or the default shared by every instance created without that argument) is kept or edited in place: one instance\'s filter edits leak into the next / into the caller')
    chk.unit('mutable_default_parameters', n)
    # replacing mutable defaults by None is an improvement, so the floor is on what was scanned, not on what was found
    chk.floor('functions_scanned_for_mutable_defaults', scanned, 60)

def no_global_write(chk, program, rule='NO-GLOBAL-WRITE'):
    """no function rebinds a module-level name or mutates a module-level container"""
    n = 0
    g = program.gen
    for name, s in g.funcs.items():
        eff = s['effects']
        n += 1
        bad = list(eff['globals']) + [f"{a}.{how}" for a, how, ln in eff['global_mutations']]
        if bad:
            chk.violation(rule, f"pgns.{name}", file='nmea2000/pgns.py', line=s['line'], func=name, expected='generated function writes no module-level state', found=bad,
                          detail='module-level tables are shared by every decoder/encoder instance in the process')
    chk.ok(rule, 'pgns::all-generated-functions', file='nmea2000/pgns.py', line=0, found=f"{n} functions without global/nonlocal writes or mutations of module-level names")
    for mname, m in program.modules.items():
        module_names = set()
        for st in m.tree.body:
            if isinstance(st, ast.Assign):
                for t in st.targets:
                    if isinstance(t, ast.Name):
                        module_names.add(t.id)
            if isinstance(st, ast.AnnAssign) and isinstance(st.target, ast.Name):
                module_names.add(st.target.id)
            if isinstance(st, (ast.Import, ast.ImportFrom)):
                for a in st.names:
                    module_names.add((a.asname or a.name).split('.')[0])
        module_names |= {'master_dict', 'master_flags_dict', 'master_indirect_lookup_dict'} | {t for t in g.tables}
        for q, fn in m.defs.items():
            n += 1
            local = {a.arg for a in fn.args.args + fn.args.kwonlyargs} | {x.id for x in ast.walk(fn) if isinstance(x, ast.Name) and isinstance(x.ctx, ast.Store)}
            globs = set()
            for x in ast.walk(fn):
                if isinstance(x, (ast.Global, ast.Nonlocal)):
                    globs.update(x.names)
            bad = sorted(globs)
            for x in ast.walk(fn):
                root = None; how = None
                if isinstance(x, ast.Call) and isinstance(x.func, ast.Attribute) and x.func.attr in MUT_METHODS:
                    root = x.func.value; how = x.func.attr
                elif isinstance(x, (ast.Subscript, ast.Attribute)) and isinstance(x.ctx, (ast.Store, ast.Del)):
                    root = x.value; how = 'store'
                if root is None:
                    continue
                while isinstance(root, (ast.Attribute, ast.Subscript)):
                    root = root.value
                if isinstance(root, ast.Name) and root.id in module_names and (root.id not in local or root.id in globs) and root.id not in ('self', 'logger', 'logging'):
                    # a method called `clear` / `add` / ... on an object of a class of the package (a value object with such a method) is not a container edit
                    if how != 'store':
                        # the container methods of that name take a fixed number of arguments: a call with another number is a method of some other class
                        arity = {'clear': (0, 0), 'append': (1, 1), 'extend': (1, 1), 'remove': (1, 1), 'pop': (0, 2), 'add': (1, 1), 'discard': (1, 1), 'insert': (2, 2), 'reverse': (0, 0),
                                 'popitem': (0, 1), 'setdefault': (1, 2)}.get(how)
                        if arity is not None and not any(isinstance(a_, ast.Starred) for a_ in x.args) and not (arity[0] <= len(x.args) + len(x.keywords) <= arity[1]):
                            continue
                        from . import absint as A_
                        hit_ = A_.ModuleEnv(m.tree).lookup(root.id)
                        if hit_ is not None and hit_[0] == 'assign' and isinstance(hit_[1], ast.Call) and isinstance(hit_[1].func, (ast.Name, ast.Attribute)):
                            cn_ = hit_[1].func.id if isinstance(hit_[1].func, ast.Name) else (hit_[1].func.value.id if isinstance(hit_[1].func.value, ast.Name) else None)
                            ch_ = hit_[2].lookup(cn_) if cn_ else None
                            if ch_ is not None and ch_[0] == 'class' and any(isinstance(b_, ast.FunctionDef) and b_.name == how for b_ in ch_[1].body):
                                continue
                    bad.append(f"{root.id}.{how}@{x.lineno}")
                if isinstance(root, ast.Call) and isinstance(root.func, ast.Name) and root.func.id == 'globals' and how == 'store':
                    bad.append(f"globals()[...] store@{x.lineno}")
            if bad:
                chk.violation(rule, f"{mname}.{q}", file=m.rel(), line=fn.lineno, func=q, expected='no module-level state written', found=bad)
    chk.ok(rule, 'package::hand-written-functions', file='nmea2000', line=0, found='no global statement, no mutation of a module-level name')
    chk.floor('functions_scanned', n, 1400)

def _mutable_literal(v):
    return isinstance(v, (ast.Dict, ast.List, ast.Set, ast.DictComp, ast.ListComp, ast.SetComp)) or \
        (isinstance(v, ast.Call) and isinstance(v.func, ast.Name) and v.func.id in ('dict', 'list', 'set', 'bytearray', 'defaultdict', 'OrderedDict', 'deque', 'Counter'))

def module_level_mutables(m):
    out = set()
    for n in m.tree.body:
        if isinstance(n, ast.Assign) and _mutable_literal(n.value):
            out |= {t.id for t in n.targets if isinstance(t, ast.Name)}
        elif isinstance(n, ast.AnnAssign) and n.value is not None and _mutable_literal(n.value) and isinstance(n.target, ast.Name):
            out.add(n.target.id)
    return out

def class_level_mutables(cdef):
    out = set()
    for n in cdef.body:
        if isinstance(n, ast.Assign) and _mutable_literal(n.value):
            out |= {t.id for t in n.targets if isinstance(t, ast.Name)}
        elif isinstance(n, ast.AnnAssign) and n.value is not None and _mutable_literal(n.value) and isinstance(n.target, ast.Name):
            out.add(n.target.id)
    return out

def instance_state(chk, program, rule='INSTANCE-STATE'):
    """all decoder / encoder state is created per instance in __init__; nothing else creates instance attributes later except the inventoried ones"""
    for mod, cname, allowed_late in (('decoder', 'NMEA2000Decoder', {'dump_TextIOWrapper'}), ('encoder', 'NMEA2000Encoder', {'sequence_counter'})):
        m = program.mod(mod)
        init = program.fn(mod, f"{cname}.__init__")
        created = {t.attr for n in ast.walk(init) for t in ([n] if isinstance(n, ast.Attribute) else []) if isinstance(t.ctx, ast.Store) and isinstance(t.value, ast.Name) and t.value.id == 'self'}
        for q, fn in m.defs.items():
            if not q.startswith(cname + '.') or q == f"{cname}.__init__":
                continue
            for n in ast.walk(fn):
                if isinstance(n, ast.Attribute) and isinstance(n.ctx, ast.Store) and isinstance(n.value, ast.Name) and n.value.id == 'self':
                    if n.attr in created and n.attr in allowed_late:
                        chk.ok(rule, f"{mod}.{q}::self.{n.attr}", file=m.rel(), line=n.lineno, found=n.attr)
                        continue
                    # a store after construction is per-instance state (whether it may decide results is STATE-DEPS' question); what breaks isolation is
                    # binding the attribute to an object other instances see too: a module-level or class-level object
                    st = getattr(n, '_parent', None)
                    rhs = st.value if isinstance(st, (ast.Assign, ast.AnnAssign)) and st.value is not None else None
                    shared = None
                    if isinstance(rhs, ast.Name) and rhs.id in module_level_mutables(m):
                        shared = f"module-level {rhs.id}"
                    elif isinstance(rhs, ast.Attribute) and isinstance(rhs.ctx, ast.Load) and ast.unparse(rhs.value) in (cname, 'type(self)', 'self.__class__') and rhs.attr in class_level_mutables(program.cls(mod, cname)):
                        shared = f"class-level {ast.unparse(rhs)}"
                    chk.check(shared is None, rule, f"{mod}.{q}::self.{n.attr}", file=m.rel(), line=n.lineno, func=q, expected='instance attributes are bound to objects of the instance (fresh, or handed in by the caller)',
                              found=n.attr if shared is None else f"self.{n.attr} = {shared}: one object for every instance")
        chk.ok(rule, f"{mod}.{cname}::attributes-created-in-__init__", file=m.rel(), line=init.lineno, found=sorted(created))

def state_deps(chk, program, rule='STATE-DEPS'):
    """which instance attributes can influence what the decoder returns: the guards of every return / store in the three decode stages may
    mention only configuration (written in __init__ only) and the two documented pieces of history (source map, reassembly buffers)"""
    from . import sym
    from .rules_filter import stage_events
    HISTORY = {'source_to_iso_name', 'data'}
    init = program.fn('decoder', 'NMEA2000Decoder.__init__')
    config = {n.attr for n in ast.walk(init) if isinstance(n, ast.Attribute) and isinstance(n.ctx, ast.Store) and isinstance(n.value, ast.Name) and n.value.id == 'self'}
    bookkeeping = {'logged_unsupported_pgns', 'dump_TextIOWrapper'}
    m = program.mod('decoder')
    # class-level constants (NAME = <expr> in the class body, never assigned through self anywhere) are configuration as well
    cdef = program.cls('decoder', 'NMEA2000Decoder')
    class_level = {t.id for n in cdef.body if isinstance(n, (ast.Assign, ast.AnnAssign)) for t in (n.targets if isinstance(n, ast.Assign) else [n.target]) if isinstance(t, ast.Name)}
    stored_via_self = {n.attr for q_, f_ in m.defs.items() if q_.startswith('NMEA2000Decoder.') for n in ast.walk(f_)
                       if isinstance(n, ast.Attribute) and isinstance(n.ctx, (ast.Store, ast.Del)) and isinstance(n.value, ast.Name) and n.value.id == 'self'}
    config |= (class_level - stored_via_self)
    # configuration proper: what __init__ derives from its parameters (directly, through locals, or through other such attributes).  An attribute
    # __init__ binds to something fresh ({} / set() / a new object) is the decoder's own state: its two documented pieces are HISTORY.
    derived = set(class_level - stored_via_self)
    tainted = {a.arg for a in init.args.args[1:] + init.args.kwonlyargs}
    def _mentions(v):
        return any((isinstance(x, ast.Name) and x.id in tainted) or
                   (isinstance(x, ast.Attribute) and isinstance(x.value, ast.Name) and x.value.id == 'self' and x.attr in derived and isinstance(x.ctx, ast.Load)) for x in ast.walk(v))
    for _ in range(3):
        for st in ast.walk(init):
            val = tg = None
            if isinstance(st, ast.Assign):
                val, tg = st.value, st.targets
            elif isinstance(st, ast.AnnAssign) and st.value is not None:
                val, tg = st.value, [st.target]
            if val is None or not _mentions(val):
                continue
            for t in tg:
                for x in ast.walk(t):
                    if isinstance(x, ast.Name):
                        tainted.add(x.id)
                    elif isinstance(x, ast.Attribute) and isinstance(x.value, ast.Name) and x.value.id == 'self':
                        derived.add(x.attr)
    own_state = config - derived
    # own state touched after construction (stored, item-assigned, or a method called on it that is not a plain reader)
    READ_ONLY = {'get', 'items', 'keys', 'values', 'copy', 'index', 'count', 'isoformat', 'timestamp', 'lower', 'upper', 'format'}
    touched = set()
    for q_, f_ in m.defs.items():
        if not q_.startswith('NMEA2000Decoder.') or q_ == 'NMEA2000Decoder.__init__':
            continue
        for n in ast.walk(f_):
            if isinstance(n, ast.Attribute) and isinstance(n.value, ast.Name) and n.value.id == 'self' and n.attr in own_state:
                par = getattr(n, '_parent', None)
                if isinstance(n.ctx, (ast.Store, ast.Del)) or (isinstance(par, ast.Subscript) and isinstance(par.ctx, (ast.Store, ast.Del))) or \
                        (isinstance(par, ast.AugAssign) and par.target is n) or \
                        (isinstance(par, ast.Attribute) and (isinstance(par.ctx, (ast.Store, ast.Del)) or
                                                             (isinstance(getattr(par, '_parent', None), ast.Call) and par._parent.func is par and par.attr not in READ_ONLY))):
                    touched.add(n.attr)
    history_present = HISTORY <= own_state
    methods_ = {q_.split('.', 1)[1] for q_ in m.defs if q_.startswith('NMEA2000Decoder.')}
    # (1) configuration is never mutated after construction
    for q, fn in m.defs.items():
        if not q.startswith('NMEA2000Decoder.') or q == 'NMEA2000Decoder.__init__':
            continue
        for n in ast.walk(fn):
            tgt = None; how = None
            if isinstance(n, ast.Call) and isinstance(n.func, ast.Attribute) and n.func.attr in MUT_METHODS and isinstance(n.func.value, ast.Attribute) \
                    and isinstance(n.func.value.value, ast.Name) and n.func.value.value.id == 'self':
                tgt = n.func.value.attr; how = n.func.attr
            if isinstance(n, ast.Subscript) and isinstance(n.ctx, (ast.Store, ast.Del)) and isinstance(n.value, ast.Attribute) and isinstance(n.value.value, ast.Name) and n.value.value.id == 'self':
                tgt = n.value.attr; how = 'item assignment'
            if isinstance(n, ast.AugAssign) and isinstance(n.target, ast.Attribute) and isinstance(n.target.value, ast.Name) and n.target.value.id == 'self':
                tgt = n.target.attr; how = 'augmented assignment'
            if tgt is None or tgt in HISTORY or tgt in bookkeeping:
                continue
            if tgt in own_state:
                continue          # the decoder's own state, not configuration: whether it may decide anything is clause (2)
            chk.check(tgt not in config, rule, f"{q}::self.{tgt}.{how}", file=m.rel(), line=n.lineno, func=q,
                      expected='configuration (filter lists, options) is written by __init__ only', found=f"self.{tgt} modified by {how}",
                      detail='a filter that changes while decoding makes the result of one message depend on the messages seen before it')
    chk.ok(rule, 'configuration-written-in-__init__-only', file=m.rel(), line=init.lineno, found=sorted(config - HISTORY - bookkeeping))
    # (2) bookkeeping state never decides anything
    for qual in ('_decode', '_decode_fast_message', '_call_decode_function'):
        try:
            fn, ex = stage_events(program, qual)
        except AnalysisError:
            raise
        used = {}
        pure_reads = set()
        cls_methods_ = [f_ for q_, f_ in m.defs.items() if q_.startswith('NMEA2000Decoder.') and q_ != 'NMEA2000Decoder.__init__']
        memo_ok = {}
        for a_ in sorted((own_state & touched) - HISTORY - bookkeeping):
            try:
                memo_ok[a_] = _pure_memo_reads(a_, ex.events, derived, cls_methods_)
            except (IndexError, TypeError, KeyError):
                memo_ok[a_] = None
        # what a guard decides: whether None is returned instead of the message, and what is stored.  (A guard that only chooses between two
        # returns of the same message -- e.g. an early `return msg` when no dump file is open -- decides nothing about the result.)
        ret_vals = {e[2] for e in ex.events if e[0] == 'return' and e[2] != sym.NONE}
        for e in ex.events:
            if e[0] == 'return' and e[2] != sym.NONE and len(ret_vals) == 1:
                continue
            if e[0] in ('return', 'store', 'del'):
                # a store into the decoder's own state guarded by a test of that same state (a memo filled when the entry is missing) decides nothing by
                # itself: whether that state decides a result shows where a return, or a store into something else, is guarded by it
                own_target = set()
                if e[0] in ('store', 'del'):
                    own_target = {s_[2] for s_ in sym.walk(e[2]) if s_[0] == 'attr' and s_[1] == ('param', 'self') and s_[2] in own_state and s_[2] in touched
                                  and s_[2] not in HISTORY and s_[2] not in bookkeeping}
                for gterm in e[1]:
                    for s_ in sym.walk(gterm):
                        if s_[0] == 'attr' and s_[1] == ('param', 'self') and s_[2] not in own_target:
                            if memo_ok.get(s_[2]) is not None and memo_ok[s_[2]](gterm):
                                pure_reads.add(s_[2])          # read only as `f(K) if the memo has no K else memo[K]`: the value is f(K) either way
                                continue
                            used.setdefault(s_[2], e[-1])
        for a in sorted(pure_reads - set(used)):
            chk.ok(rule, f"{qual}::memo-of-a-function-of-its-key::self.{a}", file=m.rel(), line=fn.lineno, func=qual,
                   found=f"self.{a} is written only as self.{a}[K] = f(K) and read only as `f(K) if missing else self.{a}[K]`")
        for a, ln in sorted(used.items()):
            if a in own_state and a in touched and a not in HISTORY and a not in bookkeeping:
                if history_present:
                    chk.check(False, rule, f"{qual}::depends-on::self.{a}", file=m.rel(), line=ln, func=qual,
                              expected='what is returned depends only on the configuration, the source map and the reassembly buffers', found=f"a guard reads self.{a}, state changed while decoding",
                              detail='state besides the source map and the reassembly buffers decides whether a message is returned: an ignored or rejected input changes later results')
                else:
                    chk.unknown(rule, f"{qual}::depends-on::self.{a}", f"self.{a} is state changed while decoding and read by a guard; the documented state attributes {sorted(HISTORY - own_state)} "
                                "are gone, so it may be their new home: not decided", m.rel(), ln)
                continue
            ok = (a in config and a not in bookkeeping) or a in HISTORY or a in ('_isFastPGN', '_log_unsupported_pgn_once', '_decode_fast_message', '_call_decode_function') or \
                (a in methods_ and a not in bookkeeping)          # a method called in a guard: what it reads is followed when it is walked in place
            chk.check(ok, rule, f"{qual}::depends-on::self.{a}", file=m.rel(), line=ln, func=qual,
                      expected='what is returned depends only on the configuration, the source map and the reassembly buffers', found=f"a guard reads self.{a}",
                      detail='' if ok else 'state kept for logging / bookkeeping now decides whether a message is returned: an ignored or rejected input changes later results')

def _pure_memo_reads(a, events, derived, cls_methods):
    """self.<a> is a memo of a function of its key: every write in the class is `self.a[K] = V` seen by the symbolic walk, V and the store's guards
    (the test of the memo itself aside) are built from K's components, configuration and module-level names only, and every other read of self.a in a
    guard sits in `V if self.a.get(K) is None else self.a.get(K)` (or the `is not None` / `in` spellings) with that same K and V -- which is V whatever
    the memo holds.  -> the function that says whether a guard's reads of self.a are all of that kind, or None when self.a is not such a memo"""
    from . import sym
    A_ = ('attr', ('param', 'self'), a)
    READ_ONLY = {'get', 'items', 'keys', 'values', 'copy'}
    sites = set()
    for f_ in cls_methods:
        for n in ast.walk(f_):
            if isinstance(n, ast.Attribute) and isinstance(n.value, ast.Name) and n.value.id == 'self' and n.attr == a:
                par = getattr(n, '_parent', None)
                if isinstance(n.ctx, (ast.Store, ast.Del)) or (isinstance(par, ast.AugAssign) and par.target is n):
                    return None
                if isinstance(par, ast.Subscript) and isinstance(par.ctx, ast.Del):
                    return None
                if isinstance(par, ast.Subscript) and isinstance(par.ctx, ast.Store):
                    sites.add(par.lineno)
                if isinstance(par, ast.Attribute) and (isinstance(par.ctx, (ast.Store, ast.Del)) or
                                                       (isinstance(getattr(par, '_parent', None), ast.Call) and par._parent.func is par and par.attr not in READ_ONLY)):
                    return None
    stores = [e for e in events if e[0] in ('store', 'del') and any(s_ == A_ for s_ in sym.walk(e[2]))]
    if not stores or not sites or not sites <= {e[-1] for e in stores}:
        return None
    memo = {}
    for e in stores:
        if e[0] != 'store' or not (e[2][0] == 'sub' and e[2][1] == A_):
            return None
        K, V = e[2][2], e[3]
        atoms = [K] + ([x for x in (K[1] if len(K) == 2 and isinstance(K[1], tuple) and (not K[1] or not isinstance(K[1][0], str)) else K[1:]) if isinstance(x, tuple)] if K[0] == 'tuple' else [])
        def covered(t, allow_self):
            if t in atoms:
                return True
            if not isinstance(t, tuple) or not t:
                return True
            rest = t
            if isinstance(t[0], str):
                if t[0] == 'param':
                    return False
                if t[0] == 'attr' and t[1] == ('param', 'self'):
                    return t[2] in derived or (allow_self and t[2] == a)
                rest = t[1:]
            return all(covered(x, allow_self) for x in rest if isinstance(x, tuple))
        if not covered(V, False) or not all(covered(g, True) for g in e[1]):
            return None
        if memo.setdefault(K, V) != V:
            return None
    def is_read(t, K):
        return (t[0] == 'sub' and t[1] == A_ and t[2] == K) or (t[0] == 'call' and t[1] == ('attr', A_, 'get') and len(t[2]) >= 1 and t[2][0] == K and
                                                               (len(t[2]) == 1 or t[2][1] == sym.NONE) and not t[3])
    def ok(t):
        if not isinstance(t, tuple) or not t:
            return True
        if t == A_:
            return False
        if isinstance(t[0], str) and t[0] == 'ite':
            c, x, y = t[1], t[2], t[3]
            for K, V in memo.items():
                if c[0] == 'cmp' and c[1] == 'is' and c[3] == sym.NONE and is_read(c[2], K) and x == V and is_read(y, K):
                    return True
                if c[0] == 'cmp' and c[1] == 'is not' and c[3] == sym.NONE and is_read(c[2], K) and y == V and is_read(x, K):
                    return True
                if c[0] == 'cmp' and c[1] == 'not in' and c[2] == K and c[3] == A_ and x == V and is_read(y, K):
                    return True
                if c[0] == 'cmp' and c[1] == 'in' and c[2] == K and c[3] == A_ and y == V and is_read(x, K):
                    return True
        return all(ok(x) for x in (t[1:] if isinstance(t[0], str) else t) if isinstance(x, tuple))
    return ok

def no_decorators(chk, program, rule='FRESH-MSG'):
    """generated decode/encode functions carry no decorator: a caching decorator (lru_cache) would hand the same message object to every caller"""
    g = program.gen
    n = 0
    for name, s in g.funcs.items():
        if name.startswith(('decode_pgn_', 'encode_pgn_', 'is_fast_pgn_', 'lookup_encode_')):
            n += 1
            if s.get('decorators', 0):
                chk.violation(rule, f"pgns.{name}::decorated", file='nmea2000/pgns.py', line=s['line'], func=name, expected='no decorator on a generated function', found=f"{s['decorators']} decorator(s)",
                              detail='a memoising decorator returns one shared message object for equal payloads: add_data / unit conversion of one decode show up in another decoder\'s result')
    chk.ok(rule, 'pgns::undecorated', file='nmea2000/pgns.py', line=0, found=f"{n} generated functions scanned")
    # hand-written modules: a memoising decorator (lru_cache / cache) on a function that returns decoded messages -- what a generated decoder
    # returns, or a message it builds -- hands one object (or one list of field objects) to several callers
    for mname in ('decoder', 'message', 'utils', 'encoder'):
        if mname not in program.modules:
            continue
        m = program.modules[mname]
        tree = getattr(m, 'raw_tree', m.tree)
        for fn in [n_ for n_ in ast.walk(tree) if isinstance(n_, (ast.FunctionDef, ast.AsyncFunctionDef))]:
            memo = [d for d in fn.decorator_list if any(isinstance(x, (ast.Name, ast.Attribute)) and (getattr(x, 'id', None) in ('lru_cache', 'cache', 'cached_property') or getattr(x, 'attr', None) in ('lru_cache', 'cache'))
                                                        for x in ast.walk(d))]
            if not memo:
                continue
            hands_out = False
            for c in ast.walk(fn):
                if isinstance(c, ast.Call):
                    f = c.func
                    nm = f.id if isinstance(f, ast.Name) else (f.attr if isinstance(f, ast.Attribute) else '')
                    if nm.startswith(('decode_pgn_', 'decode_func')) or nm in ('NMEA2000Message', 'NMEA2000Field', 'decode_func', '_call_decode_function') or \
                            (isinstance(f, ast.Call) or isinstance(f, ast.Subscript)) and 'globals' in ast.unparse(f):
                        hands_out = True
                    if isinstance(f, ast.Name) and any(isinstance(a_, ast.Assign) and any(isinstance(t_, ast.Name) and t_.id == f.id for t_ in a_.targets) and 'globals' in ast.unparse(a_.value)
                                                       for a_ in ast.walk(fn)):
                        hands_out = True
            chk.check(not hands_out, rule, f"{mname}.{fn.name}::memoised", file=m.rel(), line=fn.lineno, func=fn.name, expected='no memoising decorator on a function that returns decoded messages',
                      found='memoised' if hands_out else 'memoised, returns no message', detail='' if not hands_out else
                      'equal payloads get one shared message / shared field objects: add_data, unit conversion or a caller\'s edit of one result shows up in the next (also across decoder instances)')
