def help_dec(chk, program): pass
