"""rules_help.py -- the hand-written helpers of utils.py, specialised at database constants.

Partial evaluation (sym.SymExec with parameters bound to literals, helper-of-helper
calls inlined) turns e.g. decode_number(D, 16, 16, True, 0.001, -32.767, 32.765) into a short
decision list over the one symbolic input.  The list is canonicalised (Extract terms,
sign-extension idioms, commutative operands sorted) and compared row by row with the rows the
database field prescribes.  Constant folding only -- nothing is solved or executed.

Rules: HELP-DEC, NA-RANGE (C01); SENT-AGREE, SIGN-AGREE (C02); ENC-RANGE, ENC-NA (C09);
HELP-SIB (sibling agreement of date/time/float helpers).
"""
from __future__ import annotations

import ast

from . import sym
from .sym import C, NONE, show
from .model import AnalysisError
from .dbspec import NUMBER_LIKE

UT = 'nmea2000/utils.py'
COMM = {'*', '+', '&', '|', '^'}

def cn(t):
    """canonical form: commutative operands sorted, a>b -> b<a, a>=b -> b<=a"""
    if not isinstance(t, tuple) or not t or not isinstance(t[0], str):
        return t
    k = t[0]
    if k in ('const', 'name', 'param'):
        return t
    if k == 'binop':
        a, b = cn(t[2]), cn(t[3])
        if t[1] in COMM and repr(b) < repr(a):
            a, b = b, a
        r = sym.fold_bin(t[1], a, b)
        return r
    if k == 'cmp':
        a, b = cn(t[2]), cn(t[3])
        op = t[1]
        if op == '>':
            op, a, b = '<', b, a
        elif op == '>=':
            op, a, b = '<=', b, a
        if op in ('==', '!=') and repr(b) < repr(a):
            a, b = b, a
        return sym.fold_cmp(op, a, b)
    if k == 'unop':
        x = cn(t[2])
        if t[1] == 'not':
            return sym.mk_not(x)
        return ('unop', t[1], x)
    if k == 'bool':
        return ('bool', t[1], tuple(cn(x) for x in t[2]))
    if k == 'ite':
        return sym.mk_ite(cn(t[1]), cn(t[2]), cn(t[3]))
    if k == 'call':
        return ('call', cn(t[1]), tuple(cn(a) for a in t[2]), tuple((n, cn(v)) for n, v in t[3]))
    if k == 'attr':
        return ('attr', cn(t[1]), t[2])
    if k == 'sub':
        return ('sub', cn(t[1]), cn(t[2]))
    return t

def subst(t, mapping):
    """replace sub-terms (exact match) bottom-up"""
    if not isinstance(t, tuple) or not t or not isinstance(t[0], str):
        return t
    if t in mapping:
        return mapping[t]
    k = t[0]
    if k in ('const', 'name', 'param'):
        return t
    out = [k]
    for x in t[1:]:
        if isinstance(x, tuple) and x and isinstance(x[0], str):
            out.append(subst(x, mapping))
        elif isinstance(x, tuple):
            out.append(tuple(subst(y, mapping) if isinstance(y, tuple) and y and isinstance(y[0], str) else
                             (tuple(subst(z, mapping) if isinstance(z, tuple) and z and isinstance(z[0], str) else z for z in y) if isinstance(y, tuple) else y) for y in x))
        else:
            out.append(x)
    r = tuple(out)
    return mapping.get(r, r)

def helpers(program):
    u = program.mod('utils')
    return {k: v for k, v in u.defs.items() if '.' not in k}

_res_cache = {}
_LAST_PROGRAM = [None]
_MUTATORS = ('update', 'setdefault', 'pop', 'popitem', 'clear', 'append', 'extend', 'insert', 'remove', 'add', 'discard', 'sort', 'reverse', '__setitem__', '__delitem__')

def module_constants(program, mod='utils'):
    """module-level names of utils bound once to a constant expression (numbers, strings, tuples / lists / dicts / sets of them, arithmetic on them,
    earlier constants) and never written, deleted or mutated anywhere in the module: name -> Python value.  They are read by the point evaluation
    of a helper's residual (a table a helper looks its scale up in is part of what the helper computes)."""
    cache = getattr(program, '_n2k_module_constants', None)
    if cache is None:
        cache = program._n2k_module_constants = {}
    if mod in cache:
        return cache[mod]
    tree = program.mod(mod).tree
    out = {}
    def cev(n):
        if isinstance(n, ast.Constant):
            return n.value
        if isinstance(n, ast.Name) and n.id in out:
            return out[n.id]
        if isinstance(n, ast.UnaryOp) and isinstance(n.op, (ast.USub, ast.UAdd, ast.Invert)):
            v = cev(n.operand)
            return -v if isinstance(n.op, ast.USub) else (+v if isinstance(n.op, ast.UAdd) else ~v)
        if isinstance(n, ast.BinOp):
            import operator as O
            ops = {ast.Add: O.add, ast.Sub: O.sub, ast.Mult: O.mul, ast.Div: O.truediv, ast.FloorDiv: O.floordiv, ast.Mod: O.mod, ast.Pow: O.pow, ast.LShift: O.lshift,
                   ast.RShift: O.rshift, ast.BitOr: O.or_, ast.BitAnd: O.and_, ast.BitXor: O.xor}
            if type(n.op) not in ops:
                raise ValueError
            a, b = cev(n.left), cev(n.right)
            if isinstance(n.op, (ast.Pow, ast.LShift)) and isinstance(b, (int, float)) and abs(b) > 4096:
                raise ValueError
            return ops[type(n.op)](a, b)
        if isinstance(n, ast.Tuple):
            return tuple(cev(e) for e in n.elts)
        if isinstance(n, ast.List):
            return [cev(e) for e in n.elts]
        if isinstance(n, ast.Set):
            return {cev(e) for e in n.elts}
        if isinstance(n, ast.Dict):
            if any(k is None for k in n.keys):
                raise ValueError
            return {cev(k): cev(v) for k, v in zip(n.keys, n.values)}
        raise ValueError
    stores = {}
    for n in ast.walk(tree):
        if isinstance(n, ast.Name) and isinstance(n.ctx, (ast.Store, ast.Del)):
            stores[n.id] = stores.get(n.id, 0) + 1
    touched = set()
    for n in ast.walk(tree):
        if isinstance(n, (ast.Subscript, ast.Attribute)) and isinstance(n.ctx, (ast.Store, ast.Del)) and isinstance(n.value, ast.Name):
            touched.add(n.value.id)
        if isinstance(n, ast.Call) and isinstance(n.func, ast.Attribute) and n.func.attr in _MUTATORS and isinstance(n.func.value, ast.Name):
            touched.add(n.func.value.id)
        if isinstance(n, ast.AugAssign) and isinstance(n.target, ast.Name):
            touched.add(n.target.id)
        if isinstance(n, (ast.Global, ast.Nonlocal)):
            touched.update(n.names)
    for st in tree.body:
        tgt = val = None
        if isinstance(st, ast.Assign) and len(st.targets) == 1 and isinstance(st.targets[0], ast.Name):
            tgt, val = st.targets[0].id, st.value
        elif isinstance(st, ast.AnnAssign) and isinstance(st.target, ast.Name) and st.value is not None:
            tgt, val = st.target.id, st.value
        if tgt is None or stores.get(tgt, 0) != 1 or tgt in touched:
            continue
        try:
            out[tgt] = cev(val)
        except (ValueError, TypeError, ZeroDivisionError, OverflowError, KeyError):
            continue
    cache[mod] = out
    return out

def residual(program, name, bind):
    _LAST_PROGRAM[0] = program
    key = (id(program), name, tuple(sorted(bind.items())))
    if key in _res_cache:
        return _res_cache[key]
    hs = helpers(program)
    if name not in hs:
        raise AnalysisError(f"anchor utils.{name} vanished")
    fn = hs[name]
    params = [a.arg for a in fn.args.args]
    for p in bind:
        if p not in params:
            raise AnalysisError(f"anchor utils.{name} no longer has a parameter {p}")
    ex = sym.SymExec(fn, bind=bind, inline=hs)
    try:
        ex.run()
    except sym.Unsupported as u:
        raise AnalysisError(f"utils.{name}: {u}")
    rows = []
    for ev in ex.events:
        if ev[0] in ('return', 'raise'):
            rows.append((ev[0], tuple(cn(g) for g in sym.conj(ev[1])), cn(ev[2]), ev[-1]))
        elif ev[0] == 'assert':
            rows.append(('assert', tuple(cn(g) for g in sym.conj(ev[1])), cn(ev[2]), ev[-1]))
    _res_cache[key] = rows
    return rows

D = ('param', '$D')
OFF = ('param', '$OFF')
R = ('name', '$R')        # Extract(D, off, n)
S = ('name', '$S')        # sign-extended R
V = ('param', '$V')
Q = ('name', '$Q')        # rounded quotient

_KNOWN_CALLS = {'int', 'round', 'len', 'str', 'bytes', 'bool', 'float', 'abs', 'min', 'max', 'divmod', 'isinstance', 'ValueError', 'TypeError', 'Exception', 'OverflowError',
                'isclose', 'date', 'time', 'timedelta', 'datetime', 'range', 'tuple', 'list', 'pow', 'sum', 'bytearray', 'hex', 'format', 'repr', 'type', 'sorted', 'reversed', 'any', 'all'}
_KNOWN_ROOTS = {'math', 'struct', 'int', 'datetime', 'date', 'time', 'timedelta', 'binascii', 'float', 'str', 'bytes', 'logger', 'logging', 'operator', 'itertools', 'functools'}

def unfollowed(t):
    """what in a residual term was not followed by the partial evaluator: a call of a function that is neither a builtin nor a standard-library name, or a
    module-level name left standing (a table, an object of another module).  A reading that fails on such a term has read nothing: it is no verdict."""
    out = []
    for s_ in sym.walk(t):
        if s_[0] == 'call':
            f = s_[1]
            if f[0] == 'name' and not f[1].startswith('$') and f[1] not in _KNOWN_CALLS:
                out.append(f[1] + '()')
            elif f[0] == 'attr':
                b = f[1]
                while b[0] in ('attr', 'sub'):
                    b = b[1]
                if b[0] == 'call' and b[1][0] == 'name' and b[1][1] not in _KNOWN_CALLS:
                    out.append(b[1][1] + '()')
                elif b[0] == 'name' and not b[1].startswith('$') and b[1] not in _KNOWN_ROOTS:
                    out.append(b[1])
        elif s_[0] in ('sub', 'attr') and s_[1][0] == 'name' and not s_[1][1].startswith('$') and s_[1][1] not in _KNOWN_ROOTS:
            out.append(s_[1][1])
    return sorted(set(out))

def rows_unfollowed(rows):
    out = []
    for r in rows:
        for t in list(r[1]) + [r[2]]:
            if isinstance(t, tuple):
                out += unfollowed(t)
    return sorted(set(out))

def extract_forms(off, n):
    mask = (1 << n) - 1
    sh = D if off == C(0) else ('binop', '>>', D, off)
    forms = [('binop', '&', sh, C(mask)), ('binop', '&', C(mask), sh), ('binop', '%', sh, C(1 << n))]
    if off == C(0):
        sh2 = ('binop', '>>', D, C(0))
        forms += [('binop', '&', sh2, C(mask)), ('binop', '&', C(mask), sh2)]
    return [cn(f) for f in forms]

def sign_forms(n):
    sb = 1 << (n - 1)
    conds = [('cmp', '!=', ('binop', '&', R, C(sb)), C(0)), ('binop', '&', R, C(sb)), ('cmp', '>=', R, C(sb)), ('cmp', '>', R, C(sb - 1)),
             ('cmp', '==', ('binop', '&', R, C(sb)), C(sb)), ('cmp', '!=', ('binop', '>>', R, C(n - 1)), C(0))]
    out = []
    for c in conds:
        out.append(cn(('ite', c, ('binop', '-', R, C(1 << n)), R)))
    out.append(cn(('binop', '-', ('binop', '^', R, C(sb)), C(sb))))
    return out

def norm_rows(rows, mapping_stages):
    out = rows
    for mp in mapping_stages:
        out = [(k, tuple(cn(subst(g, mp)) for g in gs), cn(subst(v, mp)), ln) for (k, gs, v, ln) in out]
    return out

def _exc_name(t):
    if t[0] == 'call' and t[1][0] == 'name':
        return t[1][1]
    if t[0] == 'name':
        return t[1]
    return '?'

def number_tuples(db):
    """distinct (n, signed, res, min, max, offset?) of decode_number call sites prescribed by the database, with the fields using them"""
    out = {}
    for d in db.defs:
        fields, _ = d.supported_prefix()
        for f in fields:
            if f.type in NUMBER_LIKE or f.type in ('TIME', 'DATE'):
                if f.bit_length is None:
                    continue
                key = (f.bit_length, f.signed, f.resolution, f.range_min, f.range_max)
                out.setdefault(key, []).append((d, f))
    return out

def expected_na(n, signed):
    return (1 << (n - 1)) - 1 if signed else (1 << n) - 1

def na_in_db_range(n, signed, res, rmax, offset=None):
    """the database declares the all-ones / max-positive code a valid value (only decided for exact, integer-valued resolutions)"""
    if rmax is None or res is None:
        return False
    if not (isinstance(res, int) or (isinstance(res, float) and res.is_integer())):
        return False
    na = expected_na(n, signed)
    return na * int(res) + (offset or 0) <= rmax

def _eval_rows(rows, params):
    """first row (program order) whose guards hold under the concrete parameter values -> ('return', value) | ('raise', name) | ('fall',)"""
    import math
    from . import teval
    def calls(ev, t):
        f = t[1]
        args = [ev(a, m) for a in t[2]]
        kw = {k: ev(v, m) for k, v in (t[3] if len(t) > 3 and t[3] else ())}
        name = show(f)
        if name == 'math.isclose': return math.isclose(*args, **kw)
        if name in ('abs', 'round', 'float', 'min', 'max', 'int', 'bool'):
            return {'abs': abs, 'round': round, 'float': float, 'min': min, 'max': max, 'int': int, 'bool': bool}[name](*args, **kw)
        if name in ('math.floor', 'math.ceil', 'math.trunc', 'math.fabs', 'math.degrees', 'math.radians', 'math.sqrt', 'math.copysign', 'math.isnan', 'math.isinf', 'math.isfinite'):
            return getattr(math, name.split('.')[1])(*args)
        if f[0] == 'attr' and f[2] == 'bit_length' and not args:
            return ev(f[1], m).bit_length()
        if f[0] == 'attr' and f[2] == 'to_bytes':
            try:
                return ev(f[1], m).to_bytes(*args, **kw)
            except (OverflowError, ValueError, TypeError, AttributeError) as e_:
                raise teval.EvalUnknown(f"to_bytes: {e_}")
        if name == 'int.from_bytes':
            try:
                return int.from_bytes(*args, **kw)
            except (ValueError, TypeError) as e_:
                raise teval.EvalUnknown(f"from_bytes: {e_}")
        if name in ('len', 'bytes', 'str'):
            return {'len': len, 'bytes': bytes, 'str': str}[name](*args, **kw)
        if f[0] == 'attr' and f[2] == 'get' and 1 <= len(args) <= 2 and not kw:
            o = ev(f[1], m)
            if isinstance(o, dict):          # a constant table of the module (module_constants)
                try:
                    return o.get(*args)
                except TypeError as e_:
                    raise teval.EvalUnknown(f"get: {e_}")
        raise teval.EvalUnknown(name)
    names = teval_names()
    if _LAST_PROGRAM[0] is not None:
        try:
            for k_, v_ in module_constants(_LAST_PROGRAM[0]).items():
                names.setdefault(k_, v_)
        except (AnalysisError, KeyError, AttributeError):
            pass
    m = teval.Model(params=params, names=names, calls=calls)
    for (k, gs, v, ln) in rows:
        if k not in ('return', 'raise'):
            continue
        if all(teval.ev(g, m) for g in gs):
            if k == 'raise':
                return ('raise', _exc_name(v))
            return ('return', teval.ev(v, m))
    return ('fall',)

def teval_names():
    from . import teval
    class N(dict):
        pass
    n = N({'$': 0})
    return n

def dec_number_points(program, n, signed, res, rmin, rmax):
    """decode_number decided on points: its residual for this field shape (terms, never repository code) is evaluated at every raw value
    near a place where the statement changes its answer -- 0, the sign boundary, the not-available code, all-ones, the range ends and the float
    tolerance band around them -- at all raw values of fields up to 12 bits, and at 257 evenly spaced ones; at two bit offsets with other
    bits of the payload set.  -> (problems, edge problems, points) ; raises teval.EvalUnknown / AnalysisError when the residual cannot be evaluated"""
    import math
    half = 1 << (n - 1)
    top = (1 << n) - 1
    na = expected_na(n, signed)
    def s_of(q):
        return q - (1 << n) if signed and q >= half else q
    def q_of(s_):
        return s_ + (1 << n) if s_ < 0 else s_
    lo_raw = -half if signed else 0
    hi_raw = half - 1 if signed else top
    kmin, kmax = round(rmin / res), round(rmax / res)
    pts = set()
    for p_ in (0, half - 1, half, top, q_of(na) if lo_raw <= na <= hi_raw else 0):
        for d_ in range(-3, 4):
            pts.add(p_ + d_)
    for k_ in (kmin, kmax):
        for d_ in list(range(-3, 4)) + [-(abs(k_) >> 38) - 1, (abs(k_) >> 38) + 1, -(abs(k_) >> 36), (abs(k_) >> 36), -(abs(k_) >> 30), (abs(k_) >> 30)]:
            if lo_raw <= k_ + d_ <= hi_raw:
                pts.add(q_of(k_ + d_))
    if n <= 12:
        pts |= set(range(0, top + 1))
    else:
        pts |= {(top * i) // 256 for i in range(257)}
    pts = sorted(q for q in pts if 0 <= q <= top)
    problems, edges = [], []
    for off in (0, 5):
        rows = residual(program, 'decode_number', {'data_raw': D, 'bit_offset': C(off), 'bit_length': C(n), 'signed': C(signed), 'resolution': C(res), 'min_value': C(rmin), 'max_value': C(rmax)})
        for q in pts:
            data = (q << off) | ((1 << off) - 1) | (0b101 << (n + off))
            got = _eval_rows(rows, {'$D': data})
            s_ = s_of(q)
            if n >= 2 and s_ == na:
                want = ('return', None)
                ok_ = got == want
            else:
                val = s_ * res
                below = val < rmin and not math.isclose(val, rmin, rel_tol=1e-9) and s_ <= kmin - 1 and abs(val - rmin) > abs(res) * 0.5
                above = val > rmax and not math.isclose(val, rmax, rel_tol=1e-9) and s_ >= kmax + 1 and abs(val - rmax) > abs(res) * 0.5
                on_min = abs(kmin * res - rmin) <= abs(res) * 1e-6
                on_max = abs(kmax * res - rmax) <= abs(res) * 1e-6
                inside = (rmin <= val <= rmax) or (s_ == kmin and on_min) or (s_ == kmax and on_max)
                if not inside and not ((below and (not on_min or s_ <= kmin - 1)) or (above and (not on_max or s_ >= kmax + 1))):
                    continue
                if (below or above) and ((below and not on_min and s_ == kmin - 0 and False)):
                    continue
                if below or above:
                    want = ('raise', 'ValueError'); ok_ = got == want
                elif inside:
                    want = ('return', val)
                    ok_ = got[0] == 'return' and got[1] is not None and not isinstance(got[1], bool) and isinstance(got[1], (int, float)) and (got[1] == val or math.isclose(got[1], val, rel_tol=1e-12))
                    if not ok_ and s_ in (kmin, kmax) and got == ('raise', 'ValueError'):
                        edges.append(f"raw {s_} -> {val!r} is rejected although the range end is {rmin if s_ == kmin else rmax}")
                        continue
                else:
                    continue
            if not ok_:
                problems.append(f"raw field value {q} (as a number: {s_}) at bit offset {off}: {'None' if want == ('return', None) else want[1] if want[0] == 'return' else 'ValueError'} expected, "
                                f"{got[1] if got[0] == 'return' else got[-1] if got[0] == 'raise' else 'no result'} found")
                if len(problems) >= 4:
                    return problems, edges, len(pts) * 2
    return problems, sorted(set(edges)), len(pts) * 2

def help_dec(chk, program, rule='HELP-DEC'):
    db = program.db
    tuples = number_tuples(db)
    nres = 0
    for (n, signed, res, rmin, rmax), users in sorted(tuples.items(), key=lambda kv: repr(kv[0])):
        if None in (res, rmin, rmax):
            chk.violation(rule, f"decode_number@{(n, signed, res, rmin, rmax)}", file='canboat.json', line=0,
                          expected='Resolution, RangeMin, RangeMax present', found='missing', detail=f"{users[0][0].key}:{users[0][1].dbid}")
            continue
        bind = {'data_raw': D, 'bit_offset': OFF, 'bit_length': C(n), 'signed': C(signed), 'resolution': C(res), 'min_value': C(rmin), 'max_value': C(rmax)}
        rows = residual(program, 'decode_number', bind)
        nres += 1
        inst = f"decode_number@bits={n},signed={signed},res={res},range=[{rmin},{rmax}]"
        users_s = f"{len(users)} fields, e.g. {users[0][0].key}:{users[0][1].dbid}"
        # stage 1: Extract
        mp1 = {f: R for f in extract_forms(OFF, n)}
        r1 = norm_rows(rows, [mp1])
        if signed:
            mp2 = {f: S for f in sign_forms(n)}
            r1 = norm_rows(r1, [mp2])
        X = S if signed else R
        line = rows[0][3] if rows else 0
        # the raw term must be exactly the field's bits: after the rewriting no D may remain; a spelling of the extraction or of the sign
        # extension that is not read here is decided on points below
        leftover = [show(v) for (_, gs, v, _) in r1 for t in (list(gs) + [v]) for s_ in sym.walk(t) if s_ == D]
        unread = bool(leftover) or (signed and any(s_ == R for (_, gs, v, _) in r1 for t in (list(gs) + [v]) for s_ in sym.walk(t))) or \
            (not signed and any(s_ == S for (_, gs, v, _) in r1 for t in (list(gs) + [v]) for s_ in sym.walk(t)))
        scaled_forms = {cn(('binop', '*', X, C(res)))}
        SC = ('name', '$SCALED')
        r2 = norm_rows(r1, [{f: SC for f in scaled_forms}])
        na = expected_na(n, signed)
        in_range = na_in_db_range(n, signed, res, rmax, users[0][1].offset)
        # expected decision list
        na_cond = cn(('cmp', '==', X, C(na)))
        exp = []
        pre = ()
        if n >= 2:
            exp.append(('return', (na_cond,), NONE))
            pre = (sym.mk_not(na_cond),)
        got = [(k, gs, (_exc_name(v) if k == 'raise' else v)) for (k, gs, v, _) in r2 if k in ('return', 'raise')]
        # the two range rows may carry a float-rounding allowance; they are parsed, validated and then evaluated at the range ends
        shape_ok = len(got) == len(pre) + 3 and (not pre or got[0] == ('return', (na_cond,), NONE))
        lowp = highp = None
        if shape_ok:
            rows3 = got[len(pre):]
            g_lo = [x for x in rows3[0][1] if x not in pre]
            g_hi = [x for x in rows3[1][1] if x not in pre]
            g_ret = [x for x in rows3[2][1] if x not in pre]
            def as_term(lst):
                return lst[0] if len(lst) == 1 else ('bool', 'and', tuple(lst))
            if rows3[0][0] == 'raise' and rows3[1][0] == 'raise' and rows3[0][2] == 'ValueError' and rows3[1][2] == 'ValueError' and 1 <= len(g_lo) <= 2 and 2 <= len(g_hi) <= 3 \
                    and rows3[2][0] == 'return' and rows3[2][2] == SC:
                low_t = as_term(g_lo)
                high_t = as_term(g_hi[1:])
                lowp = _bound_pred(low_t, SC, 'low')
                highp = _bound_pred(high_t, SC, 'high')
                shape_ok = lowp is not None and highp is not None and g_hi[0] == sym.mk_not(low_t) and g_ret == [sym.mk_not(low_t), sym.mk_not(high_t)]
            else:
                shape_ok = False
        exp = [('return', (na_cond,), NONE)] if pre else []
        exp += [('raise', 'scaled < RangeMin', 'ValueError'), ('raise', 'scaled > RangeMax', 'ValueError'), ('return', 'otherwise', 'scaled')]
        ok = bool(shape_ok) and not unread
        if ok:
            # thresholds: rejecting exactly the grid points outside [RangeMin, RangeMax]
            ok = lowp['bound_ok'](rmin, res) and highp['bound_ok'](rmax, res)
        if not ok and n < 2 and not unread:
            # a 1-bit field has no not-available code in the database's convention
            got_na = [g for g in got if g[0] == 'return' and g[2] == NONE]
            if got_na:
                chk.violation(rule, f"{inst}::na-1bit", file=UT, line=line, func='decode_number',
                              expected='a 1-bit field has no not-available code: both values are data', found=f"value {show(got_na[0][1][0])} reported as None",
                              detail=users_s)
                continue
        sem_edges = None
        if not ok:
            # the decision list is not of the spelling read above: decided on points instead (an alarm needs a raw value that decodes wrongly)
            from . import teval
            try:
                probs, sem_edges, npts = dec_number_points(program, n, signed, res, rmin, rmax)
            except (teval.EvalUnknown, KeyError, TypeError, ZeroDivisionError, OverflowError) as u_:
                chk.unknown(rule, inst, f"decode_number residual neither of the recognised decision-list form nor evaluable: {u_}", UT, line)
                continue
            chk.unit('decode_number_decided_on_points', 1)
            chk.check(not probs, rule, inst, file=UT, line=line, func='decode_number', expected=[str(r) for r in exp], found=probs or f"agrees on {npts} raw values around every boundary",
                      detail=users_s)
            ok = not probs
            if ok:
                chk.check(not sem_edges, 'RANGE-EDGE', inst, file=UT, line=line, func='decode_number',
                          expected='the raw values at RangeMin and RangeMax decode; one step beyond either end raises', found=sem_edges or 'ok', detail=users_s)
        else:
            chk.check(ok, rule, inst, file=UT, line=line, func='decode_number',
                      expected=[str(r) for r in exp], found=[_row_s(r) for r in got],
                      detail=('' if ok else 'residual decision list differs from the database rows; ') + users_s)
        if ok and sem_edges is None:
            # RANGE-EDGE: the range ends themselves are accepted, the next grid point outside is rejected (constant evaluation in float arithmetic)
            kmin, kmax = round(rmin / res), round(rmax / res)
            on_grid_min = abs(kmin * res - rmin) <= abs(res) * 1e-6
            on_grid_max = abs(kmax * res - rmax) <= abs(res) * 1e-6
            lo_raw = -(1 << (n - 1)) if signed else 0
            hi_raw = (1 << (n - 1)) - 1 if signed else (1 << n) - 1
            edge = []
            if on_grid_min and lo_raw <= kmin <= hi_raw and lowp['rejects'](kmin * res):
                edge.append(f"raw {kmin} -> {kmin * res!r} is rejected although RangeMin is {rmin}")
            if on_grid_max and lo_raw <= kmax <= hi_raw and highp['rejects'](kmax * res):
                edge.append(f"raw {kmax} -> {kmax * res!r} is rejected although RangeMax is {rmax}")
            distinct = lambda x, b: abs(x - b) > max(abs(b), abs(res)) * 1e-9      # one step is far above double-precision noise
            if on_grid_min and lo_raw <= kmin - 1 and distinct((kmin - 1) * res, rmin) and not lowp['rejects']((kmin - 1) * res):
                edge.append(f"raw {kmin - 1} (one step below RangeMin) is accepted")
            if on_grid_max and kmax + 1 <= hi_raw and kmax + 1 != na and distinct((kmax + 1) * res, rmax) and not highp['rejects']((kmax + 1) * res):
                edge.append(f"raw {kmax + 1} (one step above RangeMax) is accepted")
            chk.check(not edge, 'RANGE-EDGE', inst, file=UT, line=line, func='decode_number',
                      expected='the raw values at RangeMin and RangeMax decode; one step beyond either end raises', found=edge or 'ok',
                      detail=('' if not edge else 'float product raw*Resolution lands just outside the bound, so a payload whose field sits exactly at the end of its database range fails to decode; ') + users_s)
        # NA-RANGE: the database says the top code is a valid value
        if ok and in_range and n >= 2:
            for (d, f) in users:
                if f.offset is not None:
                    continue    # inconsistent database entry (Signed with an unsigned, offset range): GEN-OFFSET reports it
                chk.violation('NA-RANGE', f"decode_pgn_{d.suffix}::{f.dbid}", file=UT, line=line, func='decode_number',
                              expected=f"raw {na} is inside the database range [{rmin},{rmax}] and is reported as a value",
                              found=f"raw {na} reported as None", detail=f"{n}-bit {'signed' if signed else 'unsigned'} field whose database range includes the all-ones code")
        elif ok:
            chk.ok('NA-RANGE', f"bits={n},signed={signed},res={res},max={rmax}", file=UT, line=line, func='decode_number', nontrivial=False)
    chk.unit('decode_number_residuals', nres)
    chk.floor('decode_number_residuals', nres, 70)
    # decode_int: LOOKUP / RESERVED / BINARY raw extraction
    lens = sorted({f.bit_length for d in db.defs for f in d.supported_prefix()[0] if f.type in ('LOOKUP', 'BITLOOKUP', 'RESERVED', 'SPARE', 'INDIRECT_LOOKUP', 'BINARY', 'STRING_FIX') and f.bit_length})
    for n in lens:
        rows = residual(program, 'decode_int', {'data_raw': D, 'bit_offset': OFF, 'bit_length': C(n)})
        r1 = norm_rows(rows, [{f: R for f in extract_forms(OFF, n)}])
        got = [(k, gs, v) for (k, gs, v, _) in r1]
        if got != [('return', (), R)] and rows_unfollowed(rows):
            chk.unknown(rule, f"decode_int@bits={n}", f"decode_int hands the extraction to code that was not followed: {rows_unfollowed(rows)}", UT, rows[0][3] if rows else 0)
            continue
        chk.check(got == [('return', (), R)], rule, f"decode_int@bits={n}", file=UT, line=rows[0][3] if rows else 0, func='decode_int',
                  expected=f"(data >> BitOffset) & {(1 << n) - 1}", found=[show(v) for (_, _, v, _) in rows])
    chk.unit('decode_int_residuals', len(lens))

def _bound_pred(t, SC, side):
    """recognise the raise-when predicate of a range end.  plain: SC < T / T < SC ; with a float-rounding allowance:
    (SC < B) and not isclose(SC, B, rel_tol=t [, abs_tol=a]).  -> dict(bound_ok(db_bound, res) -> bool, rejects(x) -> bool)"""
    import math
    def plain(x):
        if x[0] == 'cmp' and x[1] in ('<', '<='):
            if side == 'low' and x[2] == SC and sym.is_const(x[3]):
                return x[3][1], x[1]
            if side == 'high' and x[3] == SC and sym.is_const(x[2]):
                return x[2][1], x[1]
        return None
    p = plain(t)
    if p is not None:
        T, op = p
        if op != '<':
            # non-strict: the bound itself would be rejected
            return {'bound_ok': lambda b, r: False, 'rejects': (lambda x: x <= T) if side == 'low' else (lambda x: x >= T)}
        if side == 'low':
            return {'bound_ok': lambda b, r: (b - abs(r) < T <= b) or T == b, 'rejects': lambda x: x < T}
        return {'bound_ok': lambda b, r: (b <= T < b + abs(r)) or T == b, 'rejects': lambda x: x > T}
    if t[0] == 'bool' and t[1] == 'and' and len(t[2]) == 2:
        a, b = t[2]
        pa = plain(a)
        if pa is not None and pa[1] == '<' and b[0] == 'unop' and b[1] == 'not' and b[2][0] == 'call' and b[2][1] in (('attr', ('name', 'math'), 'isclose'), ('name', 'isclose')):
            c = b[2]
            args = c[2]; kw = dict(c[3])
            B_ = pa[0]
            if len(args) >= 2 and set(args[:2]) == {SC, C(B_)} and all(sym.is_const(v) for v in kw.values()):
                rel = kw.get('rel_tol', C(1e-09))[1]; ab = kw.get('abs_tol', C(0.0))[1]
                if side == 'low':
                    return {'bound_ok': lambda b0, r: b0 == B_ and rel <= 1e-9 and ab <= abs(r) * 1e-3, 'rejects': lambda x: x < B_ and not math.isclose(x, B_, rel_tol=rel, abs_tol=ab)}
                return {'bound_ok': lambda b0, r: b0 == B_ and rel <= 1e-9 and ab <= abs(r) * 1e-3, 'rejects': lambda x: x > B_ and not math.isclose(x, B_, rel_tol=rel, abs_tol=ab)}
    return None

def _row_s(r):
    k, gs, v = r
    return f"{k} {v if isinstance(v, str) else show(v)} when " + (' and '.join(show(g) for g in gs) or 'otherwise')

# ---------------------------------------------------------------------------
# encode side
# ---------------------------------------------------------------------------
def enc_number_tuples(db):
    out = {}
    for d in db.defs:
        if not d.encodable():
            continue
        for f in d.fields:
            if f.type in ('NUMBER', 'PGN'):
                out.setdefault((f.bit_length, f.signed, f.resolution), []).append((d, f))
    return out

def enc_time_tuples(db):
    out = {}
    for d in db.defs:
        if not d.encodable():
            continue
        for f in d.fields:
            if f.type in ('TIME', 'DURATION'):
                out.setdefault((f.bit_length, f.signed), []).append((d, f))
    return out

def quotient_forms(res):
    q = ('binop', '/', V, C(res))
    return {cn(('call', ('name', 'int'), (('call', ('name', 'round'), (q,), ()),), ())): 'round',
            cn(('call', ('name', 'round'), (q,), ())): 'round',
            cn(('call', ('name', 'int'), (q,), ())): 'trunc',
            cn(('binop', '//', V, C(res))): 'floor'}

def interval_of(cond, q):
    """raise-when predicate over q -> allowed closed interval (lo, hi), or None if unrecognised"""
    c = cond
    neg = False
    if c[0] == 'unop' and c[1] == 'not':
        neg = True; c = c[2]
    def bound(x):
        # x is a canonical cmp: (a < b) or (a <= b)
        if x[0] != 'cmp' or x[1] not in ('<', '<='):
            return None
        a, b = x[2], x[3]
        if a == q and sym.is_const(b):
            return ('hi', b[1] if x[1] == '<=' else b[1] - 1)     # q <= b
        if b == q and sym.is_const(a):
            return ('lo', a[1] if x[1] == '<=' else a[1] + 1)     # a <= q
        return None
    if neg and c[0] == 'bool' and c[1] == 'and' and len(c[2]) == 2:
        bs = [bound(x) for x in c[2]]
        if None not in bs and {bs[0][0], bs[1][0]} == {'lo', 'hi'}:
            d = dict(bs)
            return d['lo'], d['hi']
    if not neg and c[0] == 'bool' and c[1] == 'or' and len(c[2]) == 2:
        # q < lo or hi < q
        lo = hi = None
        for x in c[2]:
            if x[0] == 'cmp' and x[1] in ('<', '<='):
                a, b = x[2], x[3]
                if a == q and sym.is_const(b):
                    lo = b[1] if x[1] == '<' else b[1] + 1
                elif b == q and sym.is_const(a):
                    hi = a[1] if x[1] == '<' else a[1] - 1
        if lo is not None and hi is not None:
            return lo, hi
    return None

def encode_number_facts(program, n, signed, res):
    """-> dict(na=<const or None>, conv=<round/trunc/..>, interval=(lo,hi) or None, wrap=<const or None>, problems=[...], line)"""
    rows = residual(program, 'encode_number', {'value': V, 'bit_length': C(n), 'signed': C(signed), 'resolution': C(res)})
    facts = {'na': None, 'conv': None, 'interval': None, 'wrap': None, 'problems': [], 'line': rows[0][3] if rows else 0, 'rows': rows,
             'raise_type': None, 'order_ok': False}
    none_cond = cn(('cmp', 'is', V, NONE))
    qf = quotient_forms(res)
    conv = None
    for (_, gs, v, _) in rows:
        for t in list(gs) + [v]:
            for s_ in sym.walk(t):
                if s_ in qf:
                    conv = qf[s_] if conv in (None, qf[s_]) else 'mixed'
    facts['conv'] = conv
    r1 = norm_rows(rows, [{f: Q for f in qf}])
    rr = [(k, gs, v, ln) for (k, gs, v, ln) in r1 if k in ('return', 'raise')]
    # the residual as an exact piecewise function of the tick count q over all integers (piece.py): any spelling of the range test, of the
    # two's-complement step (conditional add, mask, modulo) and of the order of the rows gives the same pieces
    from . import piece
    INF = piece.INF
    try:
        pn = piece.pieces(rr, Q, env={none_cond: True, sym.mk_not(none_cond): False}, exc_name=_exc_name)
        if len(pn) == 1 and pn[0][2][0] == 'return' and isinstance(pn[0][2][1], tuple) and pn[0][2][1][0] == 0:
            facts['na'] = pn[0][2][1][1]
        else:
            facts['problems'].append('an absent value is not mapped to one constant: ' + '; '.join(piece.describe(pn))[:200])
        ps = piece.pieces(rr, Q, env={none_cond: False, sym.mk_not(none_cond): True}, exc_name=_exc_name)
    except piece.NotPiecewise as e:
        facts['problems'].append(f"residual is not a piecewise-affine function of round(value/resolution): {e}")
        return facts
    facts['pieces'] = piece.describe(ps)
    rets = [p for p in ps if p[2][0] == 'return']
    others = [p for p in ps if p[2][0] != 'return']
    if not rets:
        facts['problems'].append('no value is ever returned: ' + '; '.join(facts['pieces'])[:200])
        return facts
    contiguous = all(a_[1] + 1 == b_[0] for a_, b_ in zip(rets, rets[1:]))
    lo, hi = rets[0][0], rets[-1][1]
    tails_raise = all(p[2][0] == 'raise' for p in others) and all(p[1] < lo or p[0] > hi for p in others)
    if lo == -INF or hi == INF or not contiguous or not tails_raise:
        # no (complete) range test: some out-of-range tick count is encoded
        facts['interval'] = None
        facts['order_ok'] = False
        facts['raise_type'] = None
        facts['wrap'] = None
        facts['witness'] = '; '.join(facts['pieces'])[:300]
        return facts
    facts['interval'] = (lo, hi)
    kinds = {p[2][1] for p in others}
    facts['raise_type'] = kinds.pop() if len(kinds) == 1 else sorted(kinds)
    facts['order_ok'] = True
    # returned value: q itself for q >= 0, q + K for q < 0
    wrap = 0
    okshape = True
    for (l, u, r) in rets:
        val = r[1]
        if not (isinstance(val, tuple) and val[0] == 1):
            okshape = False
            continue
        if l >= 0:
            if val[1] != 0:
                okshape = False
        elif u < 0:
            if wrap in (0, val[1]):
                wrap = val[1]
            else:
                okshape = False
        else:
            okshape = False
    facts['wrap'] = wrap if okshape else None
    if not okshape:
        facts['witness'] = '; '.join(facts['pieces'])[:300]
    return facts

NOT_DETERMINED = 'not determined'

def enc_number_points(program, n, signed, res, rows):
    """encode_number decided on points when its residual is not of the piecewise form: the residual (terms, never repository code) is evaluated at
    values k * resolution for tick counts k around every place the answer changes -- 0, 1, the range ends, the not-available code, just outside the
    range, negative counts for signed fields -- and at None.  Expected: k (k >= 0), k + 2^n (k < 0) inside the encodable range, ValueError outside,
    the not-available code for None.  -> list of (description of the point, expected, got); raises teval.EvalUnknown when not evaluable"""
    from . import teval
    half, top = 1 << (n - 1), (1 << n) - 1
    lo, hi = (-half, half - 2) if signed else (0, top - 1)
    if n < 2 and not signed:
        hi = top
    ks = {0, 1, 2, hi - 1, hi, hi + 1, hi + 2, lo, lo + 1, lo - 1, (lo + hi) // 2, 7, 100, -1, -2, 1 << n, (1 << n) + 3}
    bad = []
    for k in sorted(ks):
        v = k * res
        try:
            q = int(round(v / res))
        except (OverflowError, ZeroDivisionError):
            continue
        if q != k or (n < 2 and k == top):
            continue          # the product is not exactly on the tick (float): not a clean point; (1-bit fields: both readings of the top code are accepted)
        got = _eval_rows(rows, {'$V': v})
        if lo <= k <= hi:
            want = ('return', k if k >= 0 else k + (1 << n))
        else:
            want = ('raise', 'ValueError')
        if got != want and not (got[0] == 'return' and want[0] == 'return' and isinstance(got[1], (int, float)) and not isinstance(got[1], bool) and got[1] == want[1]):
            bad.append((f"value {v!r} = {k} ticks", want, got))
    # values between two ticks: rounded to the nearest tick (0.4 down, 0.6 up), also across the range ends
    for k in sorted({0, 1, 7, hi - 1, hi, lo, lo - 1, (lo + hi) // 2}):
        for frac in (0.4, 0.6):
            v = (k + frac) * res
            try:
                q = int(round(v / res))
            except (OverflowError, ZeroDivisionError):
                continue
            if q != k + (1 if frac > 0.5 else 0) or abs(k) > 2 ** 50:
                continue          # float noise puts this value on the other side: not a clean point
            if n < 2 and q == top:
                continue
            got = _eval_rows(rows, {'$V': v})
            want = ('return', q if q >= 0 else q + (1 << n)) if lo <= q <= hi else ('raise', 'ValueError')
            if got != want and not (got[0] == 'return' and want[0] == 'return' and isinstance(got[1], (int, float)) and not isinstance(got[1], bool) and got[1] == want[1]):
                bad.append((f"value {v!r} = {k + frac} ticks", want, got))
    got = _eval_rows(rows, {'$V': None})
    want = ('return', expected_na(n, signed))
    if got != want and n >= 2:
        bad.append(('value None', want, got))
    return bad

def _decoder_points(program, n, signed):
    """decode_number (resolution 1, wide range) evaluated on raw values: -> {raw: outcome}"""
    rows = residual(program, 'decode_number', {'data_raw': D, 'bit_offset': C(0), 'bit_length': C(n), 'signed': C(signed), 'resolution': C(1),
                                                'min_value': C(-(1 << 70)), 'max_value': C(1 << 70)})
    half, top = 1 << (n - 1), (1 << n) - 1
    pts = sorted({q for q in (0, 1, half - 2, half - 1, half, half + 1, top - 2, top - 1, top) if 0 <= q <= top} | (set(range(top + 1)) if n <= 10 else set()))
    return {q: _eval_rows(rows, {'$D': q}) for q in pts}, (rows[0][3] if rows else 0)

def decoder_na(program, n, signed):
    """the raw number the decoder reports as absent for an n-bit field (resolution 1, wide range): read off the decision list, or, when that
    is not of the recognised form, found by evaluating it on raw values"""
    try:
        k, ln = _decoder_na_structural(program, n, signed)
    except AnalysisError:
        k, ln = None, 0
    if k is not None:
        return k, ln
    from . import teval
    try:
        out, ln = _decoder_points(program, n, signed)
    except (teval.EvalUnknown, KeyError, TypeError, AnalysisError):
        return NOT_DETERMINED, ln
    half = 1 << (n - 1)
    nones = [q for q, r in out.items() if r == ('return', None)]
    if len(nones) == 1:
        q = nones[0]
        return (q - (1 << n) if signed and q >= half else q), ln
    return None, ln

def _decoder_na_structural(program, n, signed):
    rows = residual(program, 'decode_number', {'data_raw': D, 'bit_offset': OFF, 'bit_length': C(n), 'signed': C(signed), 'resolution': C(1),
                                                'min_value': C(-(1 << 70)), 'max_value': C(1 << 70)})
    mp1 = {f: R for f in extract_forms(OFF, n)}
    r1 = norm_rows(rows, [mp1])
    if signed:
        r1 = norm_rows(r1, [{f: S for f in sign_forms(n)}])
    X = S if signed else R
    for (k, gs, v, ln) in r1:
        if k == 'return' and v == NONE and len(gs) == 1 and gs[0][0] == 'cmp' and gs[0][1] == '==':
            a, b = gs[0][2], gs[0][3]
            if a == X and sym.is_const(b):
                return b[1], ln
            if b == X and sym.is_const(a):
                return a[1], ln
    return None, rows[0][3] if rows else 0

def decoder_wrap(program, n):
    """the constant subtracted by the decoder's sign extension (read off the residual, else found by evaluating it on raw values with the sign bit set)"""
    from . import teval
    try:
        out, _ = _decoder_points(program, n, True)
    except (teval.EvalUnknown, KeyError, TypeError):
        return _decoder_wrap_structural(program, n)       # the subtraction found in the residual (its condition is HELP-DEC's business)
    ws = {q - r[1] for q, r in out.items() if q >= (1 << (n - 1)) and r[0] == 'return' and isinstance(r[1], int) and not isinstance(r[1], bool)}
    low_ok = all(r[0] != 'return' or r[1] is None or r[1] == q for q, r in out.items() if q < (1 << (n - 1)))
    return ws.pop() if len(ws) == 1 and low_ok else None

def _decoder_wrap_structural(program, n):
    rows = residual(program, 'decode_number', {'data_raw': D, 'bit_offset': OFF, 'bit_length': C(n), 'signed': C(True), 'resolution': C(1),
                                                'min_value': C(-(1 << 70)), 'max_value': C(1 << 70)})
    r1 = norm_rows(rows, [{f: R for f in extract_forms(OFF, n)}])
    for (k, gs, v, ln) in r1:
        for t in list(gs) + [v]:
            for s_ in sym.walk(t):
                if s_[0] == 'ite' and s_[3] == R and s_[2][0] == 'binop' and s_[2][1] == '-' and s_[2][2] == R and sym.is_const(s_[2][3]):
                    return s_[2][3][1]
                if s_[0] == 'ite' and s_[3] == R and s_[2][0] == 'binop' and s_[2][1] == '+' and sym.is_const(s_[2][2]) and s_[2][3] == R:
                    return -s_[2][2][1]
    return None

def encode_time_na(program, n, signed):
    fn = helpers(program).get('encode_time')
    if fn is None:
        raise AnalysisError('anchor utils.encode_time vanished')
    params = [a.arg for a in fn.args.args]
    bind = {params[0]: V, params[1]: C(n)}
    takes_signed = len(params) >= 3
    if takes_signed:
        bind[params[2]] = C(signed)
    # the helper partially evaluated at value = None: the pattern is whatever constant every remaining path returns
    bind[params[0]] = NONE
    rows = residual(program, 'encode_time', bind)
    outs = [(k, gs, v, ln) for (k, gs, v, ln) in rows if k in ('return', 'raise')]
    vals = {v for (k, gs, v, ln) in outs if k == 'return'}
    if outs and all(k == 'return' for (k, gs, v, ln) in outs) and len(vals) == 1 and sym.is_const(next(iter(vals))) and next(iter(vals)) != NONE:
        return next(iter(vals))[1], outs[0][3], takes_signed
    return None, (rows[0][3] if rows else 0), takes_signed

def sent_sign_agree(chk, program, sites=None):
    """SENT-AGREE / SIGN-AGREE: decoder and encoders agree on the not-available code and on two's complement"""
    db = program.db
    nt = enc_number_tuples(db)
    pairs = sorted({(n, s) for (n, s, r) in nt})
    for (n, s) in pairs:
        dna, dl = decoder_na(program, n, s)
        res = sorted({r for (n2, s2, r) in nt if (n2, s2) == (n, s)}, key=repr)[0]
        f = encode_number_facts(program, n, s, res)
        users = [u for (n2, s2, r), us in nt.items() if (n2, s2) == (n, s) for u in us]
        inst = f"bits={n},signed={s}"
        if f['problems']:
            from . import teval
            try:
                bad = enc_number_points(program, n, s, res, f['rows'])
                if dna == NOT_DETERMINED or (n >= 2 and dna is None):
                    raise teval.EvalUnknown('decoder constant not determined')
                gna = _eval_rows(f['rows'], {'$V': None})
            except (teval.EvalUnknown, KeyError, TypeError, ValueError, ZeroDivisionError, OverflowError, AnalysisError) as u:
                chk.unknown('SENT-AGREE', f"encode_number::{inst}", f"encode_number not read: {f['problems'][0]}", UT, f['line'])
                continue
            chk.check(n < 2 or gna == ('return', dna), 'SENT-AGREE', f"encode_number::{inst}", file=UT, line=f['line'], func='encode_number',
                      expected=f"encoder's pattern for None == decoder's not-available constant ({dna})", found=gna, detail='decided on points')
            wrapbad = [b for b in bad if b[1][0] == 'return' and b[0] != 'value None' and not b[0].endswith(('.4 ticks', '.6 ticks'))]      # (rounding is ENC-RANGE's)
            chk.check(not wrapbad, 'SIGN-AGREE', f"encode_number::{inst}", file=UT, line=f['line'], func='encode_number',
                      expected='in-range tick counts written as themselves (negative ones in two\'s complement)', found='ok (on points)' if not wrapbad else [f"{d}: expected {w}, got {g}" for d, w, g in wrapbad[:3]])
            continue
        if dna == NOT_DETERMINED:
            chk.unknown('SENT-AGREE', f"encode_number::{inst}", "the decoder's not-available code could be neither read off decode_number nor found by evaluating it", UT, f['line'])
        elif n < 2 and dna is None and f['na'] is not None:
            # 1-bit fields: the decoder has no not-available code; nothing to agree on
            chk.ok('SENT-AGREE', f"encode_number::{inst}", file=UT, line=f['line'], nontrivial=False)
        else:
            chk.check(dna is not None and dna == f['na'], 'SENT-AGREE', f"encode_number::{inst}", file=UT, line=f['line'], func='encode_number',
                      expected=f"encoder's pattern for None == decoder's `raw == K -> None` constant ({dna})", found=f['na'],
                      detail=f"{len(users)} encodable fields, e.g. {users[0][0].key}:{users[0][1].dbid}")
        if s and dna == NOT_DETERMINED:
            pass
        elif s:
            dw = decoder_wrap(program, n)
            chk.check(dw is not None and dw == f['wrap'], 'SIGN-AGREE', f"encode_number::{inst}", file=UT, line=f['line'], func='encode_number',
                      expected=f"negative values wrapped by +{dw} (inverse of the decoder's -{dw})", found=f['wrap'])
        else:
            chk.check(f['wrap'] == 0, 'SIGN-AGREE', f"encode_number::{inst}", file=UT, line=f['line'], func='encode_number',
                      expected='no wrap for an unsigned field', found=f['wrap'], nontrivial=False)
    tt = enc_time_tuples(db)
    site_signed = {}
    if sites is not None:
        for d, f, fname, row, t in sites:
            if row['cls'].get('kind') == 'TIME':
                site_signed[(fname, f.id)] = row['cls'].get('absent_signed')
    for (n, s), users in sorted(tt.items()):
        dna, dl = decoder_na(program, n, s)
        if dna == NOT_DETERMINED:
            chk.unknown('SENT-AGREE', f"encode_time::bits={n},signed={s}", "the decoder's not-available code could not be determined", UT, dl)
            continue
        for (d, f) in users:
            # the signedness the generated call site hands to encode_time (None = argument omitted -> helper default)
            if sites is not None and (f"encode_pgn_{d.suffix}", f.id) not in site_signed:
                # the call site of this field was not read as a TIME producer (another spelling of the generated encoder): what it hands to encode_time is not known
                chk.unknown('SENT-AGREE', f"encode_time::encode_pgn_{d.suffix}::{f.id}", 'the call of encode_time for this field was not read: the signedness it passes is not known', UT, dl)
                continue
            passed = site_signed.get((f"encode_pgn_{d.suffix}", f.id))
            ena, el, takes_signed = encode_time_na(program, n, bool(passed) if passed is not None else False)
            chk.check(dna is not None and ena == dna, 'SENT-AGREE', f"encode_time::encode_pgn_{d.suffix}::{f.id}", file=UT, line=el, func='encode_time',
                      expected=f"pattern for an absent {'signed' if s else 'unsigned'} {n}-bit time/duration == decoder's not-available code {dna}",
                      found=ena, detail=('the encoder writes all-ones for a signed field: that decodes to -1 tick, not to absent' if s and ena == (1 << n) - 1 else '') +
                      f" (call site passes signed={passed})")
    chk.unit('sentinel_pairs', len(pairs) + len(tt))

def enc_range(chk, program):
    """ENC-RANGE / ENC-NA on the encode_number residual at every (BitLength, Signed, Resolution) of an encodable NUMBER/PGN field"""
    db = program.db
    nt = enc_number_tuples(db)
    for (n, s, res), users in sorted(nt.items(), key=lambda kv: repr(kv[0])):
        f = encode_number_facts(program, n, s, res)
        inst = f"encode_number@bits={n},signed={s},res={res}"
        us = f"{len(users)} fields, e.g. {users[0][0].key}:{users[0][1].dbid}"
        if f['problems']:
            # not of the piecewise form: decided on points when the residual can be evaluated, else no verdict
            from . import teval
            try:
                bad = enc_number_points(program, n, s, res, f['rows'])
            except (teval.EvalUnknown, KeyError, TypeError, ValueError, ZeroDivisionError, OverflowError, AnalysisError) as u:
                for p in f['problems']:
                    chk.unknown('ENC-RANGE', inst, p + f" / not evaluable on points: {type(u).__name__}: {u}"[:120], UT, f['line'])
                continue
            chk.check(not bad, 'ENC-RANGE', inst, file=UT, line=f['line'], func='encode_number',
                      expected='k ticks are written as k (two\'s complement for k < 0) inside the range, ValueError outside, the not-available code for None',
                      found='ok (on points)' if not bad else [f"{d}: expected {w}, got {g}" for d, w, g in bad[:4]], detail=us)
            continue
        lo, hi = (-(1 << (n - 1)), (1 << (n - 1)) - 2) if s else (0, (1 << n) - 2)
        if n < 2:
            hi = (1 << n) - 1 if not s else hi
        iv = f['interval']
        if iv is None:
            chk.violation('ENC-RANGE', inst, file=UT, line=f['line'], func='encode_number', expected=f"raise ValueError unless {lo} <= round(value/res) <= {hi}, before any return",
                          found='no recognisable range test before the return', detail=us)
        else:
            okk = (iv[0] == lo and iv[1] in ((hi,) if n >= 2 else (hi, hi - 1))) and f['order_ok'] and f['raise_type'] == 'ValueError'
            chk.check(okk, 'ENC-RANGE', inst, file=UT, line=f['line'], func='encode_number',
                      expected={'interval': [lo, hi], 'raise': 'ValueError', 'before_every_return': True},
                      found={'interval': list(iv), 'raise': f['raise_type'], 'before_every_return': f['order_ok']}, detail=us)
        chk.check(f['conv'] == 'round', 'ROUND', inst, file=UT, line=f['line'], func='encode_number', expected='int(round(value / resolution))', found=f['conv'], detail=us)
        chk.check(f['na'] == expected_na(n, s) or n < 2, 'ENC-NA', inst, file=UT, line=f['line'], func='encode_number',
                  expected=expected_na(n, s), found=f['na'], detail='pattern written for an absent value; ' + us)
    chk.unit('encode_number_residuals', len(nt))
    chk.floor('encode_number_residuals', len(nt), 40)

# ---------------------------------------------------------------------------
def A_followed(v):
    from . import absint as A
    return not isinstance(v, A.AOpaque) and v is not None

def help_siblings(chk, program, rule='HELP-SIB'):
    """decode_float/encode_float share struct formats; decode_date/encode_date share the epoch; decode_time's
    decomposition is the inverse of encode_time's affine form"""
    hs = helpers(program)
    def struct_formats(name):
        fn = hs.get(name)
        if fn is None:
            raise AnalysisError(f"anchor utils.{name} vanished")
        out = {}
        for n in ast.walk(fn):
            if isinstance(n, ast.Call) and isinstance(n.func, ast.Attribute) and n.func.attr in ('pack', 'unpack') and n.args and isinstance(n.args[0], ast.Constant):
                out[n.func.attr] = n.args[0].value
        return out
    # decided on the interpreted helpers: decode_float of a raw field whose 32 bits are symbols must be the IEEE single with exactly that bit
    # pattern, encode_float of a single with symbolic bits must be the integer with those bits -- whatever calls (struct, to_bytes, from_bytes) are used
    from . import absint as A
    sem = None
    try:
        funcs = {q: f for q, f in program.mod('utils').defs.items() if '.' not in q}
        in_range = lambda op, a, b, node: isinstance(op, (ast.GtE, ast.LtE, ast.Eq))      # the decoded value lies inside [min, max]
        d = A.Interp(functions=funcs, cmp_oracle=in_range).call_function(hs['decode_float'], [A.sym_int('raw', 64), A.AInt(0), A.AInt(32), A.AFloat([('min', k) for k in range(32)]), A.AFloat([('max', k) for k in range(32)])])
        e = A.Interp(functions=funcs).call_function(hs['encode_float'], [A.AFloat([('f', k) for k in range(32)])])
        okd = isinstance(d, A.AFloat) and d.width == 32 and list(d.bits) == [('raw', k) for k in range(32)]
        oke = isinstance(e, A.AInt) and e.vec() is not None and A.B.trim(e.vec()) == [('f', k) for k in range(32)]
        sem = (okd and oke, {'decode_float(raw)': repr(d), 'encode_float(f)': repr(e)})
    except (A.Unknown, A.RaiseSignal, AnalysisError) as u:
        chk.unit('float_helpers_not_interpretable', str(u))
    if sem is not None and not sem[0] and (not A_followed(d) or not A_followed(e)):
        chk.unknown(rule, 'float-formats', f"float helpers hand over to code that was not followed: {sem[1]}", UT, hs['decode_float'].lineno)
    elif sem is not None:
        chk.check(sem[0], rule, 'float-formats', file=UT, line=hs['decode_float'].lineno, expected='decode_float: the single whose bit pattern is raw[0:32]; encode_float: the integer whose bits are the single\'s bit pattern',
                  found=sem[1] if not sem[0] else 'ok')
    else:
        df, ef = struct_formats('decode_float'), struct_formats('encode_float')
        if df.get('pack') == ef.get('unpack') and df.get('unpack') == ef.get('pack') and df.get('pack') in ('<I', '=I', 'I') and df.get('unpack') in ('<f', '=f', 'f'):
            chk.ok(rule, 'float-formats', file=UT, line=hs['decode_float'].lineno, found={'decode': df, 'encode': ef})
        else:
            chk.unknown(rule, 'float-formats', f"float helpers neither interpretable nor of the recognised struct shape: {df} / {ef}", UT, hs['decode_float'].lineno)
    def epoch(name):
        fn = hs.get(name)
        if fn is None:
            raise AnalysisError(f"anchor utils.{name} vanished")
        for n in ast.walk(fn):
            if isinstance(n, ast.Call) and isinstance(n.func, ast.Name) and n.func.id == 'date' and len(n.args) == 3 and all(isinstance(a, ast.Constant) for a in n.args):
                return tuple(a.value for a in n.args)
        return None
    de, ee = epoch('decode_date'), epoch('encode_date')
    # a witness that needs no epoch: calendar arithmetic through the process's local time zone or clock (fromtimestamp without tz, localtime, mktime,
    # today, now) gives another date on a machine west of Greenwich / at another moment
    local = []
    for hn in ('decode_date', 'encode_date', 'decode_time', 'encode_time'):
        for n_ in ast.walk(hs[hn]) if hn in hs else ():
            if isinstance(n_, ast.Call) and isinstance(n_.func, ast.Attribute) and n_.func.attr in ('fromtimestamp', 'localtime', 'mktime', 'today', 'now', 'timestamp', 'astimezone') \
                    and not any(k.arg in ('tz', 'tzinfo') for k in n_.keywords) and not (n_.func.attr == 'fromtimestamp' and len(n_.args) >= 2):
                local.append((hn, n_))
    for hn, n_ in local:
        chk.violation(rule, f"{hn}::local-time-zone", file=UT, line=n_.lineno, func=hn, expected='days / seconds converted by pure arithmetic from 1970-01-01 (no local time zone, no clock)',
                      found=ast.unparse(n_)[:80], detail='the decoded date / time depends on the time zone (or the clock) of the process: day 0 decodes to 1969-12-31 west of Greenwich')
    if local:
        pass
    elif de is None or ee is None:
        # no date(<y>, <m>, <d>) literal in one of the helpers: the epoch lives elsewhere (a module constant, a class): nothing was read
        chk.unknown(rule, 'date-epoch', f"no literal date(y, m, d) in decode_date / encode_date: {de} / {ee}", UT, hs['decode_date'].lineno)
    else:
      chk.check(de == ee == (1970, 1, 1), rule, 'date-epoch', file=UT, line=hs['decode_date'].lineno, expected=[1970, 1, 1], found={'decode': de, 'encode': ee},
              detail='database DATE = days since 1970-01-01')
    # encode_time affine: hour*3600 + minute*60 + second
    p0 = [a.arg for a in hs['encode_time'].args.args][0]
    bind = {p0: V}
    for extra in [a.arg for a in hs['encode_time'].args.args][1:]:
        bind[extra] = C(16) if extra != 'signed' else C(False)
    rows = residual(program, 'encode_time', bind)
    coeffs = None
    for (k, gs, v, ln) in rows:
        if k == 'return' and not sym.is_const(v):
            coeffs = _affine_attrs(v)
    if coeffs is None and (rows_unfollowed(rows) or not any(k == 'return' and not sym.is_const(v) for (k, gs, v, ln) in rows)):
        chk.unknown(rule, 'encode_time-affine', f"encode_time's value is computed by code that was not followed: {rows_unfollowed(rows)}", UT, hs['encode_time'].lineno)
    else:
      chk.check(coeffs == {'hour': 3600, 'minute': 60, 'second': 1}, rule, 'encode_time-affine', file=UT, line=hs['encode_time'].lineno,
              expected={'hour': 3600, 'minute': 60, 'second': 1}, found=coeffs)
    # decode_time: hours = s // 3600; minutes = (s % 3600) // 60; seconds = s % 60
    fn = hs['decode_time']
    ex = sym.SymExec(fn)
    try:
        ex.run()
    except sym.Unsupported as u:
        raise AnalysisError(f"utils.decode_time: {u}")
    found = {}
    for ev in ex.events:
        if ev[0] == 'return' and ev[2][0] == 'call' and ev[2][1] == ('name', 'time'):
            kws = dict(ev[2][3])
            if all(k in kws for k in ('hour', 'minute', 'second')) and not all(sym.is_const(v) for v in kws.values()):
                found = {k: show(_strip_int(v, ex.params[0])) for k, v in kws.items()}
    s = '$s'
    exp = {'hour': f"({s} // 3600)", 'minute': f"(({s} % 3600) // 60)", 'second': f"({s} % 60)"}
    if found == exp:
        chk.ok(rule, 'decode_time-decomposition', file=UT, line=fn.lineno, expected=exp, found=found, detail='inverse of 3600*h + 60*m + s')
    else:
        # another spelling (divmod, nested divisions): the three terms are functions of one integer on the finite domain 0..86399 -- evaluated on all of it
        from . import teval
        terms = {}
        for ev in ex.events:
            if ev[0] == 'return' and ev[2][0] == 'call' and ev[2][1] == ('name', 'time'):
                kws = dict(ev[2][3])
                if all(k in kws for k in ('hour', 'minute', 'second')) and not all(sym.is_const(v) for v in kws.values()):
                    terms = {k: _strip_int(kws[k], ex.params[0]) for k in ('hour', 'minute', 'second')}
        bad = None
        if not terms:
            chk.unknown(rule, 'decode_time-decomposition', 'return time(hour=.., minute=.., second=..) not found', UT, fn.lineno)
        else:
            try:
                for sec in range(86400):
                    m = teval.Model(names={'$s': sec})
                    got = (teval.ev(terms['hour'], m), teval.ev(terms['minute'], m), teval.ev(terms['second'], m))
                    if got != (sec // 3600, (sec % 3600) // 60, sec % 60):
                        bad = (sec, got)
                        break
                chk.check(bad is None, rule, 'decode_time-decomposition', file=UT, line=fn.lineno, expected='hour, minute, second of every second of the day 0..86399',
                          found='ok (all 86400 values)' if bad is None else f"second {bad[0]} -> {bad[1]}", detail='inverse of 3600*h + 60*m + s')
            except teval.EvalUnknown as u:
                chk.unknown(rule, 'decode_time-decomposition', f"terms not evaluable: {u}", UT, fn.lineno)

def _strip_int(t, p):
    """int(param) -> $s"""
    mp = {('call', ('name', 'int'), (('param', p),), ()): ('name', '$s'), ('param', p): ('name', '$s')}
    return subst(t, mp)

def _affine_attrs(t):
    """an integer-affine form over the attributes of the value: a.hour*3600 + a.minute*60 + a.second, (a.hour*60 + a.minute)*60 + a.second, ...
    -> {'hour': 3600, 'minute': 60, 'second': 1} (None when the term is not affine in attributes of the value or has a constant part)"""
    def aff(x):
        if sym.is_const(x) and isinstance(x[1], int) and not isinstance(x[1], bool):
            return {}, x[1]
        if x[0] == 'attr' and x[1] == V:
            return {x[2]: 1}, 0
        if x[0] == 'call' and x[1] == ('name', 'int') and len(x[2]) == 1:
            return aff(x[2][0])
        if x[0] == 'binop' and x[1] in ('+', '-'):
            l, r = aff(x[2]), aff(x[3])
            if l is None or r is None:
                return None
            sg = 1 if x[1] == '+' else -1
            co = dict(l[0])
            for k, v in r[0].items():
                co[k] = co.get(k, 0) + sg * v
            return co, l[1] + sg * r[1]
        if x[0] == 'binop' and x[1] == '*':
            l, r = aff(x[2]), aff(x[3])
            if l is None or r is None:
                return None
            if not l[0]:
                return {k: v * l[1] for k, v in r[0].items()}, r[1] * l[1]
            if not r[0]:
                return {k: v * r[1] for k, v in l[0].items()}, l[1] * r[1]
            return None
        return None
    r = aff(t)
    if r is None or r[1] != 0:
        return None
    return {k: v for k, v in r[0].items() if v}

def enc_range_round_only(chk, program):
    """ROUND on encode_number (C02 uses only this clause of the residual)"""
    db = program.db
    nt = enc_number_tuples(db)
    for (n, s, res), users in sorted(nt.items(), key=lambda kv: repr(kv[0])):
        f = encode_number_facts(program, n, s, res)
        inst = f"encode_number@bits={n},signed={s},res={res}"
        chk.check(f['conv'] == 'round', 'ROUND', inst, file=UT, line=f['line'], func='encode_number', expected='int(round(value / resolution))', found=f['conv'],
                  detail=f"{len(users)} fields, e.g. {users[0][0].key}:{users[0][1].dbid}")

def help_points(chk, program, rule='HELP-STR'):
    """two small helpers decided on points by interpreting them (absint) on concrete arguments:
      decode_bit_lookup on a table with gaps ({1: 'one', 3: 'three', 10: 'ten'}): every named bit that is set is reported, in bit order, whatever the
        size of the table (raw 1<<10 -> 'ten');
      decode_string_lau on an empty string (length byte 2: header only) followed by more payload: the text is present (not None) and 16 bits are skipped;
        on 'AB' (length byte 4): 32 bits skipped.
    Not interpretable -> no verdict from this clause."""
    from . import absint as A
    hs = helpers(program)
    funcs = {q: f for q, f in program.mod('utils').defs.items() if '.' not in q}
    menv = A.ModuleEnv(program.mod('utils').tree)
    fb = hs.get('decode_bit_lookup')
    if fb is not None:
        try:
            table = lambda: A.ADict({1: A.AStr([('lit', 'one')]), 3: A.AStr([('lit', 'three')]), 10: A.AStr([('lit', 'ten')])})
            bad = []
            for raw, want in ((0, ''), (1 << 1, 'one'), (1 << 10, 'ten'), ((1 << 1) | (1 << 10), 'one, ten'), ((1 << 3) | (1 << 10), 'three, ten'), (1 << 2, ''), (1 << 12, ''), ((1 << 12) | (1 << 3), 'three')):
                r = A.Interp(functions=funcs, module=menv).call_function(fb, [A.AInt(raw), table()])
                got = r.literal() if isinstance(r, A.AStr) else repr(r)
                if got != want:
                    bad.append(f"raw {raw:#x}: expected {want!r}, got {got!r}")
            chk.check(not bad, rule, 'decode_bit_lookup::every-named-bit', file=UT, line=fb.lineno, func='decode_bit_lookup', expected='the names of all set bits the table names, in bit order (tables have gaps)',
                      found='ok' if not bad else bad[:3], detail='' if not bad else 'set bits beyond the number of table entries (or some other subset) are lost')
        except (A.Unknown, A.RaiseSignal, AttributeError, TypeError, KeyError) as u:
            chk.unit('decode_bit_lookup_not_interpretable', f"{type(u).__name__}: {u}"[:160])
    fl = hs.get('decode_string_lau')
    if fl is not None:
        try:
            bad = []
            for name, payload, want_skip in (('empty string then more payload', bytes([2, 1, 0x41, 0x42]), 16), ("'AB' then more payload", bytes([4, 1, 0x41, 0x42, 0x43]), 32)):
                raw = int.from_bytes(payload, 'little')
                r = A.Interp(functions=funcs, module=menv).call_function(fl, [A.AInt(raw), A.AInt(0)])
                if not (isinstance(r, (tuple, list)) and len(r) == 2):
                    raise A.Unknown(f"decode_string_lau does not return a pair: {r!r}"[:100])
                text, skip = r
                if text is None:
                    bad.append(f"{name}: the text comes back as None (absent)")
                if not (isinstance(skip, A.AInt) and skip.v == want_skip):
                    bad.append(f"{name}: {skip!r} bits skipped, expected {want_skip}")
            chk.check(not bad, rule, 'decode_string_lau::points', file=UT, line=fl.lineno, func='decode_string_lau', expected='a text (possibly empty) and a skip of 8 x the length byte',
                      found='ok' if not bad else bad[:3], detail='' if not bad else 'an empty description is a value, not "not available"; a wrong skip shifts every later field')
        except (A.Unknown, A.RaiseSignal, AttributeError, TypeError, KeyError) as u:
            chk.unit('decode_string_lau_not_interpretable', f"{type(u).__name__}: {u}"[:160])

def help_strings(chk, program, rule='HELP-STR'):
    help_points(chk, program, rule)
    """string helpers: the variable-length (LAU) decoder must report a skip of exactly 8 x its length byte, read from the
    first byte at the field's offset; the fixed decoder extracts exactly BitLength bits"""
    hs = helpers(program)
    fn = hs.get('decode_string_lau')
    if fn is None:
        raise AnalysisError('anchor utils.decode_string_lau vanished')
    ex = sym.SymExec(fn)
    try:
        ex.run()
    except sym.Unsupported as u:
        raise AnalysisError(f"utils.decode_string_lau: {u}")
    d, o = ('param', ex.params[0]), ('param', ex.params[1])
    shifted = ('binop', '>>', d, o)
    rets = [e for e in ex.events if e[0] == 'return' and e[2][0] == 'tuple' and len(e[2][1]) == 2]
    if not rets:
        chk.unknown(rule, 'decode_string_lau::returns-pair', 'decode_string_lau returns no literal pair: the text and the skip are computed by code that was not followed', UT, fn.lineno)
    else:
        chk.check(True, rule, 'decode_string_lau::returns-pair', file=UT, line=fn.lineno, func='decode_string_lau', expected='(text, bits to skip)', found=len(rets), nontrivial=False)
    for e in rets:
        skip = e[2][1][1]
        # the short-input path returns len(byte_arr) (0/1 byte available): accepted as is; the regular path must be 8 * first byte
        g = sym.conj(e[1])
        short = any(x[0] == 'cmp' and x[1] == '<' and sym.is_const(x[3]) for x in g)
        if short:
            continue
        ok = False
        shape = False
        if skip[0] == 'binop' and skip[1] == '<<' and skip[3] == C(3):
            skip = ('binop', '*', skip[2], C(8))
        for a, b in ((skip[2], skip[3]), (skip[3], skip[2])) if skip[0] == 'binop' and skip[1] == '*' else ():
            if b == C(8) and a[0] == 'sub' and a[2] == C(0):
                ba = a[1]
                # byte_arr = (data >> offset).to_bytes(..., 'little')
                if ba[0] == 'call' and ba[1][0] == 'attr' and ba[1][2] == 'to_bytes' and ba[1][1] == shifted:
                    order = dict(ba[3]).get('byteorder', ba[2][1] if len(ba[2]) > 1 else None)
                    ok = order == C('little')
                    shape = order is not None and sym.is_const(order)
        # a witness for "wrong": the first byte of the wrong byte order, or a skip computed from the decoded text (its length in characters is
        # not the length byte for non-ASCII text).  Any other spelling the reading does not know is no verdict.
        from_text = any(s_[0] == 'call' and s_[1][0] == 'attr' and s_[1][2] == 'decode' for s_ in sym.walk(skip)) or \
            any(s_[0] == 'call' and s_[1] == ('name', 'str') and len(s_[2]) >= 2 for s_ in sym.walk(skip))
        if not ok and not shape and not from_text:
            chk.unknown(rule, 'decode_string_lau::skip', f"the skip is spelt in a way the reading does not know: {show(skip)[:120]}", UT, e[-1])
            continue
        chk.check(ok, rule, 'decode_string_lau::skip', file=UT, line=e[-1], func='decode_string_lau',
                  expected='bits to skip = 8 * <length byte = first byte of (data >> bit_offset) little-endian>', found=show(skip)[:160],
                  detail='' if ok else 'every field after the string would be read at the wrong offset whenever the skip differs from the length byte (non-ASCII text, surrogate pairs)')
    fx = hs.get('decode_string_fix')
    if fx is not None:
        rows = residual(program, 'decode_string_fix', {'data_raw': D, 'bit_offset': OFF, 'bit_length': C(64)})
        r1 = norm_rows(rows, [{f: R for f in extract_forms(OFF, 64)}])
        used = any(s_ == R for (_, gs, v, _) in r1 for t in (list(gs) + [v]) for s_ in sym.walk(t))
        left = any(s_ == D for (_, gs, v, _) in r1 for t in (list(gs) + [v]) for s_ in sym.walk(t))
        if not (used and not left) and rows_unfollowed(rows):
            chk.unknown(rule, 'decode_string_fix::extract', f"decode_string_fix hands the extraction to code that was not followed: {rows_unfollowed(rows)}", UT, fx.lineno)
        else:
          chk.check(used and not left, rule, 'decode_string_fix::extract', file=UT, line=fx.lineno, func='decode_string_fix',
                  expected='text taken from exactly the BitLength bits at BitOffset', found=[show(v)[:100] for (_, _, v, _) in rows][:2])
