"""cfg.py -- statement-level control-flow graph for one function.

Node kinds: 'entry', 'exit' (normal return / fall off the end), 'raise' (exception leaves the
function), 'stmt' (simple statement), 'test' (if/while condition), 'iter' (for/async-for header),
'with' (context entry), 'withexit' (context exit), 'handler' (except clause entry), 'join'.
Edges carry a label: 'next', 'true', 'false', 'exc', 'loop', 'done', 'break', 'continue', 'return'.

Exception edges: every statement that contains a call, an await, a subscript, a raise or an
assert gets an 'exc' edge to each handler of the innermost enclosing try (and onwards to the outer
handlers / the 'raise' node unless one handler catches Exception/BaseException or is bare).
A `with` whose context manager is declared *suppressing* by the caller (tenacity's `with attempt`)
additionally receives the body's exception edges at its exit node.

The single path primitive is reachability avoiding a set of nodes, from which dominance,
must-pass-through and "no await between A and B" are derived.  asyncio can switch tasks only at a
suspending await; the await nodes are exactly the nodes whose statement contains ast.Await, plus
async-for headers and async-with entries/exits.
"""
from __future__ import annotations

import ast

class Node:
    __slots__ = ('id', 'kind', 'ast', 'line', 'label')
    def __init__(self, id, kind, node=None, label=''):
        self.id = id; self.kind = kind; self.ast = node
        self.line = getattr(node, 'lineno', 0)
        self.label = label
    def __repr__(self):
        return f"<{self.id}:{self.kind}@{self.line} {self.label}>"

def _own_exprs(stmt):
    """expression nodes evaluated by this statement itself (not by nested statements)"""
    if isinstance(stmt, (ast.If, ast.While)):
        return [stmt.test]
    if isinstance(stmt, (ast.For, ast.AsyncFor)):
        return [stmt.iter]
    if isinstance(stmt, (ast.With, ast.AsyncWith)):
        return [i.context_expr for i in stmt.items]
    if isinstance(stmt, ast.Try):
        return []
    if isinstance(stmt, (ast.FunctionDef, ast.AsyncFunctionDef, ast.ClassDef)):
        return []
    return [stmt]

def walk_no_nested(node):
    """ast.walk that does not enter nested function/lambda/class bodies"""
    stack = [node]
    while stack:
        n = stack.pop()
        yield n
        for ch in ast.iter_child_nodes(n):
            if isinstance(ch, (ast.FunctionDef, ast.AsyncFunctionDef, ast.Lambda, ast.ClassDef)):
                continue
            stack.append(ch)

def contains(stmt_or_expr_list, types):
    for e in stmt_or_expr_list:
        for n in walk_no_nested(e):
            if isinstance(n, types):
                return True
    return False

CATCH_ALL = {'Exception', 'BaseException'}

def handler_names(h):
    if h.type is None:
        return ['<bare>']
    if isinstance(h.type, ast.Tuple):
        return [ast.unparse(e) for e in h.type.elts]
    return [ast.unparse(h.type)]

class CFG:
    def __init__(self, fn, suppressing=None):
        self.fn = fn
        self.nodes = []
        self.succ = {}
        self.pred = {}
        self.suppressing = suppressing or (lambda w: False)
        self.entry = self._new('entry', fn)
        self.exit = self._new('exit', fn)
        self.raise_exit = self._new('raise', fn)
        self.stmt_node = {}     # ast stmt -> node id (first node of that statement)
        self.approx = []
        first = self._block(fn.body, self.exit.id, {'break': None, 'continue': None, 'handlers': []})
        self._edge(self.entry.id, first, 'next')

    # -- construction
    def _new(self, kind, node=None, label=''):
        n = Node(len(self.nodes), kind, node, label)
        self.nodes.append(n)
        self.succ[n.id] = []
        self.pred[n.id] = []
        return n

    def _edge(self, a, b, label):
        if (b, label) not in self.succ[a]:
            self.succ[a].append((b, label))
            self.pred[b].append((a, label))

    def _exc_edges(self, nid, ctx):
        """exception raised at node nid: to the handlers in scope, outward until a catch-all"""
        for level in reversed(ctx['handlers']):
            kind = level[0]
            if kind == 'try':
                caught_all = False
                for hid, names in level[1]:
                    self._edge(nid, hid, 'exc')
                    if any(n in CATCH_ALL or n == '<bare>' for n in names):
                        caught_all = True
                        break
                if caught_all:
                    return
            elif kind == 'with':
                self._edge(nid, level[1], 'exc')     # suppressing context manager: continue after the with
                # a suppressing manager may also decline: keep propagating
        self._edge(nid, self.raise_exit.id, 'exc')

    def _block(self, stmts, nxt, ctx):
        """build nodes for stmts; returns id of the first node (or nxt if empty)"""
        if not stmts:
            return nxt
        # build backwards so that each statement knows its successor
        cur = nxt
        for s in reversed(stmts):
            cur = self._stmt(s, cur, ctx)
        return cur

    def _stmt(self, s, nxt, ctx):
        if isinstance(s, ast.If):
            n = self._new('test', s, 'if')
            self.stmt_node[s] = n.id
            t = self._block(s.body, nxt, ctx)
            f = self._block(s.orelse, nxt, ctx)
            self._edge(n.id, t, 'true'); self._edge(n.id, f, 'false')
            if contains([s.test], (ast.Call, ast.Await, ast.Subscript)):
                self._exc_edges(n.id, ctx)
            return n.id
        if isinstance(s, ast.While):
            n = self._new('test', s, 'while')
            self.stmt_node[s] = n.id
            after = self._block(s.orelse, nxt, ctx)
            inner = dict(ctx); inner['break'] = nxt; inner['continue'] = n.id
            body = self._block(s.body, n.id, inner)
            self._edge(n.id, body, 'true')
            const_true = isinstance(s.test, ast.Constant) and bool(s.test.value)
            if not const_true:
                self._edge(n.id, after, 'false')
            if contains([s.test], (ast.Call, ast.Await, ast.Subscript)):
                self._exc_edges(n.id, ctx)
            return n.id
        if isinstance(s, (ast.For, ast.AsyncFor)):
            n = self._new('iter', s, 'asyncfor' if isinstance(s, ast.AsyncFor) else 'for')
            self.stmt_node[s] = n.id
            after = self._block(s.orelse, nxt, ctx)
            inner = dict(ctx); inner['break'] = nxt; inner['continue'] = n.id
            body = self._block(s.body, n.id, inner)
            self._edge(n.id, body, 'loop'); self._edge(n.id, after, 'done')
            self._exc_edges(n.id, ctx)
            return n.id
        if isinstance(s, (ast.With, ast.AsyncWith)):
            n = self._new('with', s, 'asyncwith' if isinstance(s, ast.AsyncWith) else 'with')
            self.stmt_node[s] = n.id
            x = self._new('withexit', s, n.label)
            self._edge(x.id, nxt, 'next')
            inner = dict(ctx)
            if self.suppressing(s):
                inner['handlers'] = ctx['handlers'] + [('with', x.id)]
            # break/continue/return inside a with run __exit__ first; modelled as direct jumps (exit has no effect on the rules)
            body = self._block(s.body, x.id, inner)
            self._edge(n.id, body, 'next')
            self._exc_edges(n.id, ctx)
            return n.id
        if isinstance(s, ast.Try):
            after = nxt
            if s.finalbody:
                self.approx.append(f"try/finally at line {s.lineno}: finally modelled on the normal path only")
                after = self._block(s.finalbody, nxt, ctx)
            hs = []
            for h in s.handlers:
                hn = self._new('handler', h, ','.join(handler_names(h)))
                hb = self._block(h.body, after, ctx)
                self._edge(hn.id, hb, 'next')
                hs.append((hn.id, handler_names(h)))
            orelse = self._block(s.orelse, after, ctx)
            inner = dict(ctx); inner['handlers'] = ctx['handlers'] + [('try', hs)]
            body = self._block(s.body, orelse, inner)
            self.stmt_node[s] = body
            return body
        if isinstance(s, (ast.FunctionDef, ast.AsyncFunctionDef, ast.ClassDef)):
            n = self._new('stmt', s, 'def')
            self.stmt_node[s] = n.id
            self._edge(n.id, nxt, 'next')
            return n.id
        # simple statements
        n = self._new('stmt', s, type(s).__name__)
        self.stmt_node[s] = n.id
        if isinstance(s, ast.Return):
            self._edge(n.id, self.exit.id, 'return')
            if s.value is not None and contains([s.value], (ast.Call, ast.Await, ast.Subscript)):
                self._exc_edges(n.id, ctx)
            return n.id
        if isinstance(s, ast.Raise):
            self._exc_edges(n.id, ctx)
            return n.id
        if isinstance(s, ast.Break):
            if ctx['break'] is None:
                raise ValueError('break outside loop')
            self._edge(n.id, ctx['break'], 'break')
            return n.id
        if isinstance(s, ast.Continue):
            self._edge(n.id, ctx['continue'], 'continue')
            return n.id
        self._edge(n.id, nxt, 'next')
        if isinstance(s, ast.Assert) or contains([s], (ast.Call, ast.Await, ast.Subscript)):
            self._exc_edges(n.id, ctx)
        return n.id

    # -- queries
    def node_of(self, stmt):
        return self.stmt_node.get(stmt)

    def reach(self, src, avoid=(), labels_excluded=(), include_src=False):
        """set of node ids reachable from src (src itself only if on a cycle or include_src) without entering `avoid`"""
        avoid = set(avoid)
        seen = set()
        stack = [src]
        first = True
        while stack:
            u = stack.pop()
            for v, lab in self.succ[u]:
                if lab in labels_excluded or v in avoid or v in seen:
                    continue
                seen.add(v)
                stack.append(v)
        if include_src:
            seen.add(src)
        return seen

    def can_reach(self, src, dst, avoid=(), labels_excluded=()):
        return dst in self.reach(src, avoid, labels_excluded) or src == dst

    def dominates(self, a, b):
        """every path entry -> b passes through a"""
        if a == b:
            return True
        return b not in self.reach(self.entry.id, avoid=[a])

    def is_await(self, nid):
        n = self.nodes[nid]
        if n.kind in ('iter',) and isinstance(n.ast, ast.AsyncFor):
            return True
        if n.kind in ('with', 'withexit') and isinstance(n.ast, ast.AsyncWith):
            return True
        if n.kind in ('stmt', 'test', 'iter', 'with'):
            return contains(_own_exprs(n.ast), ast.Await)
        return False

    def await_nodes(self):
        return {n.id for n in self.nodes if self.is_await(n.id)}

    def path(self, src, dst, avoid=(), labels_excluded=()):
        """one shortest path src..dst avoiding `avoid` (list of node ids) or None"""
        from collections import deque
        avoid = set(avoid)
        prev = {src: None}
        dq = deque([src])
        while dq:
            u = dq.popleft()
            for v, lab in self.succ[u]:
                if lab in labels_excluded or v in avoid or v in prev:
                    continue
                prev[v] = u
                if v == dst:
                    out = [v]
                    while prev[out[-1]] is not None:
                        out.append(prev[out[-1]])
                    return list(reversed(out))
                dq.append(v)
        return None

    def nodes_where(self, pred):
        return [n.id for n in self.nodes if n.ast is not None and n.kind in ('stmt', 'test', 'iter', 'with') and pred(n)]

    def describe(self, path):
        return [f"{self.nodes[i].kind}@{self.nodes[i].line}" for i in path]

def stmt_calls(node, pred):
    """Call nodes evaluated by the statement at `node` satisfying pred"""
    out = []
    for e in _own_exprs(node):
        for n in walk_no_nested(e):
            if isinstance(n, ast.Call) and pred(n):
                out.append(n)
    return out

def call_name(c):
    """dotted name of a call's callee: self.x.y(...) -> 'self.x.y'"""
    try:
        return ast.unparse(c.func)
    except Exception:
        return ''


# ------------------------------------------------------------------------------------------------------------
# forward must-analysis of one boolean fact, with branch refinement
# ------------------------------------------------------------------------------------------------------------
def must_fact(g, gen_nodes=(), gen_edges=(), kill_nodes=(), entry_value=False, exc_keeps=True):
    """IN[n] for every node: the fact holds on *every* path from the entry to n.
    gen_nodes: the fact holds after the node completed normally; gen_edges: {(node id, label)} edges that establish it
    (a test outcome that implies it); kill_nodes: the fact is lost after the node.  On an 'exc' edge out of a gen node the
    fact is not established (the statement may not have completed); `exc_keeps`: other nodes pass the incoming fact along
    their exception edges."""
    gen_nodes, gen_edges, kill_nodes = set(gen_nodes), set(gen_edges), set(kill_nodes)
    ids = [n.id for n in g.nodes]
    IN = {i: True for i in ids}
    IN[g.entry.id] = entry_value
    preds = {i: [] for i in ids}
    for u in ids:
        for v, l in g.succ[u]:
            preds[v].append((u, l))
    def out(u, l):
        if (u, l) in gen_edges:
            return True
        if u in kill_nodes:
            return False
        if u in gen_nodes:
            return l != 'exc'
        if l == 'exc' and not exc_keeps:
            return False
        return IN[u]
    changed = True
    while changed:
        changed = False
        for n in ids:
            if n == g.entry.id:
                continue
            if not preds[n]:
                continue
            v = all(out(u, l) for u, l in preds[n])
            if v != IN[n]:
                IN[n] = v
                changed = True
    return IN

def eval3(test, atom):
    """three-valued evaluation of a boolean expression: atom(node) -> True / False / None for a sub-expression it knows, NotImplemented otherwise"""
    r = atom(test)
    if r is not NotImplemented:
        return r
    if isinstance(test, ast.UnaryOp) and isinstance(test.op, ast.Not):
        v = eval3(test.operand, atom)
        return None if v is None else (not v)
    if isinstance(test, ast.BoolOp):
        vals = [eval3(v, atom) for v in test.values]
        if isinstance(test.op, ast.And):
            if any(v is False for v in vals): return False
            if all(v is True for v in vals): return True
            return None
        if any(v is True for v in vals): return True
        if all(v is False for v in vals): return False
        return None
    if isinstance(test, ast.Constant):
        return bool(test.value)
    return None

def reach_with_flags(g, start, avoid=(), atom=None, follow_exc=False, facts=None, taint=None):
    """node ids reachable from `start` without entering `avoid`, path-sensitively for boolean-like locals: along each path the analysis
    remembers, for every local name whose last assignment was None / True / False / an exception object bound by a handler, that value, and
    at a test node follows only the outcomes consistent with eval3(test, atom + those facts).  `atom` decides further sub-expressions
    (NotImplemented: not mine).  Exact for the flag idiom (`failed = None ... except E as e: failed = e ... if failed is not None`);
    anything else about a name forgets it.
    With `taint` (a predicate on test expressions) the result is a pair (reachable, surely reachable): a path counts as sure when no test it
    passes is both undecided and tainted -- i.e. every undecided test on it is one whose two outcomes are both possible in the assumed world."""
    avoid = set(avoid)
    if start in avoid:
        return set() if taint is None else (set(), set())
    def effect(n, f):
        f = dict(f)
        a = n.ast
        if n.kind == 'handler' and getattr(a, 'name', None):
            f[a.name] = 'obj'
        elif n.kind == 'stmt' and isinstance(a, (ast.Assign, ast.AnnAssign)) and getattr(a, 'value', None) is not None:
            tg = a.targets if isinstance(a, ast.Assign) else [a.target]
            for t in tg:
                for x in ast.walk(t):
                    if isinstance(x, ast.Name):
                        f.pop(x.id, None)
            if len(tg) == 1 and isinstance(tg[0], ast.Name):
                v = a.value
                if isinstance(v, ast.Constant) and (v.value is None or isinstance(v.value, bool)):
                    f[tg[0].id] = 'none' if v.value is None else v.value
                elif isinstance(v, ast.Name) and f.get(v.id) is not None and v.id in f:
                    f[tg[0].id] = f[v.id]
                else:
                    # a conditional expression whose tests are decided here and whose chosen arm is a constant
                    cur = v
                    for _ in range(6):
                        if isinstance(cur, ast.IfExp):
                            tv_ = decide(cur.test, f)
                            if tv_ is None:
                                cur = None; break
                            cur = cur.body if tv_ else cur.orelse
                        else:
                            break
                    if isinstance(cur, ast.Constant):
                        c_ = cur.value
                        f[tg[0].id] = 'none' if c_ is None else (c_ if isinstance(c_, bool) else ('obj' if c_ else False))
        elif n.kind == 'stmt' and isinstance(a, (ast.AugAssign, ast.Delete, ast.For, ast.AsyncFor, ast.With, ast.AsyncWith)):
            for x in ast.walk(a):
                if isinstance(x, ast.Name) and isinstance(x.ctx, (ast.Store, ast.Del)):
                    f.pop(x.id, None)
        return f
    def decide(test, f):
        def at(e):
            if isinstance(e, ast.Name) and e.id in f:
                return {'none': False, 'obj': True, True: True, False: False}[f[e.id]]
            if isinstance(e, ast.Compare) and len(e.ops) == 1 and isinstance(e.left, ast.Name) and e.left.id in f and isinstance(e.comparators[0], ast.Constant) and e.comparators[0].value is None \
                    and isinstance(e.ops[0], (ast.Is, ast.IsNot, ast.Eq, ast.NotEq)):
                isnone = f[e.left.id] == 'none'
                return isnone if isinstance(e.ops[0], (ast.Is, ast.Eq)) else not isnone
            if atom is not None:
                return atom(e)
            return NotImplemented
        return eval3(test, at)
    seen = set()
    out = set()
    sure = set()
    stack = [(start, tuple(sorted((facts or {}).items(), key=repr)), False)]
    while stack:
        u, fk, dirty = stack.pop()
        if (u, fk, dirty) in seen or (dirty and (u, fk, False) in seen):
            continue
        seen.add((u, fk, dirty))
        out.add(u)
        if not dirty:
            sure.add(u)
        if len(seen) > 40000:
            break
        n = g.nodes[u]
        f = dict(fk)
        is_test = n.kind == 'test' and hasattr(n.ast, 'test')
        tv = decide(n.ast.test, f) if is_test else None
        d2 = dirty or bool(taint is not None and is_test and tv is None and taint(n.ast.test))
        f2 = effect(n, f)
        k2 = tuple(sorted(f2.items(), key=repr))
        for v, l in g.succ[u]:
            if l == 'exc' and not follow_exc:
                continue
            if tv is True and l == 'false': continue
            if tv is False and l == 'true': continue
            if v in avoid:
                continue
            stack.append((v, k2 if l != 'exc' else fk, d2 if l in ('true', 'false') else dirty))
    return out if taint is None else (out, sure)

def implied_edges(g, atom_false_world):
    """edges (test node id, label) that can only be taken when the `world` assumed by atom_false_world does NOT hold:
    the test evaluates to a constant b in that world, so the edge `not b` implies the world's negation"""
    out = set()
    for n in g.nodes:
        if n.kind == 'test':
            v = eval3(n.ast.test, atom_false_world)
            if v is True:
                out.add((n.id, 'false'))
            elif v is False:
                out.add((n.id, 'true'))
    return out
