"""absint.py -- abstract interpreter over the byte/bit-provenance domain.

Used for the packet-building and packet-parsing code of encoder.py / decoder.py (C03, C06, C07).
Integers that describe *shape* (lengths, counts, indices, the 3-bit sequence counter) are concrete;
*contents* are abstract.  Domain:

  AInt(v | bits)   an int that is either concrete or a bitprov vector (each bit 0, 1 or (symbol,k))
  ABytes(items)    a bytes value of concrete length; each item is ('c', v) constant byte,
                   ('b', vec8) a byte whose 8 bits carry the given provenance, or ('u', why)
  AStr(pieces)     text as a sequence of pieces: ('lit', s) | ('hexint', AInt, width) |
                   ('decint', AInt) | ('hexbytes', items)   (enough for the two text wire formats)
  AList, tuple     containers of abstract values
  AObj             object with abstract attributes
  AOpaque          a value the rules do not care about (timestamps, log strings)

Loops run because their trip counts are shape integers; a branch whose condition is abstract is an
analysis error (Unknown) unless the two sides are provably identical provenance.  No code of the
repository is executed: this module interprets the syntax tree over the values above.
"""
from __future__ import annotations

import ast
import operator as _op

from . import bitprov as B

class Unknown(Exception):
    pass

class AOpaque:
    def __init__(self, what=''):
        self.what = what
    def __repr__(self):
        return f"<opaque {self.what}>"

class AInt:
    __slots__ = ('v', 'bits', 'rng')
    def __init__(self, v=None, bits=None, rng=None):
        self.v = v
        self.bits = None if bits is None else list(bits)
        if v is None and self.bits is not None and all(isinstance(b, int) and not isinstance(b, bool) and b in (0, 1) for b in self.bits):
            self.v = sum(b << k for k, b in enumerate(self.bits))          # every bit known: a number
        self.rng = rng          # (lo, hi) when only a range is known (e.g. int.bit_length() of an abstract value)
    def __repr__(self):
        return f"AInt({self.v if self.v is not None else B.show_vec(self.bits) if self.bits is not None else '?'})"
    def vec(self):
        if self.v is not None:
            return B.const_bits(self.v) if isinstance(self.v, int) and self.v >= 0 else None
        return self.bits
    def same(self, other):
        if self.v is not None and other.v is not None:
            return self.v == other.v
        a, b = self.vec(), other.vec()
        if a is None or b is None:
            return None
        a, b = B.trim(a), B.trim(b)
        if a == b:
            return True
        return None

class AFloat:
    """an IEEE-754 value known by the provenance of its bit pattern (`bits`, little-endian, `width` 32 or 64)"""
    __slots__ = ('bits', 'width')
    def __init__(self, bits, width=32):
        self.bits = list(bits)
        self.width = width
    def __repr__(self):
        return f"AFloat{self.width}({B.show_vec(self.bits)})"

_STRUCT = {'I': (4, 'int'), 'L': (4, 'int'), 'i': (4, 'sint'), 'l': (4, 'sint'), 'f': (4, 'float'), 'd': (8, 'float'), 'Q': (8, 'int'), 'q': (8, 'sint'), 'H': (2, 'int'), 'h': (2, 'sint'), 'B': (1, 'int'), 'b': (1, 'sint'), 'x': (1, 'pad')}

def _struct_fmt(fmt):
    """'<I' / '>BI' / '<5BI' -> (byte order, [(size, kind), ...]) for formats made of the integer / float codes (with repeat counts); None otherwise.
    Only the explicit-order prefixes (no native alignment)."""
    if not isinstance(fmt, str) or not fmt:
        return None
    f = fmt.replace(' ', '')
    if f[0] not in '<>=!':
        if len(f) == 1 and f in _STRUCT:          # native order, one item: no padding involved
            return ('little', [_STRUCT[f]])
        return None
    order = 'big' if f[0] in '>!' else 'little'
    f = f[1:]
    fields = []
    num = ''
    for ch in f:
        if ch.isdigit():
            num += ch
            continue
        if ch not in _STRUCT:
            return None
        fields.extend([_STRUCT[ch]] * (int(num) if num else 1))
        num = ''
    if num or not fields:
        return None
    return order, fields

class ALin:
    """an integer known as a linear combination of whole input bytes: const + sum(coeff * byte), optionally reduced mod `mod`
    (what a checksum is).  coeffs: {byte symbol (src, i): int}"""
    __slots__ = ('coeffs', 'const', 'mod')
    def __init__(self, coeffs=None, const=0, mod=None):
        self.coeffs = {k: v for k, v in (coeffs or {}).items() if v}
        self.const = const
        self.mod = mod
    def __repr__(self):
        return f"ALin({len(self.coeffs)} bytes + {self.const}{' mod ' + str(self.mod) if self.mod else ''})"
    def key(self):
        return (tuple(sorted(self.coeffs.items(), key=repr)), self.const, self.mod)

def lin_to_vec(l):
    """an ALin whose bytes sit at disjoint power-of-two places (b0 + 256*b1 + ...) as a bit vector; None otherwise"""
    if l.mod is not None or not isinstance(l.const, int) or l.const < 0:
        return None
    vec = {}
    for src, c in l.coeffs.items():
        if not isinstance(c, int) or c <= 0 or c & (c - 1):
            return None
        sh = c.bit_length() - 1
        bits = list(src[1]) if isinstance(src, tuple) and len(src) == 2 and src[0] == 'bits' else [(src, k) for k in range(8)]
        for k, b in enumerate(bits):
            if b == 0:
                continue
            if sh + k in vec:
                return None
            vec[sh + k] = b
    for k in range(l.const.bit_length()):
        if (l.const >> k) & 1:
            if k in vec:
                return None
            vec[k] = 1
    n = max(vec) + 1 if vec else 1
    return [vec.get(k, 0) for k in range(n)]

def as_lin(x):
    """AInt / ALin -> ALin or None (an abstract int is linear only when it is exactly one whole input byte, possibly shifted)"""
    if isinstance(x, ALin):
        return x
    if isinstance(x, AInt) and x.v is None:
        v0 = x.vec()
        if v0 is not None:
            v0 = B.trim(v0)
            sh = 0
            while sh < len(v0) and v0[sh] == 0:
                sh += 1
            if sh and len(v0) - sh == 8 and all(isinstance(b, tuple) and b[0] == v0[sh][0] and b[1] == k for k, b in enumerate(v0[sh:])):
                return ALin({v0[sh][0]: 1 << sh})
    if isinstance(x, AInt):
        if x.v is not None and isinstance(x.v, int):
            return ALin({}, x.v)
        v = x.vec()
        if v is not None:
            v = B.trim(v)
            if len(v) == 8 and all(isinstance(b, tuple) and b[0] == v[0][0] and b[1] == k for k, b in enumerate(v)):
                return ALin({v[0][0]: 1})
            if 0 < len(v) <= 8 and any(isinstance(b, tuple) for b in v):
                # a byte with arbitrary provenance: an opaque byte-valued symbol named by its bits
                return ALin({('bits', tuple(v) + (0,) * (8 - len(v))): 1})
    return None

MARKER_BYTES = (0xaa, 0x55)

def item_eq(a, b):
    """equality of two byte items: True / False / None (unknown).  ('x', tag) is a byte that differs from every byte constant the program
    mentions (there are finitely many, so such bytes exist): in particular neither 0xAA nor 0x55."""
    if a == b and a[0] in ('c', 'x', 'b'):
        return True
    if a[0] == 'c' and b[0] == 'c':
        return a[1] == b[1]
    for p, q in ((a, b), (b, a)):
        if p[0] == 'x' and q[0] == 'c':
            return False
    return None

def bytes_find(hay, needle, start=0):
    """index of the first occurrence of needle (items) in hay (items) at or after start, -1 if none; raises Unknown when a comparison is undecided"""
    n, m = len(hay), len(needle)
    for i in range(max(start, 0), n - m + 1):
        ok = True
        for j in range(m):
            e = item_eq(hay[i + j], needle[j])
            if e is None:
                raise Unknown('a byte comparison inside find() is undecided')
            if not e:
                ok = False
                break
        if ok:
            return i
    return -1

def sym_byte(src, i):
    return ('b', tuple(((src, i), k) for k in range(8)))

def sym_int(name, width):
    return AInt(None, [(name, k) for k in range(width)])

class ABytes:
    __slots__ = ('items', 'mutable')
    def __init__(self, items, mutable=False):
        self.items = list(items)
        self.mutable = mutable          # bytearray
    def __len__(self):
        return len(self.items)
    def __repr__(self):
        return f"ABytes({len(self.items)})"

class AList:
    __slots__ = ('items',)
    def __init__(self, items=None):
        self.items = list(items or [])
    def __repr__(self):
        return f"AList({self.items!r})"

class ADict:
    """dictionary with concrete (shape) keys and abstract values"""
    __slots__ = ('items',)
    def __init__(self, items=None):
        self.items = dict(items or {})
    def __repr__(self):
        return f"ADict({list(self.items)})"

class AStr:
    __slots__ = ('pieces',)
    def __init__(self, pieces):
        self.pieces = list(pieces)
    def __repr__(self):
        return f"AStr({self.pieces!r})"
    def literal(self):
        if all(p[0] == 'lit' for p in self.pieces):
            return ''.join(p[1] for p in self.pieces)
        return None

KEY_ORIGIN = {}      # concrete key of an enum member -> an abstract value of that member

class AObj:
    def __init__(self, **attrs):
        self.attrs = dict(attrs)

class _GenClose(BaseException):
    pass

class CallIter:
    """iter(callable, sentinel): the callable is called when the consumer asks for the next item, so that what the loop body does between two
    calls is seen by the next call, as in Python"""
    def __init__(self, interp, f, sentinel, node, env):
        self.interp, self.f, self.sentinel, self.node, self.env = interp, f, sentinel, node, env
        self.done = False
    def __iter__(self):
        return self
    def __next__(self):
        if self.done:
            raise StopIteration
        it = self.interp
        it.steps += 1
        if it.steps > it.max_steps:
            raise Unknown('step budget exhausted')
        v = it.apply_callable(self.f, [], {}, self.node, self.env)
        if it.truth(it.compare(ast.Eq(), v, self.sentinel, self.node), self.node):
            self.done = True
            raise StopIteration
        return v

class LazyGen:
    """a generator function whose body has effects between items: run item by item (in a helper thread that strictly alternates with the
    consumer), so that what the consumer does between two items and what the generator does on resumption interleave as in Python"""
    def __init__(self, interp, fn, env):
        import queue
        self.interp, self.fn, self.env = interp, fn, env
        self.out = queue.Queue()
        self.resume = queue.Queue()
        self.started = False
        self.done = False
    def __iter__(self):
        return self
    def _run(self):
        import threading
        threading.current_thread().n2k_gen = self
        try:
            try:
                self.interp.block(self.fn.body, self.env)
            except ReturnSignal:
                pass
            self.out.put(('return', None))
        except _GenClose:
            self.out.put(('closed', None))
        except BaseException as e:
            self.out.put(('exc', e))
    def __next__(self):
        import threading
        if self.done:
            raise StopIteration
        if not self.started:
            self.started = True
            t = threading.Thread(target=self._run, daemon=True)
            t.start()
        else:
            self.resume.put('next')
        kind, val = self.out.get()
        if kind == 'yield':
            return val
        self.done = True
        if kind == 'exc':
            raise val
        raise StopIteration
    def close(self):
        if self.started and not self.done:
            self.resume.put('close')
            self.out.get()
        self.done = True

class AFunc:
    """a function value: a def of the interpreted module (or a nested def with the environment it closes over), with the module whose names it sees"""
    __slots__ = ('fn', 'closure', 'module', 'bound')
    def __init__(self, fn, closure=None, module=None, bound=None):
        self.fn = fn
        self.closure = closure
        self.module = module
        self.bound = bound          # receiver of a bound method / class of a classmethod
    def __repr__(self):
        return f"<function {self.fn.name}>"

class ADictOf:
    """vars(obj) / obj.__dict__: the attribute dictionary of an abstract object (identity matters, contents are the object's attributes)"""
    __slots__ = ('obj',)
    def __init__(self, obj):
        self.obj = obj
    def __repr__(self):
        return f"<__dict__ of {self.obj!r}>"

TREE_OWNER = {}      # id(module tree) -> (resolver: sibling module name -> tree or None, module name); registered by model.Program

class AClass:
    """a class of the package as a value: instantiated, or used for its static / class methods and class-level constants"""
    __slots__ = ('cdef', 'module')
    def __init__(self, cdef, module=None):
        self.cdef = cdef
        self.module = module
    def __repr__(self):
        return f"<class {self.cdef.name}>"

class ModuleEnv:
    """module-level names for the interpreter: functions become AFunc, classes AClass, simple assignments are evaluated on first use,
    `from .sibling import name` is followed into the sibling module (its own names resolve there), anything else is opaque"""
    _by_tree = {}
    def __new__(cls, tree):
        ex = cls._by_tree.get(id(tree))
        if ex is not None and ex.tree is tree:
            return ex
        o = super().__new__(cls)
        cls._by_tree[id(tree)] = o
        o._init(tree)
        return o
    def __init__(self, tree):
        pass
    def _init(self, tree):
        self.tree = tree
        self.funcs = {n.name: n for n in tree.body if isinstance(n, (ast.FunctionDef, ast.AsyncFunctionDef))}
        self.classes = {n.name: n for n in tree.body if isinstance(n, ast.ClassDef)}
        self.assigns = {}
        self.imports = {}      # local name -> (sibling module name, name there | None for the module itself)
        for n in tree.body:
            if isinstance(n, ast.Assign) and len(n.targets) == 1 and isinstance(n.targets[0], ast.Name):
                self.assigns[n.targets[0].id] = n.value
            elif isinstance(n, ast.AnnAssign) and isinstance(n.target, ast.Name) and n.value is not None:
                self.assigns[n.target.id] = n.value
            elif isinstance(n, ast.ImportFrom) and n.level == 1:
                for al in n.names:
                    if n.module is None:
                        self.imports[al.asname or al.name] = (al.name, None)
                    elif al.name != '*':
                        self.imports[al.asname or al.name] = (n.module, al.name)
        self.cache = {}
    def sibling(self, name):
        own = TREE_OWNER.get(id(self.tree))
        if own is None:
            return None
        t = own[0](name)
        return ModuleEnv(t) if t is not None else None
    def lookup(self, name, seen=()):
        """-> ('func', def, env) | ('class', ClassDef, env) | ('assign', expr, env) | ('module', env) | None"""
        if name in self.funcs:
            return ('func', self.funcs[name], self)
        if name in self.classes:
            return ('class', self.classes[name], self)
        if name in self.assigns:
            return ('assign', self.assigns[name], self)
        if name in self.imports and (id(self), name) not in seen:
            mod, orig = self.imports[name]
            sib = self.sibling(mod)
            if sib is None:
                return None
            if orig is None:
                return ('module', sib)
            return sib.lookup(orig, seen + ((id(self), name),))
        return None

_TYPE_NAMES = {'bytes', 'bytearray', 'int', 'str', 'float', 'bool', 'list', 'dict', 'tuple', 'set', 'NoneType'}

class ReturnSignal(Exception):
    def __init__(self, value):
        self.value = value

class _Break(Exception):
    pass

class _Continue(Exception):
    pass

class RaiseSignal(Exception):
    def __init__(self, node):
        self.node = node

class PyError(RaiseSignal):
    """an exception the interpreted operation itself raises (IndexError of a sequence index out of range)"""
    def __init__(self, kind, line=0):
        self.kind = kind
        self.node = None
        self.line = line
    def __str__(self):
        return f"{self.kind} at line {self.line}"

def exc_kind(r):
    """name of the exception class a RaiseSignal stands for ('?' when it cannot be told)"""
    if isinstance(r, PyError):
        return r.kind
    n = getattr(r, 'node', None)
    e = getattr(n, 'exc', None)
    if isinstance(e, ast.Call):
        e = e.func
    if isinstance(e, ast.Name):
        return e.id
    if isinstance(e, ast.Attribute):
        return e.attr
    return '?'

def handler_matches(h, kind):
    import builtins
    names = []
    t = h.type
    if t is None:
        return True
    for x in (t.elts if isinstance(t, ast.Tuple) else [t]):
        names.append(x.id if isinstance(x, ast.Name) else (x.attr if isinstance(x, ast.Attribute) else '?'))
    for nme in names:
        if nme in ('Exception', 'BaseException') or nme == kind:
            return True
        a, b = getattr(builtins, kind, None), getattr(builtins, nme, None)
        if isinstance(a, type) and isinstance(b, type) and issubclass(a, b):
            return True
    if kind == '?':
        raise Unknown('an exception of unknown class meets a specific handler')
    return False

def norm_byte(vec):
    v = list(vec)[:8]
    v += [0] * (8 - len(v))
    if all(isinstance(b, int) for b in v):
        return ('c', sum(b << k for k, b in enumerate(v)))
    return ('b', tuple(v))

class Interp:
    def __init__(self, methods=None, hook=None, skip=None, max_steps=400000, classes=None, functions=None, cmp_oracle=None, module=None):
        self.module = module                 # ModuleEnv: names not bound locally are looked up here
        self.functions = functions or {}     # module-level function name -> FunctionDef: interpreted when called by name
        self.cmp_oracle = cmp_oracle         # cmp_oracle(op, a, b, node) -> bool for a comparison of sums the domain cannot decide
        self.classes = classes or {}        # class name -> ClassDef: instantiated by interpreting __init__
        self.methods = methods or {}         # method name -> FunctionDef for calls on AObj receivers
        self.hook = hook                     # hook(interp, call, env) -> value | NotImplemented ; consulted before evaluating arguments
        self.skip = skip or (lambda call: False)
        self.steps = 0
        self.max_steps = max_steps
        self.raised = None

    # ------------------------------------------------------------ function call
    def itertools_call(self, n, args, kw, e, env):
        if n == 'chain':
            out_ = []
            for a_ in args:
                out_.extend(self.iterate(a_, e))
            return AList(out_)
        if n == 'islice' and 2 <= len(args) <= 4 and all(a_ is None or (isinstance(a_, AInt) and a_.v is not None) for a_ in args[1:]):
            seq = list(self.iterate(args[0], e))
            idx = [None if a_ is None else a_.v for a_ in args[1:]]
            sl = slice(idx[0]) if len(idx) == 1 else slice(*idx)
            return AList(seq[sl])
        if n == 'compress' and len(args) == 2:
            return AList([d_ for d_, s_ in zip(self.iterate(args[0], e), self.iterate(args[1], e)) if self.truth(s_, e)])
        if n == 'accumulate' and 1 <= len(args) <= 2:
            seq = list(self.iterate(args[0], e))
            out_ = []
            acc = kw.get('initial')
            if acc is not None:
                out_.append(acc)
            for el in seq:
                if acc is None:
                    acc = el
                elif len(args) == 2:
                    acc = self.apply_callable(args[1], [acc, el], {}, e, env)
                else:
                    acc = self.binop(ast.Add(), acc, el)
                out_.append(acc)
            return AList(out_)
        if n == 'reduce' and 2 <= len(args) <= 3:
            seq = list(self.iterate(args[1], e))
            if len(args) == 3:
                acc = args[2]
            elif seq:
                acc, seq = seq[0], seq[1:]
            else:
                raise PyError('TypeError', e.lineno)
            for el in seq:
                acc = self.apply_callable(args[0], [acc, el], {}, e, env)
            return acc
        return NotImplemented

    def apply_callable(self, f, args, kw, node, env):
        """call a function value (AFunc, AClass, functools.partial / operator.* objects)"""
        if isinstance(f, AFunc):
            a_ = ([f.bound] if f.bound is not None else []) + list(args)
            return self.call_function(f.fn, a_, kw, closure=f.closure, module=f.module)
        if isinstance(f, AClass):
            return self.instantiate(f, args, kw, node)
        if isinstance(f, AObj) and '__callable__' in f.attrs:
            kind = f.attrs['__callable__']
            if kind == 'partial':
                kw2 = dict(f.attrs['kw']); kw2.update(kw)
                return self.apply_callable(f.attrs['args'][0], list(f.attrs['args'][1:]) + list(args), kw2, node, env)
            if kind == 'attrgetter' and len(args) == 1 and len(f.attrs['args']) == 1 and isinstance(f.attrs['args'][0], AStr) and f.attrs['args'][0].literal():
                env2 = {'__x': args[0]}
                cur = ast.Name(id='__x', ctx=ast.Load())
                for part in f.attrs['args'][0].literal().split('.'):
                    cur = ast.Attribute(value=cur, attr=part, ctx=ast.Load())
                ast.copy_location(cur, node); ast.fix_missing_locations(cur)
                return self.expr(cur, env2)
            if kind == 'itemgetter' and len(args) == 1 and len(f.attrs['args']) == 1:
                env2 = {'__x': args[0], '__k': f.attrs['args'][0]}
                c_ = ast.Subscript(value=ast.Name(id='__x', ctx=ast.Load()), slice=ast.Name(id='__k', ctx=ast.Load()), ctx=ast.Load())
                ast.copy_location(c_, node); ast.fix_missing_locations(c_)
                return self.expr(c_, env2)
            if kind == 'methodcaller' and len(args) == 1 and isinstance(f.attrs['args'][0], AStr) and f.attrs['args'][0].literal():
                env2 = {'__x': args[0]}
                names = []
                for i_, a_ in enumerate(f.attrs['args'][1:]):
                    env2[f"__a{i_}"] = a_; names.append(ast.Name(id=f"__a{i_}", ctx=ast.Load()))
                c_ = ast.Call(func=ast.Attribute(value=ast.Name(id='__x', ctx=ast.Load()), attr=f.attrs['args'][0].literal(), ctx=ast.Load()), args=names, keywords=[])
                ast.copy_location(c_, node); ast.fix_missing_locations(c_)
                return self.expr(c_, env2)
        raise Unknown(f"call of {f!r} at line {getattr(node, 'lineno', 0)}")

    def module_name(self, m, name):
        hit = m.lookup(name)
        if hit is None:
            return NotImplemented
        if hit[0] == 'func':
            return AFunc(hit[1], None, hit[2])
        if hit[0] == 'class':
            return AClass(hit[1], hit[2])
        if hit[0] == 'module':
            return AObj(__module_env__=hit[1])
        owner = hit[2]
        if name not in owner.cache:
            owner.cache[name] = AOpaque(name)          # cycles
            saved = self.module
            self.module = owner
            try:
                owner.cache[name] = self.expr(hit[1], {})
            except (Unknown, RaiseSignal):
                owner.cache[name] = AOpaque(name)
            finally:
                self.module = saved
        return owner.cache[name]

    def class_mro(self, ac):
        out = [ac]
        seen = {id(ac.cdef)}
        i = 0
        while i < len(out):
            c = out[i]; i += 1
            for b in c.cdef.bases:
                if isinstance(b, ast.Name) and c.module is not None:
                    hit = c.module.lookup(b.id)
                    if hit is not None and hit[0] == 'class' and id(hit[1]) not in seen:
                        seen.add(id(hit[1])); out.append(AClass(hit[1], hit[2]))
        return out

    def find_method(self, ac, name):
        for c in self.class_mro(ac):
            for n in c.cdef.body:
                if isinstance(n, (ast.FunctionDef, ast.AsyncFunctionDef)) and n.name == name:
                    return n, c
        return None, None

    @staticmethod
    def _decos(fn):
        return [d.id if isinstance(d, ast.Name) else (d.attr if isinstance(d, ast.Attribute) else (d.func.id if isinstance(d, ast.Call) and isinstance(d.func, ast.Name) else '?')) for d in fn.decorator_list]

    def base_names(self, ac):
        return {ast.unparse(b).split('.')[-1] for c in self.class_mro(ac) for b in c.cdef.bases}

    def class_attr(self, ac, name, node=None):
        """Cls.name : a static / class method, a class-level constant, an enum member"""
        fn, owner = self.find_method(ac, name)
        if fn is not None:
            d = self._decos(fn)
            if 'classmethod' in d:
                return AFunc(fn, None, owner.module, bound=ac)
            return AFunc(fn, None, owner.module)
        for c in self.class_mro(ac):
            for n in c.cdef.body:
                tg = None; val = None
                if isinstance(n, ast.Assign) and len(n.targets) == 1 and isinstance(n.targets[0], ast.Name):
                    tg, val = n.targets[0].id, n.value
                elif isinstance(n, ast.AnnAssign) and isinstance(n.target, ast.Name) and n.value is not None:
                    tg, val = n.target.id, n.value
                if tg == name:
                    key = ('classattr', id(c.cdef), name)
                    cache = c.module.cache if c.module is not None else self.__dict__.setdefault('_cattr', {})
                    if key not in cache:
                        saved = self.module
                        self.module = c.module or saved
                        try:
                            v = self.expr(val, {})
                        finally:
                            self.module = saved
                        if self.base_names(ac) & {'Enum', 'IntEnum', 'Flag', 'IntFlag', 'StrEnum'}:
                            v = AObj(**{'__class__': ac.cdef.name, '__classdef__': c.cdef, '__module__': c.module, '__enum_member__': name, 'name': AStr([('lit', name)]), 'value': v, '_value_': v})
                        cache[key] = v
                    return cache[key]
        raise Unknown(f"attribute {name} of class {ac.cdef.name} not modelled (line {getattr(node, 'lineno', 0)})")

    def instantiate(self, ac, args, kw, node=None):
        cdef = ac.cdef
        bases = self.base_names(ac)
        if bases & {'Enum', 'IntEnum', 'Flag', 'IntFlag', 'StrEnum'}:
            # Cls(value): the member with that value
            if len(args) == 1 and not kw:
                for n in cdef.body:
                    if isinstance(n, ast.Assign) and len(n.targets) == 1 and isinstance(n.targets[0], ast.Name) and not n.targets[0].id.startswith('_'):
                        mem = self.class_attr(ac, n.targets[0].id, node)
                        if isinstance(mem, AObj) and '__enum_member__' in mem.attrs:
                            try:
                                if self.truth(self.compare(ast.Eq(), mem.attrs['value'], args[0], node), node):
                                    return mem
                            except Unknown:
                                pass
                raise PyError('ValueError', getattr(node, 'lineno', 0))
            raise Unknown(f"enum construction at line {getattr(node, 'lineno', 0)}")
        obj = AObj()
        obj.attrs['__class__'] = cdef.name
        obj.attrs['__classdef__'] = cdef
        obj.attrs['__module__'] = ac.module
        for c in reversed(self.class_mro(ac)):
            saved = self.module
            self.module = c.module or saved
            try:
                obj.attrs.update(class_constants(self, c.cdef))
            finally:
                self.module = saved
        init, owner = self.find_method(ac, '__init__')
        is_dc = any(x == 'dataclass' for c in self.class_mro(ac) for x in self._decos(c.cdef))
        if init is not None:
            self.call_function(init, [obj] + list(args), kw, module=owner.module)
        elif is_dc or 'NamedTuple' in bases:
            flds = []
            for c in reversed(self.class_mro(ac)):
                flds += [(n_, c) for n_ in c.cdef.body if isinstance(n_, ast.AnnAssign) and isinstance(n_.target, ast.Name) and 'ClassVar' not in ast.unparse(n_.annotation)]
            names = [n_.target.id for n_, _ in flds]
            if len(args) > len(flds):
                raise PyError('TypeError', getattr(node, 'lineno', 0))
            given = dict(zip(names, args)); given.update(kw)
            for n_, c in flds:
                nm_ = n_.target.id
                if nm_ in given:
                    obj.attrs[nm_] = given[nm_]; continue
                v_ = n_.value
                if v_ is None:
                    raise PyError('TypeError', getattr(node, 'lineno', 0))
                saved = self.module
                self.module = c.module or saved
                try:
                    if isinstance(v_, ast.Call) and isinstance(v_.func, ast.Name) and v_.func.id == 'field':
                        fk = {k_.arg: k_.value for k_ in v_.keywords}
                        if 'default_factory' in fk:
                            c_ = ast.Call(func=fk['default_factory'], args=[], keywords=[])
                            ast.copy_location(c_, v_); ast.fix_missing_locations(c_)
                            obj.attrs[nm_] = self.expr(c_, {})
                        elif 'default' in fk:
                            obj.attrs[nm_] = self.expr(fk['default'], {})
                        else:
                            raise PyError('TypeError', getattr(node, 'lineno', 0))
                    else:
                        obj.attrs[nm_] = self.expr(v_, {})
                finally:
                    self.module = saved
            if 'NamedTuple' in bases:
                obj.attrs['__fields__'] = tuple(names)
            post, powner = self.find_method(ac, '__post_init__')
            if post is not None:
                self.call_function(post, [obj], module=powner.module)
        elif args or kw:
            raise Unknown(f"{cdef.name}(...) with arguments and no modelled constructor at line {getattr(node, 'lineno', 0)}")
        return obj

    def call_function(self, fn, args, kwargs=None, closure=None, module=None):
        if module is not None and module is not self.module:
            saved_m = self.module
            self.module = module
            try:
                return self.call_function(fn, args, kwargs, closure)
            finally:
                self.module = saved_m
        env = dict(closure) if closure else {}
        params = [a.arg for a in fn.args.args]
        for p, a in zip(params, args):
            env[p] = a
        if fn.args.vararg is not None:
            env[fn.args.vararg.arg] = tuple(args[len(params):])
        elif len(args) > len(params):
            raise PyError('TypeError', getattr(fn, 'lineno', 0))
        for k, v in (kwargs or {}).items():
            env[k] = v
        for a_, d_ in zip(fn.args.kwonlyargs, fn.args.kw_defaults):
            if a_.arg not in env and d_ is not None:
                env[a_.arg] = self.expr(d_, {})
        defaults = fn.args.defaults
        for p, d in zip(params[len(params) - len(defaults):], defaults):
            if p not in env:
                env[p] = self.expr(d, {})
        is_gen = getattr(fn, '_n2k_is_gen', None)
        if is_gen is None:
            is_gen = any(isinstance(n, (ast.Yield, ast.YieldFrom)) for st in fn.body for n in _walk_own(st))
            try:
                fn._n2k_is_gen = is_gen
            except AttributeError:
                pass
        if is_gen:
            # a generator function is run to exhaustion at the call (its items collected): only when its body cannot affect, or be affected by,
            # what the consumer does between two items -- no stores outside its locals, no calls besides pure built-ins and string formatting
            lazy = False
            for st in fn.body:
                for n in _walk_own(st):
                    if isinstance(n, (ast.Attribute, ast.Subscript)) and isinstance(n.ctx, (ast.Store, ast.Del)):
                        lazy = True
                    if isinstance(n, (ast.Await, ast.Global, ast.Nonlocal, ast.YieldFrom)):
                        raise Unknown(f"generator {fn.name}: {type(n).__name__} at line {n.lineno}")
                    if isinstance(n, ast.Delete):
                        lazy = True
                    if isinstance(n, ast.Call):
                        f_ = n.func
                        pure = (isinstance(f_, ast.Name) and f_.id in ('str', 'int', 'len', 'range', 'tuple', 'sorted', 'reversed', 'enumerate', 'zip', 'min', 'max')) or \
                            (isinstance(f_, ast.Attribute) and f_.attr in ('format', 'lower', 'upper', 'join', 'get', 'keys', 'items', 'values'))
                        if not pure:
                            lazy = True
            if lazy:
                return LazyGen(self, fn, env)
            self._yields = getattr(self, '_yields', [])
            self._yields.append([])
            try:
                try:
                    self.block(fn.body, env)
                except ReturnSignal:
                    pass
                return AList(self._yields[-1])
            finally:
                self._yields.pop()
        try:
            self.block(fn.body, env)
        except ReturnSignal as r:
            return r.value
        return None

    # ------------------------------------------------------------ statements
    def block(self, stmts, env):
        for s in stmts:
            self.stmt(s, env)

    def stmt(self, s, env):
        self.steps += 1
        if self.steps > self.max_steps:
            raise Unknown('step budget exhausted')
        if isinstance(s, ast.Expr):
            if isinstance(s.value, ast.Constant):
                return
            self.expr(s.value, env)
        elif isinstance(s, ast.Assign):
            v = self.expr(s.value, env)
            for t in s.targets:
                self.assign(t, v, env)
        elif isinstance(s, ast.AnnAssign):
            if s.value is not None:
                self.assign(s.target, self.expr(s.value, env), env)
        elif isinstance(s, ast.AugAssign):
            cur = self.expr(_load(s.target), env)
            rhs = self.expr(s.value, env)
            if isinstance(s.op, ast.Add) and isinstance(cur, ABytes) and cur.mutable and isinstance(rhs, ABytes):
                cur.items.extend(rhs.items)          # bytearray += : in place, every alias sees it
                return
            if isinstance(s.op, ast.Add) and isinstance(cur, AList) and isinstance(rhs, (AList, tuple, list)):
                cur.items.extend(rhs.items if isinstance(rhs, AList) else list(rhs))
                return
            v = self.binop(s.op, cur, rhs)
            self.assign(s.target, v, env)
        elif isinstance(s, ast.Return):
            raise ReturnSignal(self.expr(s.value, env) if s.value is not None else None)
        elif isinstance(s, ast.If):
            c = self.truth(self.expr(s.test, env), s)
            self.block(s.body if c else s.orelse, env)
        elif isinstance(s, ast.For):
            it = self.expr(s.iter, env)
            try:
              try:
                for x in self.iterate(it, s):
                    self.assign(s.target, x, env)
                    try:
                        self.block(s.body, env)
                    except _Continue:
                        continue
                else:
                    self.block(s.orelse, env)
              finally:
                if isinstance(it, LazyGen):
                    it.close()
            except _Break:
                pass
        elif isinstance(s, ast.While):
            try:
                while self.truth(self.expr(s.test, env), s):
                    self.steps += 1
                    if self.steps > self.max_steps:
                        raise Unknown('step budget exhausted')
                    try:
                        self.block(s.body, env)
                    except _Continue:
                        continue
                else:
                    self.block(s.orelse, env)
            except _Break:
                pass
        elif isinstance(s, ast.Break):
            raise _Break()
        elif isinstance(s, ast.Continue):
            raise _Continue()
        elif isinstance(s, ast.FunctionDef):
            env[s.name] = AFunc(s, env)
        elif isinstance(s, ast.Pass):
            return
        elif isinstance(s, ast.Delete):
            for t in s.targets:
                if isinstance(t, ast.Subscript):
                    o = self.expr(t.value, env)
                    if isinstance(o, (ABytes, AList)) and isinstance(t.slice, ast.Slice):
                        if isinstance(o, ABytes) and not o.mutable:
                            raise PyError('TypeError', s.lineno)
                        def idx_(x):
                            if x is None:
                                return None
                            v_ = self.expr(x, env)
                            if isinstance(v_, AInt) and v_.v is not None:
                                return v_.v
                            raise Unknown(f"abstract slice bound at line {s.lineno}")
                        del o.items[slice(idx_(t.slice.lower), idx_(t.slice.upper), idx_(t.slice.step))]
                        continue
                    if isinstance(o, (ABytes, AList)):
                        i_ = self.expr(t.slice, env)
                        if isinstance(i_, AInt) and i_.v is not None:
                            try:
                                del o.items[i_.v]
                            except IndexError:
                                raise PyError('IndexError', s.lineno)
                            continue
                    if isinstance(o, ADict):
                        k = self.key_of(self.expr(t.slice, env), s)
                        if k not in o.items:
                            raise Unknown(f"del of a missing key at line {s.lineno}")
                        del o.items[k]
                        continue
                raise Unknown(f"del target at line {s.lineno}")
        elif isinstance(s, ast.Raise):
            raise RaiseSignal(s)
        elif isinstance(s, ast.Try):
            try:
                try:
                    self.block(s.body, env)
                except RaiseSignal as r:
                    kind = exc_kind(r)
                    for h in s.handlers:
                        if handler_matches(h, kind):
                            if h.name:
                                env[h.name] = AOpaque(f"exception {kind}")
                            self.block(h.body, env)
                            break
                    else:
                        raise
                else:
                    self.block(s.orelse, env)
            finally:
                if s.finalbody:
                    self.block(s.finalbody, env)
        elif isinstance(s, ast.Assert):
            return
        elif isinstance(s, ast.Match):
            subj = self.expr(s.subject, env)
            def pat(p_, v):
                if isinstance(p_, ast.MatchValue):
                    return self.truth(self.compare(ast.Eq(), v, self.expr(p_.value, env), p_), p_)
                if isinstance(p_, ast.MatchSingleton):
                    return v is p_.value
                if isinstance(p_, ast.MatchOr):
                    return any(pat(q_, v) for q_ in p_.patterns)
                if isinstance(p_, ast.MatchAs):
                    if p_.pattern is not None and not pat(p_.pattern, v):
                        return False
                    if p_.name:
                        env[p_.name] = v
                    return True
                if isinstance(p_, ast.MatchClass) and not p_.patterns and not p_.kwd_patterns:
                    return self.truth(self.isinstance_(v, self.expr(p_.cls, env), p_), p_)
                if isinstance(p_, ast.MatchSequence) and isinstance(v, (tuple, list, AList)) and not any(isinstance(q_, ast.MatchStar) for q_ in p_.patterns):
                    items_ = v.items if isinstance(v, AList) else list(v)
                    return len(items_) == len(p_.patterns) and all(pat(q_, x_) for q_, x_ in zip(p_.patterns, items_))
                raise Unknown(f"match pattern {type(p_).__name__} at line {p_.lineno}")
            for c_ in s.cases:
                if pat(c_.pattern, subj) and (c_.guard is None or self.truth(self.expr(c_.guard, env), c_.guard)):
                    self.block(c_.body, env)
                    break
        elif isinstance(s, ast.With) and all(isinstance(i_.context_expr, ast.Call) for i_ in s.items):
            # `with open(..) as f:` on a stand-in file (a hook's object marked __file__): entering gives the object itself, leaving swallows nothing
            for i_ in s.items:
                v = self.expr(i_.context_expr, env)
                if not (isinstance(v, AObj) and v.attrs.get('__file__')):
                    raise Unknown(f"with-statement on something that is not a stand-in file at line {s.lineno}")
                if i_.optional_vars is not None:
                    self.assign(i_.optional_vars, v, env)
            self.block(s.body, env)
        else:
            raise Unknown(f"statement {type(s).__name__} at line {s.lineno}")

    def key_back(self, k):
        """the abstract value a concrete dictionary key stands for (iteration, keys(), items())"""
        if isinstance(k, bool) or k is None:
            return k
        if isinstance(k, int):
            return AInt(k)
        if isinstance(k, str) and k in KEY_ORIGIN:
            return KEY_ORIGIN[k]          # an enum member used as a key: the member, not its name
        if isinstance(k, tuple) and k[:1] == ('tuple',):
            return tuple(self.key_back(x) for x in k[1:])
        return AStr([('lit', k)])

    def key_of(self, k, node=None):
        if isinstance(k, AInt) and k.v is not None:
            return k.v
        if isinstance(k, AStr) and k.literal() is not None:
            return k.literal()
        if isinstance(k, (int, str)) or k is None:
            return k
        if isinstance(k, AOpaque) and k.what.replace('.', '').replace('_', '').isalnum() and '.' in k.what:
            KEY_ORIGIN.setdefault(k.what, k)
            return k.what           # an enum member named in the source (PhysicalQuantities.ANGLE): a name is its own key
        if isinstance(k, AObj) and '__enum_member__' in k.attrs:
            KEY_ORIGIN.setdefault(f"{k.attrs['__class__']}.{k.attrs['__enum_member__']}", k)
            return f"{k.attrs['__class__']}.{k.attrs['__enum_member__']}"
        if isinstance(k, (tuple, list)) or (isinstance(k, AList) and not getattr(k, 'mutable', True)):
            return ('tuple',) + tuple(self.key_of(x, node) for x in (k.items if isinstance(k, AList) else k))
        if isinstance(k, bool):
            return k
        raise Unknown(f"dictionary key is abstract at line {getattr(node, 'lineno', 0)}")

    def iterate(self, it, node):
        if isinstance(it, (LazyGen, CallIter)):
            return it
        if isinstance(it, ADict):
            return [self.key_back(k) for k in it.items]
        if isinstance(it, AList):
            return list(it.items)
        if isinstance(it, (tuple, list)):
            return list(it)
        if isinstance(it, range):
            return [AInt(i) for i in it]
        if isinstance(it, ABytes):
            return [self.byte_to_int(b) for b in it.items]
        if isinstance(it, AObj) and '__fields__' in it.attrs:
            return [it.attrs[k] for k in it.attrs['__fields__']]
        if isinstance(it, AClass) and self.base_names(it) & {'Enum', 'IntEnum', 'Flag', 'IntFlag', 'StrEnum'}:
            return [self.class_attr(it, n.targets[0].id, node) for n in it.cdef.body
                    if isinstance(n, ast.Assign) and len(n.targets) == 1 and isinstance(n.targets[0], ast.Name) and not n.targets[0].id.startswith('_')]
        raise Unknown(f"iteration over {type(it).__name__} at line {getattr(node, 'lineno', 0)}")

    def assign(self, t, v, env):
        if isinstance(t, ast.Name):
            env[t.id] = v
        elif isinstance(t, ast.Attribute):
            o = self.expr(t.value, env)
            if isinstance(o, AObj):
                o.attrs[t.attr] = v
            elif isinstance(o, AOpaque):
                return
            else:
                raise Unknown(f"attribute store on {type(o).__name__}")
        elif isinstance(t, ast.Subscript):
            o = self.expr(t.value, env)
            if isinstance(o, (ABytes, AList)) and isinstance(t.slice, ast.Slice):
                if isinstance(o, ABytes) and not o.mutable:
                    raise PyError('TypeError', getattr(t, 'lineno', 0))
                def idx_(x):
                    if x is None:
                        return None
                    v_ = self.expr(x, env)
                    if isinstance(v_, AInt) and v_.v is not None:
                        return v_.v
                    raise Unknown('abstract slice bound')
                new = v.items if isinstance(v, (ABytes, AList)) else None
                if new is None or t.slice.step is not None:
                    raise Unknown('slice assignment')
                o.items[slice(idx_(t.slice.lower), idx_(t.slice.upper))] = list(new)
            elif isinstance(o, ADict):
                o.items[self.key_of(self.expr(t.slice, env), t)] = v
            elif isinstance(o, AOpaque):
                return
            else:
                raise Unknown(f"subscript store on {type(o).__name__}")
        elif isinstance(t, (ast.Tuple, ast.List)):
            if isinstance(v, AOpaque):
                for e in t.elts:
                    self.assign(e, AOpaque(v.what), env)
                return
            seq = v.items if isinstance(v, AList) else v
            if isinstance(seq, ABytes):
                seq = [self.byte_to_int(b) for b in seq.items]
            if isinstance(seq, AObj) and '__fields__' in seq.attrs:
                seq = [seq.attrs[k] for k in seq.attrs['__fields__']]
            stars = [i for i, e in enumerate(t.elts) if isinstance(e, ast.Starred)]
            if isinstance(seq, (tuple, list)) and len(stars) == 1 and len(seq) >= len(t.elts) - 1:
                # a, *rest, z = seq
                i = stars[0]
                tail = len(t.elts) - i - 1
                for e, x in zip(t.elts[:i], seq[:i]):
                    self.assign(e, x, env)
                self.assign(t.elts[i].value, AList(list(seq[i:len(seq) - tail])), env)
                for e, x in zip(t.elts[i + 1:], seq[len(seq) - tail:]):
                    self.assign(e, x, env)
            elif isinstance(seq, (tuple, list)) and not stars and len(seq) == len(t.elts):
                for e, x in zip(t.elts, seq):
                    self.assign(e, x, env)
            elif isinstance(seq, (tuple, list)) and not stars:
                raise PyError('ValueError', getattr(t, 'lineno', 0))
            else:
                raise Unknown('tuple unpack')
        else:
            raise Unknown(f"assignment target {type(t).__name__}")

    # ------------------------------------------------------------ values
    def truth(self, v, node=None):
        if isinstance(v, bool):
            return v
        if isinstance(v, AInt) and v.v is not None:
            return v.v != 0
        if isinstance(v, (ABytes, AList)):
            return len(v.items) > 0
        if isinstance(v, (tuple, list)):
            return len(v) > 0
        if v is None:
            return False
        if isinstance(v, AStr) and v.literal() is not None:
            return v.literal() != ''
        if isinstance(v, AStr):
            # text with a piece of known positive length is not empty: a number in digits, the hex digits of at least one byte, a non-empty literal
            if any((p[0] == 'lit' and p[1] != '') or p[0] in ('hexint', 'decint') or (p[0] == 'hexbytes' and len(p[1]) > 0) for p in v.pieces):
                return True
            if all(p[0] == 'hexbytes' and len(p[1]) == 0 for p in v.pieces):
                return False
        if isinstance(v, AObj):
            return True
        if isinstance(v, AOpaque) and v.what == 'skipped call':
            return False          # `if logger.isEnabledFor(..)`: interpreted with that logging switched off
        raise Unknown(f"branch on an abstract value {v!r} at line {getattr(node, 'lineno', 0)}")

    def isinstance_(self, x, t, node):
        def names(t_):
            if isinstance(t_, tuple):
                out = []
                for y in t_:
                    out.extend(names(y))
                return out
            if isinstance(t_, AOpaque):
                return [t_.what.split('.')[-1]]
            if isinstance(t_, AClass):
                return [t_.cdef.name]
            raise Unknown(f"isinstance against {t_!r} at line {getattr(node, 'lineno', 0)}")
        ts = names(t)
        if isinstance(x, ABytes):
            mine = {'bytearray'} if getattr(x, 'mutable', False) else {'bytes'}
        elif isinstance(x, bool):
            mine = {'bool', 'int'}
        elif isinstance(x, AInt):
            mine = {'int'}
        elif isinstance(x, AStr):
            mine = {'str'}
        elif isinstance(x, AFloat):
            mine = {'float'}
        elif isinstance(x, AList):
            mine = {'list'}
        elif isinstance(x, ADict):
            mine = {'dict'}
        elif isinstance(x, tuple):
            mine = {'tuple'}
        elif x is None:
            mine = {'NoneType'}
        elif isinstance(x, AObj) and isinstance(x.attrs.get('__class__'), str):
            mine = {x.attrs['__class__']} | set(x.attrs.get('__bases__', ()))
            if isinstance(x.attrs.get('__classdef__'), ast.ClassDef):
                ac_ = AClass(x.attrs['__classdef__'], x.attrs.get('__module__'))
                mine |= {c_.cdef.name for c_ in self.class_mro(ac_)} | self.base_names(ac_)
                if '__fields__' in x.attrs:
                    mine.add('tuple')
                if '__enum_member__' in x.attrs and self.base_names(ac_) & {'IntEnum', 'IntFlag'}:
                    mine.add('int')
        else:
            raise Unknown(f"isinstance of {x!r} at line {getattr(node, 'lineno', 0)}")
        return any(t_ in mine for t_ in ts)

    def byte_to_int(self, b):
        if b[0] == 'c':
            return AInt(b[1])
        if b[0] == 's':
            return ALin(dict(b[1][0]), b[1][1], b[1][2])
        if b[0] == 'x':
            return AInt(None, [(('x',) + tuple(b[1:]), k) for k in range(8)])
        if b[0] == 'b':
            return AInt(None, list(b[1]))
        return AInt(None, None)

    def int_to_byte(self, x):
        if isinstance(x, ALin):
            if x.mod is not None and x.mod <= 256:
                return ('s', x.key())
            raise Unknown('byte built from an unreduced sum')
        if isinstance(x, AInt):
            if x.v is not None:
                if not 0 <= x.v <= 255:
                    raise Unknown(f"byte value {x.v} out of range")
                return ('c', x.v)
            if x.bits is not None:
                if len(B.trim(x.bits)) > 8:
                    raise Unknown('byte built from more than 8 bits')
                return norm_byte(x.bits)
        return ('u', 'abstract int')

    def expr(self, e, env):
        if isinstance(e, ast.Constant):
            v = e.value
            if isinstance(v, bool) or v is None:
                return v
            if isinstance(v, int):
                return AInt(v)
            if isinstance(v, bytes):
                return ABytes([('c', x) for x in v])
            if isinstance(v, str):
                return AStr([('lit', v)])
            if isinstance(v, float) and v == v and v not in (float('inf'), float('-inf')):
                return AInt(v)          # a concrete number: arithmetic on concrete numbers is Python's own
            return AOpaque(repr(v))
        if isinstance(e, ast.Name):
            if e.id in env:
                return env[e.id]
            if e.id in ('True', 'False', 'None'):
                return {'True': True, 'False': False, 'None': None}[e.id]
            m = self.module
            if m is not None:
                r_ = self.module_name(m, e.id)
                if r_ is not NotImplemented:
                    return r_
            return AOpaque(e.id)
        if isinstance(e, ast.Lambda):
            fdef = ast.FunctionDef(name='<lambda>', args=e.args, body=[ast.Return(value=e.body)], decorator_list=[], returns=None, type_comment=None, type_params=[])
            ast.copy_location(fdef, e); ast.fix_missing_locations(fdef)
            return AFunc(fdef, env)
        if isinstance(e, ast.NamedExpr) and isinstance(e.target, ast.Name):
            v = self.expr(e.value, env)
            env[e.target.id] = v
            return v
        if isinstance(e, ast.Attribute):
            o = self.expr(e.value, env)
            if isinstance(o, AObj):
                if e.attr in o.attrs:
                    return o.attrs[e.attr]
                if e.attr == '__dict__':
                    return ADictOf(o)
                if '__module_env__' in o.attrs:
                    r_ = self.module_name(o.attrs['__module_env__'], e.attr)
                    if r_ is NotImplemented:
                        raise Unknown(f"name {e.attr} of a sibling module not found (line {e.lineno})")
                    return r_
                cdef = o.attrs.get('__classdef__')
                fnp = None
                if isinstance(cdef, ast.ClassDef):
                    ac_ = AClass(cdef, o.attrs.get('__module__'))
                    fnp, own_ = self.find_method(ac_, e.attr)
                    if fnp is not None:
                        d_ = self._decos(fnp)
                        if 'property' in d_ or 'cached_property' in d_:
                            return self.call_function(fnp, [o], module=own_.module)
                        if 'staticmethod' in d_:
                            return AFunc(fnp, None, own_.module)
                        if 'classmethod' in d_:
                            return AFunc(fnp, None, own_.module, bound=ac_)
                        return AFunc(fnp, None, own_.module, bound=o)
                    try:
                        return self.class_attr(ac_, e.attr, e)
                    except Unknown:
                        pass
                elif e.attr in self.methods and o.attrs.get('__receiver__', True) is not False:
                    fnp = self.methods[e.attr] if any(isinstance(d, ast.Name) and d.id == 'property' for d in self.methods[e.attr].decorator_list) else None
                    if fnp is None and isinstance(self.methods[e.attr], ast.FunctionDef):
                        # a reference to a method of the receiver (handed to iter(), map(), sorted(key=..)): the bound method
                        d_ = [ast.unparse(d) for d in self.methods[e.attr].decorator_list]
                        if not d_ or d_ == ['staticmethod']:
                            return AFunc(self.methods[e.attr], None, self.module, bound=None if d_ else o)
                if fnp is not None and any(isinstance(d, ast.Name) and d.id == 'property' for d in fnp.decorator_list):
                    return self.call_function(fnp, [o])
                raise Unknown(f"attribute {e.attr} not modelled (line {e.lineno})")
            if isinstance(o, AClass):
                return self.class_attr(o, e.attr, e)
            if isinstance(o, AOpaque):
                return AOpaque(f"{o.what}.{e.attr}")
            raise Unknown(f"attribute {e.attr} of {type(o).__name__} at line {e.lineno}")
        if isinstance(e, ast.BinOp):
            return self.binop(e.op, self.expr(e.left, env), self.expr(e.right, env))
        if isinstance(e, ast.UnaryOp):
            v = self.expr(e.operand, env)
            if isinstance(e.op, ast.Not):
                return not self.truth(v, e)
            if isinstance(e.op, ast.USub) and isinstance(v, AInt) and v.v is not None:
                return AInt(-v.v)
            if isinstance(e.op, ast.Invert) and isinstance(v, AInt) and v.v is not None and isinstance(v.v, int):
                return AInt(~v.v)
            if isinstance(e.op, ast.UAdd) and isinstance(v, AInt):
                return v
            return AOpaque('unary')
        if isinstance(e, ast.BoolOp):
            if isinstance(e.op, ast.And):
                r = True
                for x in e.values:
                    r = self.expr(x, env)
                    if not self.truth(r, e):
                        return r
                return r
            r = False
            for x in e.values:
                r = self.expr(x, env)
                if self.truth(r, e):
                    return r
            return r
        if isinstance(e, ast.Compare):
            left = self.expr(e.left, env)
            for op, r in zip(e.ops, e.comparators):
                right = self.expr(r, env)
                if not self.compare(op, left, right, e):
                    return False
                left = right
            return True
        if isinstance(e, ast.IfExp):
            return self.expr(e.body if self.truth(self.expr(e.test, env), e) else e.orelse, env)
        if isinstance(e, ast.Dict):
            return ADict({self.key_of(self.expr(k, env), e): self.expr(v, env) for k, v in zip(e.keys, e.values)})
        if isinstance(e, (ast.List, ast.Tuple)):
            out_ = []
            for x in e.elts:
                if isinstance(x, ast.Starred):
                    out_.extend(self.iterate(self.expr(x.value, env), x))
                else:
                    out_.append(self.expr(x, env))
            return AList(out_) if isinstance(e, ast.List) else tuple(out_)
        if isinstance(e, ast.Subscript):
            return self.subscript(self.expr(e.value, env), e.slice, env)
        if isinstance(e, ast.Call):
            return self.call(e, env)
        if isinstance(e, ast.JoinedStr):
            pieces = []
            for v in e.values:
                if isinstance(v, ast.Constant):
                    pieces.append(('lit', v.value))
                else:
                    val = self.expr(v.value, env)
                    spec = ''
                    if v.format_spec is not None:
                        sp = self.expr(v.format_spec, env)
                        spec = sp.literal() if isinstance(sp, AStr) else ''
                    pieces.extend(self.format(val, spec or ''))
            return AStr(pieces)
        if isinstance(e, ast.DictComp):
            out = {}
            def recd(i, env2):
                if i == len(e.generators):
                    out[self.key_of(self.expr(e.key, env2), e)] = self.expr(e.value, env2)
                    return
                g = e.generators[i]
                for x in self.iterate(self.expr(g.iter, env2), e):
                    env3 = dict(env2)
                    self.assign(g.target, x, env3)
                    if all(self.truth(self.expr(c, env3), e) for c in g.ifs):
                        recd(i + 1, env3)
            recd(0, env)
            return ADict(out)
        if isinstance(e, ast.Set):
            return AList([self.expr(x, env) for x in e.elts])
        if isinstance(e, (ast.GeneratorExp, ast.ListComp, ast.SetComp)):
            out = []
            def rec(i, env2):
                if i == len(e.generators):
                    out.append(self.expr(e.elt, env2))
                    return
                g = e.generators[i]
                for x in self.iterate(self.expr(g.iter, env2), e):
                    env3 = dict(env2)
                    self.assign(g.target, x, env3)
                    if all(self.truth(self.expr(c, env3), e) for c in g.ifs):
                        rec(i + 1, env3)
            rec(0, env)
            return AList(out)
        if isinstance(e, ast.Await):
            return self.expr(e.value, env)
        if isinstance(e, ast.Yield):
            import threading
            g = getattr(threading.current_thread(), 'n2k_gen', None)
            if g is not None:
                g.out.put(('yield', self.expr(e.value, env) if e.value is not None else None))
                if g.resume.get() == 'close':
                    raise _GenClose()
                return None
            if not getattr(self, '_yields', None):
                raise Unknown(f"yield outside an interpreted generator at line {e.lineno}")
            self._yields[-1].append(self.expr(e.value, env) if e.value is not None else None)
            return None
        return AOpaque(type(e).__name__)

    def format(self, val, spec):
        if isinstance(val, AStr):
            return list(val.pieces)
        if (val is None or isinstance(val, bool)) and not spec:
            return [('lit', str(val))]
        if isinstance(val, AInt):
            s = spec.strip()
            if s.upper().endswith('X'):
                width = int(s[:-1].lstrip('0') or 0) if s[:-1] else 0
                if val.v is not None:
                    return [('lit', format(val.v, s))]
                return [('hexint', val, width)]
            if s in ('', 'd'):
                if val.v is not None:
                    return [('lit', str(val.v))]
                return [('decint', val)]
        return [('lit', '?')] if False else [('opaque', repr(val))]

    def printf(self, fmt, vals, node=None):
        """'%05X %s' % vals  -> AStr (the conversions d, i, s, x, X with optional 0-padding width)"""
        import re as _re
        pieces = []
        pos = 0
        k = 0
        for m in _re.finditer(r'%(?:(0?)(\d*)([dixXs])|(%))', fmt):
            if m.start() > pos:
                pieces.append(('lit', fmt[pos:m.start()]))
            pos = m.end()
            if m.group(4):
                pieces.append(('lit', '%')); continue
            if k >= len(vals):
                raise PyError('TypeError', getattr(node, 'lineno', 0))
            v = vals[k]; k += 1
            conv = m.group(3)
            if conv == 's':
                pieces.extend(self.format(v, '') if not isinstance(v, AStr) else v.pieces)
            elif conv in 'di':
                pieces.extend(self.format(v, (m.group(1) + m.group(2) + 'd') if m.group(2) else ''))
            else:
                pieces.extend(self.format(v, m.group(1) + m.group(2) + conv))
        if '%' in _re.sub(r'%(?:0?\d*[dixXs]|%)', '', fmt):
            raise Unknown(f"printf conversion in {fmt!r}")
        if k != len(vals):
            raise PyError('TypeError', getattr(node, 'lineno', 0))
        if pos < len(fmt):
            pieces.append(('lit', fmt[pos:]))
        return AStr(pieces)

    def str_format(self, fmt, args, node=None):
        import string as _string
        import re as _re
        pieces = []
        auto = 0
        for lit, field, spec, conv in _string.Formatter().parse(fmt):
            if lit:
                pieces.append(('lit', lit))
            if field is None:
                continue
            if conv or (spec and ('{' in spec)):
                raise Unknown(f"format field {field!r}!{conv}:{spec}")
            if field == '':
                idx = auto; auto += 1
            elif field.isdigit():
                idx = int(field)
            else:
                m_ = _re.fullmatch(r'(\d*)((?:\.[A-Za-z_]\w*)+)', field)
                if not m_:
                    raise Unknown(f"format field {field!r}")
                # '{0.PGN}' / '{.id}': attribute access on the positional argument
                if m_.group(1) == '':
                    idx = auto; auto += 1
                else:
                    idx = int(m_.group(1))
                if idx >= len(args):
                    raise PyError('IndexError', getattr(node, 'lineno', 0))
                cur = ast.Name(id='__fmt_arg', ctx=ast.Load())
                for part in m_.group(2).split('.')[1:]:
                    cur = ast.Attribute(value=cur, attr=part, ctx=ast.Load())
                if node is not None:
                    ast.copy_location(cur, node)
                ast.fix_missing_locations(cur)
                pieces.extend(self.format(self.expr(cur, {'__fmt_arg': args[idx]}), spec or ''))
                continue
            if idx >= len(args):
                raise PyError('IndexError', getattr(node, 'lineno', 0))
            pieces.extend(self.format(args[idx], spec or ''))
        return AStr(pieces)

    def compare(self, op, a, b, node=None):
        if isinstance(a, AObj) and '__enum_member__' in a.attrs or isinstance(b, AObj) and '__enum_member__' in b.attrs:
            ea = isinstance(a, AObj) and '__enum_member__' in a.attrs
            eb = isinstance(b, AObj) and '__enum_member__' in b.attrs
            # a stand-in written as an opaque dotted name (`PhysicalQuantities.ANGLE`) is that member
            def dotted(x):
                return f"{x.attrs['__class__']}.{x.attrs['__enum_member__']}"
            if isinstance(op, (ast.Is, ast.IsNot, ast.Eq, ast.NotEq)) and (ea != eb) and isinstance(b if ea else a, AOpaque) and '.' in (b if ea else a).what:
                r_ = dotted(a if ea else b) == (b if ea else a).what
                return r_ if isinstance(op, (ast.Is, ast.Eq)) else not r_
            if isinstance(op, (ast.Is, ast.IsNot, ast.Eq, ast.NotEq)) and ea and eb:
                r_ = a is b or (a.attrs['__enum_member__'] == b.attrs['__enum_member__'] and a.attrs.get('__classdef__') is b.attrs.get('__classdef__'))
                return r_ if isinstance(op, (ast.Is, ast.Eq)) else not r_
            if isinstance(op, (ast.Is, ast.IsNot)):
                return isinstance(op, ast.IsNot)
            # an IntEnum member against a number: by value; a plain Enum member equals nothing but itself
            mem, other = (a, b) if ea else (b, a)
            ac_ = AClass(mem.attrs['__classdef__'], mem.attrs.get('__module__'))
            if self.base_names(ac_) & {'IntEnum', 'IntFlag', 'StrEnum'}:
                return self.compare(op, mem.attrs['value'] if ea else a, b if ea else mem.attrs['value'], node)
            if isinstance(op, (ast.Eq, ast.NotEq)):
                return isinstance(op, ast.NotEq)
        if isinstance(a, AObj) and isinstance(b, AObj) and '__fields__' in a.attrs and '__fields__' in b.attrs and isinstance(op, (ast.Eq, ast.NotEq)):
            r_ = a.attrs['__fields__'] == b.attrs['__fields__'] and all(self.truth(self.compare(ast.Eq(), a.attrs[k], b.attrs[k], node), node) for k in a.attrs['__fields__'])
            return r_ if isinstance(op, ast.Eq) else not r_
        if isinstance(op, (ast.In, ast.NotIn)) and isinstance(b, ADict):
            r = self.key_of(a, node) in b.items
            return r if isinstance(op, ast.In) else not r
        if isinstance(op, (ast.Is, ast.IsNot)) and (a is None or b is None) and isinstance(a if b is None else b, (ABytes, AList, ADict, AObj, AStr, AOpaque)):
            return isinstance(op, ast.IsNot)
        if isinstance(op, (ast.In, ast.NotIn)):
            la = a.literal() if isinstance(a, AStr) else None
            if la is not None and isinstance(b, AList) and all(isinstance(x, AStr) and x.literal() is not None for x in b.items):
                r = la in [x.literal() for x in b.items]
                return r if isinstance(op, ast.In) else not r
            if isinstance(b, (AList, tuple, list)):
                # concrete shape values: Python equality element by element (an int is never equal to a str)
                def cv(x):
                    if isinstance(x, AInt) and x.v is not None: return ('i', x.v)
                    if isinstance(x, AStr) and x.literal() is not None: return ('s', x.literal())
                    if isinstance(x, bool) or x is None: return ('k', x)
                    if isinstance(x, AObj): return ('o', id(x))
                    raise Unknown(f"membership on abstract values at line {getattr(node, 'lineno', 0)}")
                items = b.items if isinstance(b, AList) else list(b)
                if not items:
                    return isinstance(op, ast.NotIn)
                if isinstance(a, AInt) and a.v is None and all(isinstance(x, AInt) for x in items):
                    # an abstract number: it is in the container when it is the very number stored there (same bits of the same symbols)
                    sm_ = [a.same(x) for x in items]
                    if any(x is True for x in sm_):
                        return isinstance(op, ast.In)
                    raise Unknown(f"membership on abstract values at line {getattr(node, 'lineno', 0)}")
                try:
                    r = cv(a) in [cv(x) for x in items]
                except Unknown:
                    # element by element with the interpreter's own equality (enum members, stand-ins written as dotted names): in when one element is
                    # surely equal, not in when every element is surely different
                    r = False
                    for x in items:
                        e_ = self.compare(ast.Eq(), a, x, node)
                        if not isinstance(e_, bool):
                            raise Unknown(f"membership on abstract values at line {getattr(node, 'lineno', 0)}")
                        if e_:
                            r = True
                            break
                return r if isinstance(op, ast.In) else not r
            raise Unknown(f"membership on abstract values at line {getattr(node, 'lineno', 0)}")
        if isinstance(op, (ast.Eq, ast.NotEq)) and isinstance(a, (tuple, AList)) and isinstance(b, (tuple, AList)) and type(a) is type(b):
            xa = a.items if isinstance(a, AList) else list(a)
            xb = b.items if isinstance(b, AList) else list(b)
            r = len(xa) == len(xb) and all(self.compare(ast.Eq(), x, y, node) for x, y in zip(xa, xb))
            return r if isinstance(op, ast.Eq) else not r
        if isinstance(op, (ast.Eq, ast.NotEq, ast.Is, ast.IsNot)) and (a is None) != (b is None) and isinstance(a if b is None else b, (tuple, AList, ADict, ABytes, AStr, AObj)):
            return isinstance(op, (ast.NotEq, ast.IsNot))
        if isinstance(a, ABytes) and isinstance(b, ABytes) and isinstance(op, (ast.Eq, ast.NotEq)):
            if len(a.items) != len(b.items):
                r = False
            else:
                r = True
                for x, y in zip(a.items, b.items):
                    e_ = item_eq(x, y)
                    if e_ is None:
                        raise Unknown(f"comparison of byte strings with unknown contents at line {getattr(node, 'lineno', 0)}")
                    if not e_:
                        r = False
                        break
            return r if isinstance(op, ast.Eq) else not r
        if isinstance(op, (ast.In, ast.NotIn)) and isinstance(a, ABytes) and isinstance(b, ABytes):
            r = bytes_find(b.items, a.items) >= 0
            return r if isinstance(op, ast.In) else not r
        if isinstance(op, (ast.Is, ast.IsNot)) and (a is None or b is None) and isinstance(a if b is None else b, (AFloat, AInt, ALin)):
            return isinstance(op, ast.IsNot)
        if isinstance(a, AFloat) or isinstance(b, AFloat):
            if self.cmp_oracle is not None:
                return self.cmp_oracle(op, a, b, node)
            raise Unknown(f"comparison of a float at line {getattr(node, 'lineno', 0)}")
        if isinstance(a, AInt) and isinstance(b, AInt) and (a.v is None) != (b.v is None) and isinstance(op, (ast.Lt, ast.LtE, ast.Gt, ast.GtE)):
            # an abstract non-negative int against a constant: decided when the constant lies outside [all unknown bits 0, all unknown bits 1]
            x, c, flip = (a, b.v, False) if a.v is None else (b, a.v, True)
            vec = x.vec()
            if (vec is not None or x.rng is not None) and isinstance(c, int):
                if vec is not None:
                    lo = sum((1 if bit == 1 else 0) << k for k, bit in enumerate(vec))
                    hi = sum((0 if bit == 0 else 1) << k for k, bit in enumerate(vec))
                else:
                    lo, hi = x.rng
                o = type(op)
                if flip:
                    o = {ast.Lt: ast.Gt, ast.LtE: ast.GtE, ast.Gt: ast.Lt, ast.GtE: ast.LtE}[o]
                if o is ast.Lt and hi < c: return True
                if o is ast.Lt and lo >= c: return False
                if o is ast.LtE and hi <= c: return True
                if o is ast.LtE and lo > c: return False
                if o is ast.Gt and lo > c: return True
                if o is ast.Gt and hi <= c: return False
                if o is ast.GtE and lo >= c: return True
                if o is ast.GtE and hi < c: return False
        if isinstance(a, ALin) or isinstance(b, ALin):
            la, lb = as_lin(a), as_lin(b)
            if la is not None and lb is not None and la.key() == lb.key() and isinstance(op, (ast.Eq, ast.NotEq)):
                return isinstance(op, ast.Eq)
            if self.cmp_oracle is not None and la is not None and lb is not None and isinstance(op, (ast.Eq, ast.NotEq)):
                return self.cmp_oracle(op, la, lb, node)
            raise Unknown(f"comparison of sums {a!r} {type(op).__name__} {b!r} at line {getattr(node, 'lineno', 0)}")
        if isinstance(a, AInt) and isinstance(b, AInt) and (a.v is None or b.v is None):
            s = a.same(b)
            if s is True and isinstance(op, (ast.Eq, ast.NotEq)):
                return isinstance(op, ast.Eq)
            if isinstance(op, (ast.Eq, ast.NotEq)) and (a.v is None) != (b.v is None):
                # a byte of the class "neither 0xAA nor 0x55" against one of those two values
                x, c = (a, b.v) if a.v is None else (b, a.v)
                vec = x.vec()
                if vec is not None and c in MARKER_BYTES and len(vec) >= 8 and all(isinstance(bit, tuple) and isinstance(bit[0], tuple) and bit[0][:1] == ('x',) and bit[0] == vec[0][0] and bit[1] == k
                                                                                  for k, bit in enumerate(vec[:8])) and all(bit == 0 for bit in vec[8:]):
                    return isinstance(op, ast.NotEq)
            # a provenance vector with constant high bits can sometimes be decided; otherwise unknown
            raise Unknown(f"comparison of abstract ints {a!r} {type(op).__name__} {b!r} at line {getattr(node, 'lineno', 0)}")
        if isinstance(a, AOpaque) and isinstance(b, AOpaque) and isinstance(op, (ast.Eq, ast.NotEq, ast.Is, ast.IsNot)) and '.' in a.what and '.' in b.what \
                and a.what.split('.')[0] == b.what.split('.')[0] and '(' not in a.what + b.what and '[' not in a.what + b.what:
            r = a.what == b.what          # two members of the same enumeration, named in the source
            return r if isinstance(op, (ast.Eq, ast.Is)) else not r
        def enum_member(x):
            return isinstance(x, AOpaque) and '.' in x.what and '(' not in x.what and '[' not in x.what and x.what.split('.')[0][:1].isupper()
        if isinstance(op, (ast.Eq, ast.NotEq)) and ((enum_member(a) and (b is None or isinstance(b, (AStr, AInt)))) or (enum_member(b) and (a is None or isinstance(a, (AStr, AInt))))):
            return isinstance(op, ast.NotEq)      # a member of an enumeration is equal neither to None nor to a plain string / number
        def conc(x):
            if isinstance(x, AInt) and x.v is not None:
                return x.v
            if isinstance(x, (int, bool)) or x is None:
                return x
            if isinstance(x, AStr) and x.literal() is not None:
                return x.literal()
            raise Unknown(f"comparison of abstract value {x!r} at line {getattr(node, 'lineno', 0)}")
        if isinstance(op, (ast.Is, ast.IsNot)):
            if a is None or b is None:
                r = a is None and b is None
            else:
                r = conc(a) == conc(b)
            return r if isinstance(op, ast.Is) else not r
        x, y = conc(a), conc(b)
        return {ast.Eq: _op.eq, ast.NotEq: _op.ne, ast.Lt: _op.lt, ast.LtE: _op.le, ast.Gt: _op.gt, ast.GtE: _op.ge}[type(op)](x, y)

    def binop(self, op, a, b):
        bh = getattr(self, 'binop_hook', None)
        if bh is not None:
            r_ = bh(op, a, b)
            if r_ is not NotImplemented:
                return r_
        if isinstance(op, ast.Mod) and isinstance(a, AStr) and a.literal() is not None:
            return self.printf(a.literal(), list(b) if isinstance(b, tuple) else [b])
        if isinstance(a, AOpaque) or isinstance(b, AOpaque):
            return AOpaque('binop')
        if isinstance(a, bool): a = AInt(int(a))
        if isinstance(b, bool): b = AInt(int(b))
        if (isinstance(a, ALin) or isinstance(b, ALin)) and (isinstance(op, (ast.BitAnd, ast.BitOr, ast.BitXor, ast.LShift, ast.RShift, ast.FloorDiv)) or
                                                           (isinstance(op, ast.Add) and (as_lin(a) is None or as_lin(b) is None)) or
                                                           (isinstance(op, (ast.Mod, ast.Mult)) and isinstance(b, AInt) and b.v is not None and b.v > 256)):
            # bytes placed side by side (b0 + 256*b1 ...) are a bit vector as well: bit operations work on that view
            va_ = lin_to_vec(a) if isinstance(a, ALin) else None
            vb_ = lin_to_vec(b) if isinstance(b, ALin) else None
            if (not isinstance(a, ALin) or va_ is not None) and (not isinstance(b, ALin) or vb_ is not None):
                if va_ is not None: a = AInt(None, va_)
                if vb_ is not None: b = AInt(None, vb_)
        if isinstance(a, ALin) or isinstance(b, ALin) or (isinstance(op, ast.Add) and isinstance(a, AInt) and isinstance(b, AInt) and (a.v is None or b.v is None)):
            la, lb = as_lin(a), as_lin(b)
            if la is not None and lb is not None:
                if isinstance(op, (ast.Add, ast.Sub)) and la.mod is None and lb.mod is None:
                    sg = 1 if isinstance(op, ast.Add) else -1
                    co = dict(la.coeffs)
                    for k, v in lb.coeffs.items():
                        co[k] = co.get(k, 0) + sg * v
                    return ALin(co, la.const + sg * lb.const)
                if not lb.coeffs and lb.mod is None and la.mod is None and isinstance(lb.const, int):
                    m = None
                    if isinstance(op, ast.BitAnd) and lb.const > 0 and (lb.const + 1) & lb.const == 0:
                        m = lb.const + 1
                    if isinstance(op, ast.Mod) and lb.const > 0:
                        m = lb.const
                    if m is not None:
                        return ALin({k: v % m for k, v in la.coeffs.items()}, la.const % m, m)
                    if isinstance(op, ast.Mult):
                        return ALin({k: v * lb.const for k, v in la.coeffs.items()}, la.const * lb.const)
            if isinstance(a, ALin) or isinstance(b, ALin):
                return AInt(None, None)
        if isinstance(a, ABytes) and isinstance(b, ABytes) and isinstance(op, ast.Add):
            return ABytes(a.items + b.items)
        if isinstance(a, AStr) and isinstance(b, AStr) and isinstance(op, ast.Add):
            return AStr(a.pieces + b.pieces)
        if isinstance(a, AList) and isinstance(b, AList) and isinstance(op, ast.Add):
            return AList(a.items + b.items)
        if isinstance(a, AInt) and isinstance(b, AInt):
            if a.v is not None and b.v is not None:
                f = {ast.Add: _op.add, ast.Sub: _op.sub, ast.Mult: _op.mul, ast.FloorDiv: _op.floordiv, ast.Mod: _op.mod, ast.Div: _op.truediv, ast.LShift: _op.lshift, ast.RShift: _op.rshift,
                     ast.BitAnd: _op.and_, ast.BitOr: _op.or_, ast.BitXor: _op.xor}.get(type(op))
                if isinstance(op, ast.Pow) and isinstance(a.v, int) and isinstance(b.v, int) and 0 <= b.v <= 4096:
                    return AInt(a.v ** b.v)
                if f is None:
                    return AOpaque('int op')
                try:
                    return AInt(f(a.v, b.v))
                except (ZeroDivisionError, ValueError, TypeError) as ex:
                    raise Unknown(f"arithmetic fails: {ex}")
            # x & c with a negative constant c = ~m: the bits of m are cleared, every other bit of the (non-negative, finitely many bits) x kept
            if isinstance(op, ast.BitAnd):
                for x_, c_ in ((a, b), (b, a)):
                    if c_.v is not None and isinstance(c_.v, int) and c_.v < 0 and x_.v is None and x_.vec() is not None:
                        m_ = ~c_.v
                        return AInt(None, B.trim([0 if (m_ >> k_) & 1 else bit_ for k_, bit_ in enumerate(x_.vec())]))
            va, vb = a.vec(), b.vec()
            if va is None or vb is None:
                return AInt(None, None)
            try:
                if isinstance(op, ast.BitAnd): return AInt(None, B.band(va, vb))
                if isinstance(op, ast.BitOr): return AInt(None, B.bor(va, vb))
                if isinstance(op, ast.LShift) and b.v is not None: return AInt(None, B.shl(va, b.v))
                if isinstance(op, ast.RShift) and b.v is not None: return AInt(None, B.shr(va, b.v))
                # x % 2**k == x & (2**k - 1), x // 2**k == x >> k, x * 2**k == x << k for every int x (Python floor semantics)
                if b.v is not None and isinstance(b.v, int) and b.v > 0 and b.v & (b.v - 1) == 0:
                    k = b.v.bit_length() - 1
                    if isinstance(op, ast.Mod): return AInt(None, B.band(va, B.const_bits(b.v - 1)) if b.v > 1 else [0])
                    if isinstance(op, ast.FloorDiv): return AInt(None, B.shr(va, k))
                    if isinstance(op, ast.Mult): return AInt(None, B.shl(va, k))
                if a.v is not None and isinstance(a.v, int) and a.v > 0 and a.v & (a.v - 1) == 0 and isinstance(op, ast.Mult):
                    return AInt(None, B.shl(vb, a.v.bit_length() - 1))
                if isinstance(op, ast.Add):
                    if all(x == 0 or y == 0 for x, y in zip(va, vb)):
                        return AInt(None, B.bor(va, vb))
                if isinstance(op, ast.BitXor):
                    return AInt(None, B.bxor(va, vb))
                if isinstance(op, ast.Sub) and len(vb) <= len(va) and all(y == 0 or y == x for x, y in zip(va, vb)):
                    return AInt(None, B.trim([0 if y != 0 else x for x, y in zip(va, list(vb) + [0] * (len(va) - len(vb)))]))
            except B.Top:
                return AInt(None, None)
            return AInt(None, None)
        return AOpaque(f"binop {type(op).__name__}")

    def subscript(self, o, sl, env):
        if isinstance(o, AObj) and '__fields__' in o.attrs:
            return self.subscript(tuple(o.attrs[k] for k in o.attrs['__fields__']), sl, env)
        if isinstance(o, AOpaque):
            return AOpaque(o.what + '[]')
        if isinstance(o, ADict):
            k = self.key_of(self.expr(sl, env), sl)
            if k not in o.items:
                raise PyError('KeyError', getattr(sl, 'lineno', 0))       # the keys of a modelled dictionary are concrete: a missing one is Python's KeyError
            return o.items[k]
        if isinstance(o, AStr):
            # character-level access is only supported on literals (e.g. parts[0][1:])
            lit = o.literal()
            if lit is None:
                return AOpaque('substring')
            o = lit
        if isinstance(sl, ast.Slice):
            def idx(x):
                if x is None:
                    return None
                v = self.expr(x, env)
                if isinstance(v, AInt) and v.v is not None:
                    return v.v
                raise Unknown(f"abstract slice bound at line {getattr(x, 'lineno', 0)}")
            s = slice(idx(sl.lower), idx(sl.upper), idx(sl.step))
            if isinstance(o, ABytes):
                return ABytes(o.items[s], o.mutable)
            if isinstance(o, AList):
                return AList(o.items[s])
            if isinstance(o, (tuple, list)):
                return AList(list(o)[s])
            if isinstance(o, str):
                return AStr([('lit', o[s])])
            raise Unknown('slice of ' + type(o).__name__)
        i = self.expr(sl, env)
        if isinstance(i, AInt) and i.v is not None:
            try:
                if isinstance(o, ABytes):
                    return self.byte_to_int(o.items[i.v])
                if isinstance(o, AList):
                    return o.items[i.v]
                if isinstance(o, (tuple, list)):
                    return o[i.v]
                if isinstance(o, str):
                    return AStr([('lit', o[i.v])])
            except IndexError:
                raise PyError('IndexError', getattr(sl, 'lineno', 0))
        raise Unknown(f"subscript at line {getattr(sl, 'lineno', 0)}")

    # ------------------------------------------------------------ text helpers
    def tokens(self, s, sep=None):
        """split an AStr at literal whitespace (sep None) or at a literal separator"""
        toks = [[]]
        for p in s.pieces:
            if p[0] == 'lit':
                text = p[1]
                buf = ''
                for ch in text:
                    is_sep = (ch.isspace() if sep is None else ch == sep)
                    if is_sep:
                        if buf:
                            toks[-1].append(('lit', buf)); buf = ''
                        if sep is None:
                            if toks[-1]:
                                toks.append([])
                        else:
                            toks.append([])
                    else:
                        buf += ch
                if buf:
                    toks[-1].append(('lit', buf))
            else:
                toks[-1].append(p)
        if sep is None and toks and not toks[-1]:
            toks.pop()
        return AList([AStr(t) for t in toks])

    def parse_int(self, s, base):
        if isinstance(s, AStr):
            lit = s.literal()
            if lit is not None:
                try:
                    return AInt(int(lit, base))
                except ValueError:
                    raise Unknown(f"int({lit!r}, {base})")
            if len(s.pieces) == 1:
                p = s.pieces[0]
                if p[0] == 'hexint' and base == 16:
                    return p[1]
                if p[0] == 'decint' and base == 10:
                    return p[1]
                if p[0] == 'hexbytes' and base == 16:
                    vec = []
                    for it in reversed(p[1]):
                        bi = self.byte_to_int(it).vec()
                        if bi is None:
                            return AInt(None, None)
                        vec.extend(list(bi) + [0] * (8 - len(bi)))
                    return AInt(None, vec)
            if base == 16 and len(s.pieces) > 1 and all(p[0] in ('hexint', 'lit', 'hexbytes') for p in s.pieces):
                # hex digits written side by side: every piece must have a known number of digits (zero-padded to a width its value fits, a single
                # digit for a value below 16, a literal, whole bytes); the digits are then concatenated most significant first
                vec = []
                for p in reversed(s.pieces):
                    if p[0] == 'lit':
                        try:
                            val = int(p[1], 16)
                        except ValueError:
                            return AOpaque('int()')
                        nd = len(p[1])
                        bits = [(val >> k_) & 1 for k_ in range(4 * nd)]
                    elif p[0] == 'hexbytes':
                        bits = []
                        for it in reversed(p[1]):
                            bi = self.byte_to_int(it).vec()
                            if bi is None:
                                return AInt(None, None)
                            bits.extend(list(bi) + [0] * (8 - len(bi)))
                    else:
                        x, width = p[1], (p[2] if len(p) > 2 else 0)
                        xv = x.vec()
                        if xv is None:
                            return AInt(None, None)
                        xv = B.trim(xv)
                        nd = width if width else 1
                        if len(xv) > 4 * nd:
                            return AOpaque('int() of hex pieces of unknown width')
                        bits = list(xv) + [0] * (4 * nd - len(xv))
                    vec.extend(bits)
                return AInt(None, vec)
        return AOpaque('int()')

    # ------------------------------------------------------------ calls
    def call(self, e, env):
        if self.skip(e):
            return AOpaque('skipped call')
        if self.hook is not None:
            r = self.hook(self, e, env)
            if r is not NotImplemented:
                return r
        f = e.func
        if isinstance(f, ast.Call) and isinstance(f.func, ast.Name) and f.func.id in ('methodcaller', 'attrgetter', 'itemgetter') and f.func.id not in env and len(e.args) == 1 and not e.keywords \
                and f.args and isinstance(f.args[0], ast.Constant) and not f.keywords:
            # operator.methodcaller('m', *a)(x) is x.m(*a); attrgetter('a')(x) is x.a; itemgetter(k)(x) is x[k]
            if f.func.id == 'methodcaller' and isinstance(f.args[0].value, str):
                c_ = ast.Call(func=ast.Attribute(value=e.args[0], attr=f.args[0].value, ctx=ast.Load()), args=list(f.args[1:]), keywords=[])
            elif f.func.id == 'attrgetter' and isinstance(f.args[0].value, str) and f.args[0].value.isidentifier() and len(f.args) == 1:
                c_ = ast.Attribute(value=e.args[0], attr=f.args[0].value, ctx=ast.Load())
            elif f.func.id == 'itemgetter' and len(f.args) == 1:
                c_ = ast.Subscript(value=e.args[0], slice=f.args[0], ctx=ast.Load())
            else:
                c_ = None
            if c_ is not None:
                ast.copy_location(c_, e); ast.fix_missing_locations(c_)
                return self.expr(c_, env)
        if isinstance(f, ast.Name) and f.id == 'map' and 'map' not in env and len(e.args) == 2 and not e.keywords and not isinstance(e.args[1], ast.Starred):
            # map(F, xs): F is applied as written to each element (F itself need not be a value the interpreter models, e.g. '{:02X}'.format)
            out_ = []
            for el in self.iterate(self.expr(e.args[1], env), e):
                env2 = dict(env); env2['__map_item'] = el
                c_ = ast.Call(func=e.args[0], args=[ast.Name(id='__map_item', ctx=ast.Load())], keywords=[])
                ast.copy_location(c_, e); ast.fix_missing_locations(c_)
                out_.append(self.expr(c_, env2))
            return AList(out_)
        args = []
        for a in e.args:
            if isinstance(a, ast.Starred):
                v = self.expr(a.value, env)
                if isinstance(v, (AOpaque, AInt, AStr)) or v is None:
                    raise Unknown(f"* of {type(v).__name__} at line {e.lineno}")
                args.extend(v.items if isinstance(v, AList) else list(v))
            else:
                args.append(self.expr(a, env))
        kw = {}
        for k in e.keywords:
            v = self.expr(k.value, env)
            if k.arg is None:
                if isinstance(v, ADict) and all(isinstance(x, str) for x in v.items):
                    kw.update(v.items)
                else:
                    raise Unknown(f"** of {type(v).__name__} at line {e.lineno}")
            else:
                kw[k.arg] = v
        fv = None
        if isinstance(f, ast.Name) and f.id in env and isinstance(env[f.id], AOpaque) and not env[f.id].what.startswith('exception '):
            # a local that holds something the interpreter could not follow is being called: what it does is unknown (never "nothing")
            raise Unknown(f"call of the unknown value {env[f.id]!r} bound to {f.id} at line {e.lineno}")
        if isinstance(f, ast.Name) and (f.id in env or (self.module is not None and f.id in self.module.funcs and f.id not in self.functions)):
            fv = self.expr(f, env)
        elif isinstance(f, ast.Name) and self.module is not None and f.id not in self.classes and f.id not in self.functions and f.id in self.module.assigns:
            cand_ = self.module_name(self.module, f.id)
            if isinstance(cand_, (AFunc, AClass)) or (isinstance(cand_, AObj) and '__callable__' in cand_.attrs):
                fv = cand_
        elif isinstance(f, (ast.Subscript, ast.Call, ast.IfExp, ast.Lambda)):
            fv = self.expr(f, env)
        if fv is None and isinstance(f, ast.Name) and f.id not in env and f.id not in self.classes and f.id not in self.functions and self.module is not None:
            r_ = self.module_name(self.module, f.id)
            if isinstance(r_, (AFunc, AClass)):
                fv = r_
        if fv is None and isinstance(f, ast.Attribute):
            # a method of an object of a package class, a static / class method or enum member access through the class, a function of a sibling module
            # (evaluated once: the generic method dispatch further down reuses this value)
            try:
                recv_ = self.expr(f.value, env)
                self._recv_memo = (f.value, recv_)
            except Unknown:
                recv_ = None
            if isinstance(recv_, AClass) or (isinstance(recv_, AObj) and ('__module_env__' in recv_.attrs or (isinstance(recv_.attrs.get('__classdef__'), ast.ClassDef) and '__module__' in recv_.attrs))):
                if isinstance(recv_, AObj) and '__fields__' in recv_.attrs and f.attr == '_replace':
                    o2 = AObj(**dict(recv_.attrs)); o2.attrs.update(kw); return o2
                if isinstance(recv_, AObj) and '__fields__' in recv_.attrs and f.attr == '_asdict':
                    return ADict({k_: recv_.attrs[k_] for k_ in recv_.attrs['__fields__']})
                cand = self.expr(f, env)
                if isinstance(cand, (AFunc, AClass)):
                    fv = cand
        if isinstance(fv, AObj) and '__callable__' in fv.attrs:
            return self.apply_callable(fv, args, kw, e, env)
        if isinstance(fv, AClass):
            return self.instantiate(fv, args, kw, e)
        if isinstance(fv, AFunc):
            a_ = list(args)
            if fv.bound is not None:
                a_ = [fv.bound] + a_
            return self.call_function(fv.fn, a_, kw, closure=fv.closure, module=fv.module)
        if isinstance(f, ast.Name) and f.id in self.classes:
            cdef = self.classes[f.id]
            obj = AObj()
            obj.attrs['__class__'] = f.id
            obj.attrs['__classdef__'] = cdef
            obj.attrs.update(class_constants(self, cdef))
            init = [n for n in cdef.body if isinstance(n, ast.FunctionDef) and n.name == '__init__']
            if init:
                self.call_function(init[0], [obj] + args, kw)
            elif any((isinstance(d_, ast.Name) and d_.id == 'dataclass') or (isinstance(d_, ast.Attribute) and d_.attr == 'dataclass') or
                     (isinstance(d_, ast.Call) and ((isinstance(d_.func, ast.Name) and d_.func.id == 'dataclass') or (isinstance(d_.func, ast.Attribute) and d_.func.attr == 'dataclass')))
                     for d_ in cdef.decorator_list) or any(ast.unparse(b_).split('.')[-1] == 'NamedTuple' for b_ in cdef.bases):
                # the generated __init__ of a dataclass / typing.NamedTuple: fields in order, positional / keyword arguments, defaults, default_factory called per instance
                flds = [n_ for n_ in cdef.body if isinstance(n_, ast.AnnAssign) and isinstance(n_.target, ast.Name) and 'ClassVar' not in ast.unparse(n_.annotation)]
                given = dict(zip([n_.target.id for n_ in flds], args))
                if len(args) > len(flds):
                    raise PyError('TypeError', e.lineno)
                given.update(kw)
                for n_ in flds:
                    nm_ = n_.target.id
                    if nm_ in given:
                        obj.attrs[nm_] = given[nm_]; continue
                    v_ = n_.value
                    if v_ is None:
                        raise PyError('TypeError', e.lineno)
                    if isinstance(v_, ast.Call) and isinstance(v_.func, ast.Name) and v_.func.id == 'field':
                        fk = {k_.arg: k_.value for k_ in v_.keywords}
                        if 'default_factory' in fk:
                            c_ = ast.Call(func=fk['default_factory'], args=[], keywords=[])
                            ast.copy_location(c_, v_); ast.fix_missing_locations(c_)
                            obj.attrs[nm_] = self.expr(c_, {})
                        elif 'default' in fk:
                            obj.attrs[nm_] = self.expr(fk['default'], {})
                        else:
                            raise PyError('TypeError', e.lineno)
                    else:
                        obj.attrs[nm_] = self.expr(v_, {})
                if any(ast.unparse(b_).split('.')[-1] == 'NamedTuple' for b_ in cdef.bases):
                    obj.attrs['__fields__'] = tuple(n_.target.id for n_ in flds)
                post = [n_ for n_ in cdef.body if isinstance(n_, ast.FunctionDef) and n_.name == '__post_init__']
                if post:
                    self.call_function(post[0], [obj])
            return obj
        if isinstance(f, ast.Name) and f.id in self.functions and f.id not in env:
            return self.call_function(self.functions[f.id], args, kw)
        if isinstance(f, ast.Name):
            n = f.id
            if n == 'enumerate' and n not in env and len(args) == 1 and set(kw) == {'start'}:
                args = [args[0], kw['start']]; kw = {}
            if kw and n not in ('sorted', 'int', 'bytes', 'max', 'min', 'divmod') and n in ('len', 'range', 'bytearray', 'reversed', 'list', 'sum', 'enumerate', 'zip'):
                raise Unknown(f"{n}() with keyword arguments at line {e.lineno}")
            if n in ('getattr', 'hasattr') and len(args) in (2, 3) and isinstance(args[1], AStr) and args[1].literal() is not None and not kw:
                o_, a_ = args[0], args[1].literal()
                if isinstance(o_, AObj):
                    present = a_ in o_.attrs
                    if n == 'hasattr':
                        return present
                    if present:
                        return o_.attrs[a_]
                    if len(args) == 3:
                        return args[2]
                    raise PyError('AttributeError', e.lineno)
                if o_ is None or isinstance(o_, (bool, AInt, AStr, ABytes, AList, ADict)):
                    if n == 'hasattr':
                        return False if o_ is None else AOpaque('hasattr')
                    if o_ is None and len(args) == 3:
                        return args[2]
                raise Unknown(f"{n}() of {type(o_).__name__} at line {e.lineno}")
            if n == 'map' and len(e.args) == 2 and not kw:
                out_ = []
                for el in self.iterate(args[1], e):
                    env2 = dict(env); env2['__map_item'] = el
                    c_ = ast.Call(func=e.args[0], args=[ast.Name(id='__map_item', ctx=ast.Load())], keywords=[])
                    ast.copy_location(c_, e); ast.fix_missing_locations(c_)
                    out_.append(self.expr(c_, env2))
                return AList(out_)
            if n in ('chain', 'islice', 'compress', 'accumulate', 'reduce', 'tee', 'starmap', 'repeat', 'zip_longest') and n not in env:
                r_ = self.itertools_call(n, args, kw, e, env)
                if r_ is not NotImplemented:
                    return r_
            if n in ('partial', 'attrgetter', 'itemgetter', 'methodcaller') and n not in env and args:
                return AObj(__callable__=n, args=list(args), kw=dict(kw), nodes=list(e.args), kwnodes=list(e.keywords))
            if n == 'any' and len(args) == 1 and not kw:
                for el in self.iterate(args[0], e):
                    if self.truth(el, e):
                        return True
                return False
            if n == 'all' and len(args) == 1 and not kw:
                for el in self.iterate(args[0], e):
                    if not self.truth(el, e):
                        return False
                return True
            if n == 'filter' and len(e.args) == 2 and not kw:
                out_ = []
                none_pred = isinstance(e.args[0], ast.Constant) and e.args[0].value is None
                for el in self.iterate(args[1], e):
                    if none_pred:
                        keep = self.truth(el, e)
                    else:
                        env2 = dict(env); env2['__filter_item'] = el
                        c_ = ast.Call(func=e.args[0], args=[ast.Name(id='__filter_item', ctx=ast.Load())], keywords=[])
                        ast.copy_location(c_, e); ast.fix_missing_locations(c_)
                        keep = self.truth(self.expr(c_, env2), e)
                    if keep:
                        out_.append(el)
                return AList(out_)
            if n == 'sorted':
                if set(kw) - {'reverse'} or len(args) != 1:
                    raise Unknown(f"sorted() with key= or extra arguments at line {e.lineno}")
                rev = kw.get('reverse', False)
                if not isinstance(rev, bool):
                    raise Unknown(f"sorted(reverse=<abstract>) at line {e.lineno}")
                if isinstance(args[0], ADict):
                    return AList([AInt(k) if isinstance(k, int) else AStr([('lit', k)]) for k in sorted(args[0].items, reverse=rev)])
                if isinstance(args[0], AList) and all(isinstance(x, AInt) and x.v is not None for x in args[0].items):
                    return AList(sorted(args[0].items, key=lambda x: x.v, reverse=rev))
                src_ = args[0].items if isinstance(args[0], AList) else (list(args[0]) if isinstance(args[0], (list, tuple)) else None)
                if src_ is not None and all(isinstance(x, (tuple, list)) and len(x) >= 1 and isinstance(x[0], AInt) and x[0].v is not None for x in src_) \
                        and len({x[0].v for x in src_}) == len(src_):
                    # pairs with distinct concrete first elements (dict.items()): the order is decided by the first element alone
                    return AList(sorted(src_, key=lambda x: x[0].v, reverse=rev))
                raise Unknown(f"sorted() of {type(args[0]).__name__} at line {e.lineno}")
            if n == 'vars' and len(args) == 1 and isinstance(args[0], AObj):
                return ADictOf(args[0])
            if n == 'isinstance' and len(args) == 2:
                return self.isinstance_(args[0], args[1], e)
            if n == 'str' and len(args) in (2, 3) and isinstance(args[0], (AOpaque, ABytes)):
                return args[0] if isinstance(args[0], AOpaque) else AOpaque('decoded bytes')
            if n == 'format' and len(args) in (1, 2) and not kw and 'format' not in env:
                spec_ = ''
                if len(args) == 2:
                    if not (isinstance(args[1], AStr) and args[1].literal() is not None):
                        raise Unknown(f"format() with an abstract specification at line {e.lineno}")
                    spec_ = args[1].literal()
                if isinstance(args[0], AStr) and spec_ == '':
                    return args[0]
                return AStr(self.format(args[0], spec_))
            if n == 'str' and len(args) == 1 and not kw:
                if isinstance(args[0], AStr):
                    return args[0]
                if args[0] is None or isinstance(args[0], bool):
                    return AStr([('lit', str(args[0]))])
                return AStr(self.format(args[0], ''))
            if n == 'next' and len(args) in (1, 2) and not kw:
                seq = self.iterate(args[0], e)
                if seq:
                    return seq[0]
                if len(args) == 2:
                    return args[1]
                raise PyError('StopIteration', e.lineno)
            if n == 'iter' and len(args) == 1:
                return AList(self.iterate(args[0], e))
            if n == 'iter' and len(args) == 2 and not kw and isinstance(args[0], (AFunc, AClass)):
                return CallIter(self, args[0], args[1], e, env)
            if n == 'enumerate' and len(args) in (1, 2):
                start = args[1].v if len(args) == 2 and isinstance(args[1], AInt) and args[1].v is not None else (0 if len(args) == 1 else None)
                if start is None:
                    raise Unknown(f"enumerate start at line {e.lineno}")
                return AList([(AInt(start + i), x) for i, x in enumerate(self.iterate(args[0], e))])
            if n == 'zip' and args:
                return AList([tuple(t) for t in zip(*[self.iterate(a, e) for a in args])])
            if n == 'divmod' and len(args) == 2 and not kw:
                return (self.binop(ast.FloorDiv(), args[0], args[1]), self.binop(ast.Mod(), args[0], args[1]))
            if n == 'len' and args and isinstance(args[0], ADict):
                return AInt(len(args[0].items))
            if n == 'len':
                x = args[0]
                if isinstance(x, (ABytes, AList)):
                    return AInt(len(x.items))
                if isinstance(x, (tuple, list)):
                    return AInt(len(x))
                if isinstance(x, AStr) and x.literal() is not None:
                    return AInt(len(x.literal()))
                raise Unknown(f"len of {type(x).__name__} at line {e.lineno}")
            if n == 'range':
                vals = []
                for a in args:
                    if not (isinstance(a, AInt) and a.v is not None):
                        raise Unknown(f"range over an abstract bound at line {e.lineno}")
                    vals.append(a.v)
                return range(*vals)
            if n == 'round' and n not in env and len(args) in (1, 2) and not kw and all(isinstance(a, AInt) and a.v is not None for a in args):
                try:
                    return AInt(round(*[a.v for a in args]))
                except (ValueError, OverflowError, TypeError):
                    raise Unknown(f"round() fails at line {e.lineno}")
            if n in ('min', 'max'):
                if kw:
                    raise Unknown(f"{n}() with keyword arguments at line {e.lineno}")
                if len(args) == 1 and isinstance(args[0], (AList, ADict)):
                    args = self.iterate(args[0], e)
                    if not args:
                        raise Unknown(f"{n}() of an empty sequence at line {e.lineno}")
                vals = [a.v if isinstance(a, AInt) else None for a in args]
                if any(v is None for v in vals):
                    raise Unknown(f"min/max of abstract ints at line {e.lineno}")
                return AInt(min(vals) if n == 'min' else max(vals))
            if n == 'bytes':
                if not args:
                    return ABytes([])
                a = args[0]
                if isinstance(a, AList):
                    return ABytes([self.int_to_byte(x) for x in a.items])
                if isinstance(a, ABytes):
                    return ABytes(a.items)
                if isinstance(a, (tuple, list)):
                    return ABytes([self.int_to_byte(x) for x in a])
                if isinstance(a, AInt) and a.v is not None and 0 <= a.v <= 4096 and len(args) == 1:
                    return ABytes([('c', 0)] * a.v)
                if isinstance(a, LazyGen) or isinstance(a, range):
                    return ABytes([self.int_to_byte(x) for x in self.iterate(a, e)])
                raise Unknown(f"bytes() argument at line {e.lineno}")
            if n == 'bytearray':
                if not args:
                    return ABytes([], True)
                a = args[0]
                if isinstance(a, ABytes):
                    return ABytes(a.items, True)
                if isinstance(a, AList):
                    return ABytes([self.int_to_byte(x) for x in a.items], True)
                if isinstance(a, (tuple, list, range, LazyGen)):
                    return ABytes([self.int_to_byte(x) for x in self.iterate(a, e)], True)
                if isinstance(a, AInt) and a.v is not None and 0 <= a.v <= 4096 and len(args) == 1:
                    return ABytes([('c', 0)] * a.v, True)
                raise Unknown(f"bytearray() argument at line {e.lineno}")
            if n == 'int':
                if len(args) == 1 and isinstance(args[0], AInt) and isinstance(args[0].v, float):
                    try:
                        return AInt(int(args[0].v))
                    except (ValueError, OverflowError):
                        raise PyError('ValueError', e.lineno)
                if len(args) == 1 and isinstance(args[0], AInt):
                    return args[0]
                if len(args) == 1 and isinstance(args[0], bool):
                    return AInt(int(args[0]))
                base = args[1].v if len(args) > 1 and isinstance(args[1], AInt) else 10
                return self.parse_int(args[0], base)
            if n == 'reversed':
                x = args[0]
                if isinstance(x, ABytes):
                    return ABytes(list(reversed(x.items)))
                if isinstance(x, AList):
                    return AList(list(reversed(x.items)))
                if isinstance(x, (tuple, list, range)):
                    return AList(list(reversed(self.iterate(x, e))))
                raise Unknown(f"reversed() of {type(x).__name__} at line {e.lineno}")
            if n in ('set', 'frozenset'):
                if not args:
                    return AList([])
                out_ = AList([])
                for x in self.iterate(args[0], e):
                    if not self.compare(ast.In(), x, out_, e):
                        out_.items.append(x)
                return out_
            if n == 'dict' and not args and not kw:
                return ADict({})
            if n == 'dict' and len(args) == 1 and not kw:
                if isinstance(args[0], ADict):
                    return ADict(dict(args[0].items))
                out_ = {}
                for pair in self.iterate(args[0], e):
                    pr = pair.items if isinstance(pair, AList) else pair
                    if not isinstance(pr, (tuple, list)) or len(pr) != 2:
                        raise Unknown(f"dict() of non-pairs at line {e.lineno}")
                    out_[self.key_of(pr[0], e)] = pr[1]
                return ADict(out_)
            if n == 'bool' and len(args) == 1:
                return self.truth(args[0], e)
            if n == 'list':
                x = args[0] if args else AList()
                if isinstance(x, AList):
                    return AList(x.items)
                if isinstance(x, ABytes):
                    return AList([self.byte_to_int(b) for b in x.items])
                if isinstance(x, (range, tuple, list, ADict)):
                    return AList(self.iterate(x, e))
                if isinstance(x, LazyGen):
                    return AList(list(self.iterate(x, e)))
            if n == 'tuple' and len(args) <= 1 and not kw and 'tuple' not in env:
                if not args:
                    return ()
                x = args[0]
                if isinstance(x, (AList, range, tuple, list, ADict, ABytes, LazyGen)):
                    return tuple(self.iterate(x, e))
            if n == 'sum' and args:
                x = args[0]
                start = args[1] if len(args) > 1 else kw.get('start', AInt(0))
                try:
                    elems = self.iterate(x, e)
                except Unknown:
                    elems = None
                if elems is not None:
                    acc = start
                    for el in elems:
                        acc = self.binop(ast.Add(), acc, el)
                    return acc
                if isinstance(x, ABytes):
                    return AInt(None, None)
            return AOpaque(f"{n}()")
        if isinstance(f, ast.Attribute) and isinstance(f.value, ast.Name) and f.value.id == 'chain' and f.attr == 'from_iterable' and len(args) == 1 and 'chain' not in env:
            out_ = []
            for part in self.iterate(args[0], e):
                out_.extend(self.iterate(part, e))
            return AList(out_)
        if isinstance(f, ast.Attribute) and isinstance(f.value, ast.Attribute) and isinstance(f.value.value, ast.Name) and f.value.value.id == 'itertools' and f.value.attr == 'chain' and f.attr == 'from_iterable' and len(args) == 1:
            out_ = []
            for part in self.iterate(args[0], e):
                out_.extend(self.iterate(part, e))
            return AList(out_)
        if isinstance(f, ast.Attribute) and isinstance(f.value, ast.Name) and f.value.id in ('itertools', 'functools', 'operator') and f.value.id not in env:
            if f.attr in ('partial', 'attrgetter', 'itemgetter', 'methodcaller') and args:
                return AObj(__callable__=f.attr, args=list(args), kw=dict(kw), nodes=list(e.args), kwnodes=list(e.keywords))
            r_ = self.itertools_call(f.attr, args, kw, e, env)
            if r_ is not NotImplemented:
                return r_
        if isinstance(f, ast.Attribute):
            m = f.attr
            # bytes.fromhex(x)
            if isinstance(f.value, ast.Name) and f.value.id == 'math' and m in ('ceil', 'floor', 'trunc') and len(args) == 1 and isinstance(args[0], AInt) and args[0].v is not None:
                import math as _m
                return AInt(int(getattr(_m, m)(args[0].v)))
            if isinstance(f.value, ast.Name) and f.value.id == 'struct' and m in ('pack', 'unpack', 'unpack_from', 'calcsize') and args and isinstance(args[0], AStr) and args[0].literal() is not None:
                sf = _struct_fmt(args[0].literal())
                if sf is None:
                    raise Unknown(f"struct format {args[0].literal()!r} at line {e.lineno}")
                order, fields = sf
                total = sum(sz for sz, _ in fields)
                if m == 'calcsize':
                    return AInt(total)
                if m == 'pack':
                    vals = [a_ for a_ in args[1:]]
                    if len(vals) != sum(1 for sz, k_ in fields if k_ != 'pad'):
                        raise PyError('struct.error', getattr(e, 'lineno', 0))
                    out_items = []
                    vi = 0
                    for size, kind in fields:
                        if kind == 'pad':
                            out_items.append(('c', 0)); continue
                        x = vals[vi]; vi += 1
                        if isinstance(x, bool):
                            x = AInt(int(x))
                        if kind == 'float' and isinstance(x, AFloat) and x.width == 8 * size:
                            vec = list(x.bits) + [0] * (8 * size - len(x.bits))
                        elif kind in ('int', 'sint') and isinstance(x, AInt) and x.v is not None:
                            lo, hi = (0, (1 << (8 * size)) - 1) if kind == 'int' else (-(1 << (8 * size - 1)), (1 << (8 * size - 1)) - 1)
                            if not (lo <= x.v <= hi):
                                raise PyError('struct.error', getattr(e, 'lineno', 0))
                            vv = x.v & ((1 << (8 * size)) - 1)
                            vec = [(vv >> k_) & 1 for k_ in range(8 * size)]
                        elif kind == 'int' and isinstance(x, AInt) and x.vec() is not None and len(B.trim(x.vec())) <= 8 * size:
                            vec = list(B.trim(x.vec())) + [0] * (8 * size - len(B.trim(x.vec())))
                        else:
                            raise Unknown(f"struct.pack({args[0].literal()!r}, {x!r}) at line {e.lineno}")
                        items = [norm_byte(vec[8 * i: 8 * i + 8]) for i in range(size)]
                        if order == 'big':
                            items.reverse()
                        out_items.extend(items)
                    return ABytes(out_items)
                x = args[1] if len(args) > 1 else None
                off = 0
                if m == 'unpack_from':
                    o_ = args[2] if len(args) > 2 else kw.get('offset', AInt(0))
                    if not (isinstance(o_, AInt) and o_.v is not None and o_.v >= 0):
                        raise Unknown(f"struct.unpack_from offset at line {e.lineno}")
                    off = o_.v
                if not isinstance(x, ABytes):
                    raise Unknown(f"struct.{m}({args[0].literal()!r}, {x!r}) at line {e.lineno}")
                if (m == 'unpack' and len(x.items) != total) or (m == 'unpack_from' and len(x.items) - off < total):
                    raise PyError('struct.error', getattr(e, 'lineno', 0))
                pos = off
                res = []
                for size, kind in fields:
                    chunk = x.items[pos:pos + size]; pos += size
                    if kind == 'pad':
                        continue
                    items = list(chunk) if order == 'little' else list(reversed(chunk))
                    vec = []
                    for it_ in items:
                        bv = self.byte_to_int(it_).vec() if it_[0] in ('c', 'b', 'x') else None
                        if bv is None:
                            raise Unknown(f"struct.unpack of an unknown byte at line {e.lineno}")
                        vec.extend(list(bv) + [0] * (8 - len(bv)))
                    if kind == 'float':
                        res.append(AFloat(vec, 8 * size))
                    elif kind == 'int':
                        res.append(AInt(None, vec) if any(isinstance(b, tuple) for b in vec) else AInt(sum(b << k for k, b in enumerate(vec))))
                    elif kind == 'sint' and not any(isinstance(b, tuple) for b in vec):
                        u_ = sum(b << k for k, b in enumerate(vec))
                        res.append(AInt(u_ - (1 << (8 * size)) if u_ >> (8 * size - 1) else u_))
                    else:
                        raise Unknown(f"struct.unpack kind {kind} at line {e.lineno}")
                return tuple(res)
            if isinstance(f.value, ast.Name) and f.value.id == 'binascii' and m in ('hexlify', 'b2a_hex') and len(args) == 1 and isinstance(args[0], ABytes):
                return AStr([('hexbytes', list(args[0].items))])          # the ASCII text of the lower-case hex digits (decode() of it is the same text)
            if isinstance(f.value, ast.Name) and f.value.id == 'binascii' and m in ('unhexlify', 'a2b_hex') and len(args) == 1 and isinstance(args[0], AStr) \
                    and len(args[0].pieces) == 1 and args[0].pieces[0][0] == 'hexbytes':
                return ABytes(args[0].pieces[0][1])
            if isinstance(f.value, ast.Name) and f.value.id == 'bytes' and m == 'fromhex':
                x = args[0]
                if isinstance(x, AStr):
                    if x.literal() is not None:
                        return ABytes([('c', b) for b in bytes.fromhex(x.literal())])
                    if len(x.pieces) == 1 and x.pieces[0][0] == 'hexbytes':
                        return ABytes(x.pieces[0][1])
                raise Unknown(f"bytes.fromhex of {x!r}")
            if isinstance(f.value, ast.Name) and f.value.id == 'int' and m == 'from_bytes':
                x = args[0]
                order = args[1] if len(args) > 1 else kw.get('byteorder')
                order = order.literal() if isinstance(order, AStr) else order
                if isinstance(x, ABytes) and order in ('big', 'little'):
                    items = list(x.items) if order == 'little' else list(reversed(x.items))
                    vec = []
                    for it in items:
                        bv = self.byte_to_int(it).vec()
                        if bv is None:
                            return AInt(None, None)
                        vec.extend(list(bv) + [0] * (8 - len(bv)))
                    if all(isinstance(b, int) for b in vec):
                        return AInt(sum(b << k for k, b in enumerate(vec)))
                    return AInt(None, vec)
                raise Unknown(f"int.from_bytes arguments at line {e.lineno}")
            memo_ = getattr(self, '_recv_memo', None)
            if memo_ is not None and memo_[0] is f.value:
                o = memo_[1]
                self._recv_memo = None
            else:
                o = self.expr(f.value, env)
            if isinstance(o, AOpaque):
                return AOpaque(f"{o.what}.{m}()")
            if isinstance(o, ADict):
                if m == 'get':
                    return o.items.get(self.key_of(args[0], e), args[1] if len(args) > 1 else None)
                if m == 'clear':
                    o.items.clear(); return None
                if m == 'pop':
                    k = self.key_of(args[0], e)
                    if k in o.items:
                        return o.items.pop(k)
                    if len(args) > 1:
                        return args[1]
                    raise Unknown(f"pop of a missing key at line {e.lineno}")
                if m in ('keys',):
                    return AList([self.key_back(k) for k in o.items])
                if m == 'items':
                    return AList([(self.key_back(k), v) for k, v in o.items.items()])
                if m == 'setdefault' and len(args) == 2:
                    return o.items.setdefault(self.key_of(args[0], e), args[1])
                if m == 'values':
                    return AList(list(o.items.values()))
                if m == 'update' and len(args) == 1 and isinstance(args[0], ADict) and not kw:
                    o.items.update(args[0].items); return None
                if m == 'update' and not args and kw:
                    o.items.update(kw); return None
                if m == 'clear' and not args:
                    o.items.clear(); return None
                if m == 'copy' and not args:
                    return ADict(o.items)
            if isinstance(o, AList):
                if m == 'append':
                    o.items.append(args[0]); return None
                if m == 'extend':
                    o.items.extend(self.iterate(args[0], e)); return None
                if m == 'reverse' and not args:
                    o.items.reverse(); return None
                if m == 'remove' and len(args) == 1:
                    for i_, x in enumerate(o.items):
                        if self.compare(ast.Eq(), x, args[0], e) if not (isinstance(x, AObj) or isinstance(args[0], AObj)) else x is args[0]:
                            del o.items[i_]
                            return None
                    raise PyError('ValueError', e.lineno)
                if m == 'add' and len(args) == 1:
                    if not self.compare(ast.In(), args[0], o, e):
                        o.items.append(args[0])
                    return None
                if m == 'copy' and not args:
                    return AList(o.items)
                if m == 'count' and len(args) == 1:
                    return AInt(sum(1 for x in o.items if self.truth(self.compare(ast.Eq(), x, args[0], e), e)))
                if m == 'isdisjoint' and len(args) == 1:
                    other_ = AList(list(self.iterate(args[0], e)))
                    return not any(self.compare(ast.In(), x, other_, e) for x in o.items)
                if m == 'clear' and not args:
                    o.items.clear(); return None
                if m == 'index' and len(args) == 1:
                    for i_, x in enumerate(o.items):
                        if self.compare(ast.Eq(), x, args[0], e):
                            return AInt(i_)
                    raise PyError('ValueError', e.lineno)
                if m == 'insert' and len(args) == 2 and isinstance(args[0], AInt) and args[0].v is not None:
                    o.items.insert(args[0].v, args[1]); return None
                if m == 'sort':
                    if args or set(kw) - {'reverse'} or not all(isinstance(x, AInt) and x.v is not None for x in o.items) or not isinstance(kw.get('reverse', False), bool):
                        raise Unknown(f"list.sort at line {e.lineno}")
                    o.items.sort(key=lambda x: x.v, reverse=kw.get('reverse', False)); return None
                if m == 'pop':
                    i = args[0].v if args and isinstance(args[0], AInt) else -1
                    if i is None or not o.items:
                        raise Unknown(f"list.pop at line {e.lineno}")
                    return o.items.pop(i)
            if isinstance(o, AInt) and m == 'bit_length' and not args:
                if o.v is not None:
                    return AInt(int(o.v).bit_length())
                vec_ = o.vec()
                if vec_ is not None:
                    vec_ = B.trim(vec_)
                    ones = [k for k, b_ in enumerate(vec_) if b_ == 1]
                    return AInt(None, None, ((max(ones) + 1) if ones else 0, len(vec_) if any(b_ != 0 for b_ in vec_) else 0))
                return AInt(None, None)
            if isinstance(o, AInt) and m == 'to_bytes':
                n = args[0] if args else kw.get('length')
                order = args[1] if len(args) > 1 else kw.get('byteorder')
                order = order.literal() if isinstance(order, AStr) else order
                if not (isinstance(n, AInt) and n.v is not None) or order not in ('big', 'little'):
                    raise Unknown(f"to_bytes arguments at line {e.lineno}")
                vec = o.vec()
                if vec is None:
                    items = [('u', 'abstract int')] * n.v
                else:
                    vec = list(vec) + [0] * (8 * n.v - len(vec))
                    if len(B.trim(vec)) > 8 * n.v:
                        raise Unknown(f"to_bytes({n.v}) of a value with {len(B.trim(vec))} bits at line {e.lineno}")
                    items = [norm_byte(vec[8 * i: 8 * i + 8]) for i in range(n.v)]
                    if order == 'big':
                        items.reverse()
                return ABytes(items)
            if isinstance(o, ABytes):
                if m == 'ljust':
                    n = args[0].v
                    fill = args[1].items[0] if len(args) > 1 else ('c', 0x20)
                    return ABytes(o.items + [fill] * max(0, n - len(o.items)))
                if m == 'rjust':
                    n = args[0].v
                    fill = args[1].items[0] if len(args) > 1 else ('c', 0x20)
                    return ABytes([fill] * max(0, n - len(o.items)) + o.items)
                if m == 'hex':
                    return AStr([('hexbytes', list(o.items))])
                if m in ('find', 'index', 'rfind') and args and isinstance(args[0], ABytes):
                    lo = args[1].v if len(args) > 1 and isinstance(args[1], AInt) else 0
                    hi = args[2].v if len(args) > 2 and isinstance(args[2], AInt) else None
                    if lo is None or (len(args) > 2 and hi is None):
                        raise Unknown(f"bytes.{m} with these arguments at line {e.lineno}")
                    hay = o.items if hi is None else o.items[:hi]
                    if lo < 0:
                        lo = max(0, len(o.items) + lo)
                    if m == 'rfind':
                        # the last occurrence: the first one from the right (every comparison on the way must be decided)
                        nd_ = args[0].items
                        r_ = -1
                        for i_ in range(len(hay) - len(nd_), lo - 1, -1):
                            eqs_ = [item_eq(hay[i_ + j_], nd_[j_]) for j_ in range(len(nd_))]
                            if any(x_ is None for x_ in eqs_):
                                raise Unknown('a byte comparison inside rfind() is undecided')
                            if all(eqs_):
                                r_ = i_
                                break
                        return AInt(r_)
                    r_ = bytes_find(hay, args[0].items, lo)
                    if r_ < 0 and m == 'index':
                        raise PyError('ValueError', e.lineno)
                    return AInt(r_)
                if m in ('startswith', 'endswith') and len(args) == 1 and isinstance(args[0], ABytes):
                    k_ = len(args[0].items)
                    part = o.items[:k_] if m == 'startswith' else (o.items[-k_:] if k_ else [])
                    if len(part) != k_:
                        return False
                    for x, y in zip(part, args[0].items):
                        e_ = item_eq(x, y)
                        if e_ is None:
                            raise Unknown(f"bytes.{m} on unknown contents at line {e.lineno}")
                        if not e_:
                            return False
                    return True
                if m == 'count' and len(args) == 1 and isinstance(args[0], ABytes) and args[0].items:
                    c_, pos_ = 0, 0
                    while True:
                        pos_ = bytes_find(o.items, args[0].items, pos_)
                        if pos_ < 0:
                            break
                        c_ += 1
                        pos_ += len(args[0].items)
                    return AInt(c_)
                if m == 'copy' and not args:
                    return ABytes(o.items, o.mutable)
                if m == 'join':
                    out = []
                    for i, x in enumerate(self.iterate(args[0], e)):
                        if i:
                            out.extend(o.items)
                        if not isinstance(x, ABytes):
                            raise Unknown(f"bytes.join of {type(x).__name__} at line {e.lineno}")
                        out.extend(x.items)
                    return ABytes(out)
                if m == 'extend' or m == 'append':
                    # bytearray mutation in place
                    if m == 'append':
                        o.items.append(self.int_to_byte(args[0])); return None
                    x = args[0]
                    o.items.extend(x.items if isinstance(x, ABytes) else [self.int_to_byte(v) for v in self.iterate(x, e)]); return None
                if m == 'clear' and not args:
                    o.items.clear(); return None
                if m == 'reverse' and not args:
                    o.items.reverse(); return None
                if m == 'insert' and len(args) == 2 and isinstance(args[0], AInt) and args[0].v is not None:
                    o.items.insert(args[0].v, self.int_to_byte(args[1])); return None
                if m == 'pop' and len(args) <= 1 and (not args or (isinstance(args[0], AInt) and args[0].v is not None)):
                    if not o.items:
                        raise PyError('IndexError', e.lineno)
                    return self.byte_to_int(o.items.pop(args[0].v if args else -1))
            # a method that changes a modelled container and is not modelled must not be skipped silently
            if isinstance(o, (ABytes, AList, ADict)) and m in ('reverse', 'insert', 'pop', 'remove', 'sort', 'clear', 'update', 'popitem', 'extend', 'append', 'add', 'discard', 'setdefault', '__setitem__', '__delitem__'):
                raise Unknown(f"{type(o).__name__}.{m}() with these arguments is not modelled (line {e.lineno})")
            if isinstance(o, AStr):
                if m == 'format' and o.literal() is not None and not kw:
                    return self.str_format(o.literal(), args, e)
                if m in ('upper', 'lower'):
                    return AStr([(('lit', getattr(p[1], m)()) if p[0] == 'lit' else p) for p in o.pieces])
                if m == 'encode':
                    return o           # the text itself stands for its ASCII bytes
                if m == 'decode':
                    return o
                if m == 'strip':
                    ps = list(o.pieces)
                    if ps and ps[0][0] == 'lit':
                        ps[0] = ('lit', ps[0][1].lstrip())
                    if ps and ps[-1][0] == 'lit':
                        ps[-1] = ('lit', ps[-1][1].rstrip())
                    return AStr([p for p in ps if not (p[0] == 'lit' and p[1] == '')])
                if m == 'split':
                    sep = args[0].literal() if args and isinstance(args[0], AStr) else None
                    return self.tokens(o, sep)
                if m in ('startswith', 'endswith'):
                    lit = o.literal()
                    pre = args[0].literal() if isinstance(args[0], AStr) else None
                    if lit is not None and pre is not None:
                        return getattr(lit, m)(pre)
                    first = o.pieces[0] if m == 'startswith' else o.pieces[-1]
                    if first[0] == 'lit' and pre is not None and len(first[1]) >= len(pre):
                        return getattr(first[1], m)(pre)
                    raise Unknown(f"{m} on abstract text at line {e.lineno}")
                if m == 'join':
                    a = args[0]
                    seq = a.items if isinstance(a, AList) else list(a)
                    pieces = []
                    for i, x in enumerate(seq):
                        if i:
                            pieces.extend(o.pieces)
                        pieces.extend(x.pieces if isinstance(x, AStr) else [('opaque', repr(x))])
                    return AStr(pieces)
            if isinstance(o, AObj) and isinstance(o.attrs.get('__classdef__'), ast.ClassDef):
                ac_ = AClass(o.attrs['__classdef__'], o.attrs.get('__module__'))
                fnm_, own_ = self.find_method(ac_, m)
                if fnm_ is not None:
                    d_ = self._decos(fnm_)
                    recv_ = [] if 'staticmethod' in d_ else ([ac_] if 'classmethod' in d_ else [o])
                    return self.call_function(fnm_, recv_ + args, kw, module=own_.module)
            if isinstance(o, AObj) and m in self.methods:
                fnm = self.methods[m]
                static = any(isinstance(d, ast.Name) and d.id == 'staticmethod' for d in fnm.decorator_list)
                return self.call_function(fnm, ([] if static else [o]) + args, kw)
            return AOpaque(f".{m}()")
        return AOpaque('call')

def _walk_own(node):
    """ast.walk that does not enter nested function / class bodies"""
    if isinstance(node, (ast.FunctionDef, ast.AsyncFunctionDef, ast.ClassDef)):
        return
    stack = [node]
    while stack:
        n = stack.pop()
        yield n
        for ch in ast.iter_child_nodes(n):
            if not isinstance(ch, (ast.FunctionDef, ast.AsyncFunctionDef, ast.Lambda, ast.ClassDef)):
                stack.append(ch)

def class_constants(interp, cdef):
    """class-level NAME = <literal> bindings -> abstract attribute values"""
    out = {}
    for n in cdef.body:
        tgt = None; val = None
        if isinstance(n, ast.Assign) and len(n.targets) == 1 and isinstance(n.targets[0], ast.Name):
            tgt, val = n.targets[0].id, n.value
        elif isinstance(n, ast.AnnAssign) and isinstance(n.target, ast.Name) and n.value is not None:
            tgt, val = n.target.id, n.value
        if tgt is None:
            continue
        try:
            v = ast.literal_eval(val)
        except Exception:
            continue
        if isinstance(v, bool) or v is None:
            out[tgt] = v
        elif isinstance(v, int):
            out[tgt] = AInt(v)
        elif isinstance(v, bytes):
            out[tgt] = ABytes([('c', x) for x in v])
        elif isinstance(v, str):
            out[tgt] = AStr([('lit', v)])
    return out

def _load(t):
    if isinstance(t, ast.Name):
        return ast.copy_location(ast.Name(id=t.id, ctx=ast.Load()), t)
    if isinstance(t, ast.Attribute):
        return ast.copy_location(ast.Attribute(value=t.value, attr=t.attr, ctx=ast.Load()), t)
    if isinstance(t, ast.Subscript):
        return ast.copy_location(ast.Subscript(value=t.value, slice=t.slice, ctx=ast.Load()), t)
    return t
