"""rules_enc.py -- generated encoders as tables (GEN-ENC, ENC-MASK, ROUND,
ABSENT-ENC, ENC-PRODUCER, ENC-NAME) compared with canboat.json."""
from __future__ import annotations

from . import sym
from .sym import C, NONE, show
from .gen import EncoderTable
from .model import AnalysisError
from .rules_gen import PG, encoder_name, decoder_name

_cache = {}
def encoder_tables(program):
    k = id(program)
    if k not in _cache:
        _cache[k] = {n: EncoderTable(s) for n, s in program.gen.funcs.items() if n.startswith('encode_pgn_')}
    return _cache[k]

def _norm_ite(t):
    """(a if x is None else b) -> (b if x is not None else a); type assertions folded into the condition (`x is not None and isinstance(x, T)`,
    from an `assert isinstance(..)` on that path) are dropped: assertions are taken as holding"""
    if t[0] == 'ite' and t[1][0] == 'bool' and t[1][1] == 'and':
        rest = [c for c in t[1][2] if not (c[0] == 'call' and c[1] == ('name', 'isinstance'))]
        if len(rest) == 1 and len(rest) < len(t[1][2]):
            return _norm_ite(('ite', rest[0], t[2], t[3]))
    if t[0] == 'ite' and t[1][0] == 'cmp' and t[1][1] == 'is' and t[1][3] == NONE:
        return ('ite', ('cmp', 'is not', t[1][2], NONE), t[3], t[2])
    if t[0] == 'ite' and t[1][0] == 'unop' and t[1][1] == 'not' and t[1][2][0] == 'cmp' and t[1][2][1] in ('is', 'is not') and t[1][2][3] == NONE:
        inner = t[1][2]
        flipped = ('cmp', 'is not' if inner[1] == 'is' else 'is', inner[2], NONE)
        return _norm_ite(('ite', flipped, t[2], t[3]))
    return t

def field_refs(t, M):
    """ids x such that M.get_field_by_id(x) occurs in t"""
    out = []
    for s in sym.walk(t):
        if s[0] == 'call' and s[1][0] == 'attr' and s[1][2] == 'get_field_by_id' and s[1][1] == M and len(s[2]) == 1:
            out.append(s[2][0])
    return out

def int_conv(t):
    """classify an integer conversion of a quotient: returns (mode, numerator, denominator) with mode in
    'trunc' (int(x/r)), 'round' (int(round(x/r)) / round(x/r)), 'floor' (x//r), or None"""
    def quot(q):
        if q[0] == 'binop' and q[1] == '/':
            return q[2], q[3]
        return None
    if t[0] == 'call' and t[1] == ('name', 'int') and len(t[2]) == 1:
        inner = t[2][0]
        if inner[0] == 'call' and inner[1] == ('name', 'round') and len(inner[2]) >= 1:
            q = quot(inner[2][0])
            if q and (len(inner[2]) == 1 or inner[2][1] in (C(0), NONE)):
                return ('round',) + q
        q = quot(inner)
        if q:
            return ('trunc',) + q
    if t[0] == 'call' and t[1] == ('name', 'round') and len(t[2]) == 1:
        q = quot(t[2][0])
        if q:
            return ('round',) + q
    if t[0] == 'binop' and t[1] == '//':
        return ('floor', t[2], t[3])
    return None

def classify(V, M):
    """producer term -> dict(kind=..., id=..., ...) or dict(kind='?')"""
    V = _norm_ite(V)
    refs = field_refs(V, M)
    ids = {r for r in refs}
    if len(ids) != 1:
        return {'kind': '?', 'why': f"{len(ids)} field references"}
    idt = next(iter(ids))
    if not (sym.is_const(idt) and isinstance(idt[1], str)):
        return {'kind': '?', 'why': 'field id is not a string literal'}
    F = ('call', ('attr', M, 'get_field_by_id'), (idt,), ())
    val = ('attr', F, 'value'); raw = ('attr', F, 'raw_value')
    out = {'id': idt[1]}
    if V == val:
        out.update(kind='VALUE'); return out
    if V == raw:
        out.update(kind='RAW'); return out
    if V[0] == 'call' and V[1][0] == 'name':
        fn = V[1][1]
        if fn == 'encode_number' and len(V[2]) == 4 and not V[3] and V[2][0] == val and all(sym.is_const(a) for a in V[2][1:]):
            out.update(kind='NUMBER', bits=V[2][1][1], signed=V[2][2][1], res=V[2][3][1]); return out
        if fn == 'encode_float' and len(V[2]) == 1 and V[2][0] == val:
            out.update(kind='FLOAT'); return out
        # value-only producers (no raw_value preference): recognised so that the mismatch is reported, not refused
        if fn == 'encode_date' and V[2] and V[2][0] == val:
            out.update(kind='DATE-VALUE-ONLY'); return out
        if fn == 'encode_time' and V[2] and V[2][0] == val:
            out.update(kind='TIME-VALUE-ONLY'); return out
        if fn.startswith('lookup_encode_') and V[2] == (val,):
            out.update(kind='LOOKUP-VALUE-ONLY', enum=fn[len('lookup_encode_'):]); return out
    if V[0] == 'bool' and V[1] == 'or' and len(V[2]) == 2 and V[2][0] == raw:
        # `field.raw_value or <from the value>` is `raw_value if raw_value else ...`: the same truthiness test
        sub = classify(('ite', ('cmp', 'is not', raw, NONE), raw, V[2][1]), M)
        if sub.get('kind') not in ('?',):
            sub['raw_truthy'] = True
        return sub
    if V[0] == 'ite' and (V[1] == raw or V[1] == ('call', ('name', 'bool'), (raw,), ())):
        # `if field.raw_value:` -- the raw value is preferred only when it is truthy: a raw value of 0 (a legal tick count, date or code) takes
        # the path meant for "no raw value".  Read like the `is not None` form and marked: the rules report it with raw value 0 as the witness.
        sub = classify(('ite', ('cmp', 'is not', raw, NONE), V[2], V[3]), M)
        if sub.get('kind') not in ('?',):
            sub['raw_truthy'] = True
        return sub
    if V[0] == 'ite' and V[1] == ('cmp', 'is not', raw, NONE):
        a, b = V[2], V[3]
        if a == raw and b[0] == 'call' and b[1][0] == 'name' and b[1][1].startswith('lookup_encode_') and b[2] == (val,):
            out.update(kind='LOOKUP', enum=b[1][1][len('lookup_encode_'):]); return out
        if a == raw and b[0] == 'call' and b[1] == ('name', 'encode_date') and b[2] and b[2][0] == val:
            out.update(kind='DATE', absent_args=[x for x in b[2][1:]] + [v for _, v in b[3]]); return out
        if b[0] == 'call' and b[1] == ('name', 'encode_time') and len(b[2]) >= 2 and b[2][0] == val and sym.is_const(b[2][1]):
            ic = int_conv(a)
            extra = list(b[2][2:]) + [v for _, v in b[3]]
            if ic and ic[1] == raw and sym.is_const(ic[2]):
                out.update(kind='TIME', conv=ic[0], res=ic[2][1], bits=b[2][1][1], absent_signed=(extra[0][1] if extra and sym.is_const(extra[0]) else None)); return out
            if a == raw:
                out.update(kind='TIME', conv='none', res=1, bits=b[2][1][1], absent_signed=(extra[0][1] if extra and sym.is_const(extra[0]) else None)); return out
    return {'kind': '?', 'id': idt[1], 'why': 'unrecognised producer ' + show(V)[:600]}

def split_piece(piece):
    """(V & mask) << shift -> (V, mask, shift); missing parts are None"""
    shift = 0
    p = piece
    if p[0] == 'binop' and p[1] == '<<' and sym.is_const(p[3]):
        shift = p[3][1]; p = p[2]
    mask = None
    if p[0] == 'binop' and p[1] == '&':
        if sym.is_const(p[3]):
            mask = p[3][1]; p = p[2]
        elif sym.is_const(p[2]):
            mask = p[2][1]; p = p[3]
    return p, mask, shift

EXPECT_KIND = {'NUMBER': 'NUMBER', 'PGN': 'NUMBER', 'RESERVED': 'VALUE', 'FLOAT': 'FLOAT', 'LOOKUP': 'LOOKUP', 'DATE': 'DATE',
               'TIME': 'TIME', 'DURATION': 'TIME'}

# ---------------------------------------------------------------------------------------------------------------------------------------
# the payload as bits: whatever the spelling of the assembly (OR of masked and shifted pieces, sums, modulo, struct.pack, joined byte strings),
# the returned bytes are a vector of bits each of which is a constant or bit k of one producer
class NotBits(Exception):
    pass

def _is_producer(t, M):
    """a term that stands for one field's number: it mentions exactly one get_field_by_id and is not itself arithmetic on such terms"""
    if t[0] in ('call', 'attr', 'ite', 'sub'):
        if t[0] == 'call' and t[1][0] == 'attr' and t[1][2] in ('to_bytes', 'join'):
            return False
        if t[0] == 'call' and t[1] in (('attr', ('name', 'struct'), 'pack'), ('name', 'bytes'), ('name', 'bytearray'), ('name', 'sum'), ('name', 'int')):
            if t[1] == ('name', 'int') and len(t[2]) == 1:
                return len(set(field_refs(t, M))) == 1 and not _arith(t[2][0])
            return False
        return len(set(field_refs(t, M))) == 1
    return False

def _arith(t):
    return t[0] == 'binop' and t[1] in ('&', '|', '<<', '>>', '+', '%', '*', '^')

def term_int_bits(t, M):
    """integer term -> list of bits (0 | 1 | (producer term, k)), least significant first; a producer that is not cut to a width has unknown
    extent: ('open', producer)"""
    if sym.is_const(t) and isinstance(t[1], int) and not isinstance(t[1], bool) and t[1] >= 0:
        return [(t[1] >> k) & 1 for k in range(t[1].bit_length())]
    if _is_producer(t, M):
        return ('open', t)
    if t[0] == 'binop':
        op = t[1]
        if op in ('&', '%') and (sym.is_const(t[3]) or (op == '&' and sym.is_const(t[2]))):
            c = t[3][1] if sym.is_const(t[3]) else t[2][1]
            x = t[2] if sym.is_const(t[3]) else t[3]
            if not isinstance(c, int) or c < 0:
                raise NotBits(f"{op} with {c!r}")
            n = None
            if op == '&' and (c + 1) & c == 0:
                n = c.bit_length()
            if op == '%' and c > 0 and c & (c - 1) == 0:
                n = c.bit_length() - 1
            if n is None:
                raise NotBits(f"{op} with the constant {c}")
            a = term_int_bits(x, M)
            if isinstance(a, tuple) and a[0] == 'open':
                return [(a[1], k) for k in range(n)]
            return list(a[:n])
        if op in ('<<', '*') and sym.is_const(t[3]) and isinstance(t[3][1], int):
            sh = t[3][1] if op == '<<' else (t[3][1].bit_length() - 1 if t[3][1] > 0 and t[3][1] & (t[3][1] - 1) == 0 else None)
            if sh is None or sh < 0:
                raise NotBits(f"{op} with the constant {t[3][1]}")
            a = term_int_bits(t[2], M)
            if isinstance(a, tuple):
                raise NotBits('a producer is shifted without being cut to its width')
            return [0] * sh + list(a)
        if op == '*' and sym.is_const(t[2]):
            return term_int_bits(('binop', '*', t[3], t[2]), M)
        if op in ('>>', '//') and sym.is_const(t[3]) and isinstance(t[3][1], int):
            sh = t[3][1] if op == '>>' else (t[3][1].bit_length() - 1 if t[3][1] > 0 and t[3][1] & (t[3][1] - 1) == 0 else None)
            if sh is None:
                raise NotBits(f"{op} with the constant {t[3][1]}")
            a = term_int_bits(t[2], M)
            if isinstance(a, tuple):
                raise NotBits('a producer is shifted right without a known width')
            return list(a[sh:])
        if op in ('|', '+', '^'):
            a, b = term_int_bits(t[2], M), term_int_bits(t[3], M)
            if isinstance(a, tuple) or isinstance(b, tuple):
                raise NotBits('a producer is combined without being cut to its width')
            n = max(len(a), len(b))
            a = list(a) + [0] * (n - len(a)); b = list(b) + [0] * (n - len(b))
            out = []
            for x, y in zip(a, b):
                if x == 0: out.append(y)
                elif y == 0: out.append(x)
                elif op == '|' and x == y: out.append(x)
                else:
                    raise NotBits('two pieces overlap')
            return out
    if t[0] == 'call' and t[1] == ('name', 'int') and len(t[2]) == 1:
        return term_int_bits(t[2][0], M)
    raise NotBits(show(t)[:80])

def term_bytes_bits(t, M):
    """bytes-valued term -> (bits of the payload, least significant bit of byte 0 first; number of bytes or None when computed)"""
    def fit(bits, size, what):
        if isinstance(bits, tuple):
            return [(bits[1], k) for k in range(8 * size)]       # the slot itself cuts it (struct.pack / to_bytes raise on a wider value)
        b = list(bits)
        while b and b[-1] == 0:
            b.pop()
        if len(b) > 8 * size:
            raise NotBits(f"{len(b)} bits into {what} of {size} byte(s)")
        return b + [0] * (8 * size - len(b))
    if t[0] == 'call' and t[1][0] == 'attr' and t[1][2] == 'to_bytes':
        args, kw = t[2], dict(t[3])
        ln = args[0] if args else kw.get('length')
        bo = kw.get('byteorder', args[1] if len(args) > 1 else None)
        if bo not in (C('little'), C('big')):
            raise NotBits('byte order of to_bytes')
        ib = term_int_bits(t[1][1], M)
        if not (ln is not None and sym.is_const(ln) and isinstance(ln[1], int)):
            if isinstance(ib, tuple) or bo != C('little'):
                raise NotBits('computed length')
            return list(ib), None
        bits = fit(ib, ln[1], 'to_bytes')
        if bo == C('big'):
            bits = [b for i in reversed(range(ln[1])) for b in bits[8 * i: 8 * i + 8]]
        return bits, ln[1]
    if t[0] == 'call' and t[1] == ('attr', ('name', 'struct'), 'pack') and t[2] and sym.is_const(t[2][0]) and isinstance(t[2][0][1], str) and not t[3]:
        from .absint import _struct_fmt
        sf = _struct_fmt(t[2][0][1])
        if sf is None:
            raise NotBits(f"struct format {t[2][0][1]!r}")
        order, fields = sf
        vals = list(t[2][1:])
        if len(vals) != sum(1 for sz, k in fields if k != 'pad'):
            raise NotBits('struct.pack argument count')
        bits = []
        vi = 0
        for size, kind in fields:
            if kind == 'pad':
                bits += [0] * 8; continue
            if kind not in ('int',):
                raise NotBits(f"struct code of kind {kind}")
            fb = fit(term_int_bits(vals[vi], M), size, 'a struct field'); vi += 1
            if order == 'big':
                fb = [b for i in reversed(range(size)) for b in fb[8 * i: 8 * i + 8]]
            bits += fb
        return bits, len(bits) // 8
    if t[0] == 'call' and t[1] in (('name', 'bytes'), ('name', 'bytearray')) and len(t[2]) == 1 and t[2][0][0] in ('list', 'tuple'):
        bits = []
        for x in t[2][0][1]:
            bits += fit(term_int_bits(x, M), 1, 'a byte')
        return bits, len(bits) // 8
    if t[0] == 'call' and t[1][0] == 'attr' and t[1][2] == 'join' and t[1][1] in (C(b''),) and len(t[2]) == 1 and t[2][0][0] in ('list', 'tuple'):
        bits = []
        for x in t[2][0][1]:
            b, n = term_bytes_bits(x, M)
            if n is None:
                raise NotBits('a part of unknown length is joined')
            bits += b
        return bits, len(bits) // 8
    if t[0] == 'binop' and t[1] == '+':
        a, na = term_bytes_bits(t[2], M); b, nb = term_bytes_bits(t[3], M)
        if na is None or nb is None:
            raise NotBits('parts of unknown length are concatenated')
        return a + b, na + nb
    if sym.is_const(t) and isinstance(t[1], bytes):
        return [(byte >> k) & 1 for byte in t[1] for k in range(8)], len(t[1])
    raise NotBits(show(t)[:80])

def rows_from_bits(bits, M):
    """maximal runs of one producer's bits 0..n-1 -> rows like the OR-piece rows (cls, mask, shift, V); None when a run does not start at the producer's bit 0"""
    rows = []
    i = 0
    while i < len(bits):
        b = bits[i]
        if b in (0, 1):
            i += 1
            continue
        V, k0 = b
        j = i
        while j < len(bits) and isinstance(bits[j], tuple) and bits[j][0] == V and bits[j][1] == k0 + (j - i):
            j += 1
        if k0 != 0:
            raise NotBits('a field is written from a bit other than its lowest')
        rows.append({'cls': classify(V, M), 'mask': (1 << (j - i)) - 1, 'shift': i, 'piece': V, 'V': V})
        i = j
    if any(b == 1 for b in bits):
        raise NotBits('constant one bits in the payload')
    return rows

def encoder_rows(program, d):
    """-> (table, rows, return term, serialisation facts).  rows = list of dict(cls, mask, shift, piece, V); None if the encoder does not return bytes
    that can be read as bits of producers"""
    t, rows, r = _encoder_rows_or(program, d)
    if t is None or t.ret is None:
        return t, rows, r
    M = ('param', t.param)
    need = rows is None or len(rows) != len(d.fields) or any(row['mask'] is None or row['cls']['kind'] == '?' for row in rows)
    if need:
        try:
            bits, nbytes = term_bytes_bits(t.ret[1], M)
            rows2 = rows_from_bits(bits, M)
        except NotBits as nb:
            t.not_bits = str(nb)
            return t, rows, r
        t.semantic_layout = {'nbytes': nbytes, 'bits': len(bits)}
        return t, rows2, ('semantic', nbytes)
    return t, rows, r

def _encoder_rows_or(program, d):
    """-> (table, rows) rows = list of dict(cls, mask, shift, piece) or None if the encoder has no to_bytes return"""
    tabs = encoder_tables(program)
    fname = encoder_name(d)
    t = tabs.get(fname)
    if t is None or t.ret is None:
        return t, None, None
    r = t.ret[1]
    if not (r[0] == 'call' and r[1][0] == 'attr' and r[1][2] == 'to_bytes'):
        return t, None, r
    M = ('param', t.param)
    rows = []
    for piece in sym.flatten_or(r[1][1]):
        V, mask, shift = split_piece(piece)
        rows.append({'cls': classify(V, M), 'mask': mask, 'shift': shift, 'piece': piece, 'V': V})
    return t, rows, r

def gen_enc(chk, program, rule='GEN-ENC', mask_rule='ENC-MASK', want=('table', 'mask')):
    """per encodable definition: field ids, producer kinds and constants, mask/shift, serialisation"""
    db = program.db
    tabs = encoder_tables(program)
    nenc = 0; nrows = 0; nnon = 0
    sites = []   # (d, f, fname, row, table) for further rules
    for d in db.defs:
        if not d.group.complex and d is not d.group.defs[-1]:
            continue
        fname = encoder_name(d)
        if fname not in tabs:
            if 'table' in want:
                chk.violation(rule, f"{fname}::exists", file=PG, line=0, expected=f"def {fname}", found='absent')
            continue
        t = tabs[fname]
        line = t.s['line']
        for p in t.problems:
            chk.unknown(rule, fname, p, PG, line)
        if not d.encodable():
            nnon += 1
            if 'table' in want:
                # must raise before producing bytes on every path
                if t.ret is not None:
                    # the library encodes a definition with a field type this analysis holds no writer reference for (support added later): whether
                    # those bytes are right is not decided here -- no verdict, not an alarm
                    chk.unknown(rule, f"{fname}::not-encodable", 'the encoder returns bytes for a definition with a field type (or position) for which this analysis has no reference writer', PG, line)
                else:
                    chk.check(bool(t.raises), rule, f"{fname}::not-encodable", file=PG, line=line, func=fname,
                              expected='raises before producing bytes (a field type / position is not encodable)', found='no raise', nontrivial=False)
            continue
        nenc += 1
        t, rows, r = encoder_rows(program, d)
        if rows is None and t.ret is not None and getattr(t, 'not_bits', None):
            if 'table' in want:
                chk.unknown(rule, f"{fname}::returns", f"the returned bytes are neither <int>.to_bytes(..) of OR-ed pieces nor readable as bits of producers: {t.not_bits}", PG, line)
            continue
        if rows is None and t.problems:
            continue        # not walkable (reported above as undecided): nothing is known about what it returns
        if rows is None:
            if 'table' in want:
                chk.violation(rule, f"{fname}::returns", file=PG, line=line, func=fname,
                              expected='return <payload int>.to_bytes(Length, "little")',
                              found=show(r) if r else ('raises' if t.raises else 'no return'),
                              detail=f"definition {d.key} is encodable by the database but the encoder does not produce bytes")
            continue
        if 'table' in want and r[0] == 'semantic':
            # another spelling of the assembly: read as bits (little-endian payload order is part of that reading)
            if d.length is not None:
                chk.check(r[1] == d.length, rule, f"{fname}::to_bytes.length", file=PG, line=t.ret[2], func=fname, expected=d.length, found=r[1])
            chk.ok(rule, f"{fname}::to_bytes.byteorder", file=PG, line=t.ret[2], func=fname, found='payload read as bits, byte 0 first')
            if len(rows) != len(d.fields):
                # the bit reading found only some of the producers (parts of the payload come out of a loop or a container it does not follow): no verdict
                chk.unknown(rule, f"{fname}::piece-count", f"payload read as bits: {len(rows)} of {len(d.fields)} producers found, the rest of the payload was not followed", PG, line)
                continue
            chk.check(True, rule, f"{fname}::piece-count", file=PG, line=line, func=fname, expected=len(d.fields), found=len(rows))
        elif 'table' in want:
            # serialisation
            targs = r[2]; tk = dict(r[3])
            bo = tk.get('byteorder', targs[1] if len(targs) > 1 else None)
            ln = targs[0] if targs else tk.get('length')
            if d.length is not None:
                chk.check(ln == C(d.length), rule, f"{fname}::to_bytes.length", file=PG, line=t.ret[2], func=fname, expected=d.length, found=show(ln) if ln else None)
            else:
                chk.check(ln is not None and not sym.is_const(ln), rule, f"{fname}::to_bytes.length", file=PG, line=t.ret[2], func=fname,
                          expected='computed from bit length (database has no Length)', found=show(ln) if ln else None, nontrivial=False)
            chk.check(bo == C('little'), rule, f"{fname}::to_bytes.byteorder", file=PG, line=t.ret[2], func=fname, expected='little', found=show(bo) if bo else None)
            if len(rows) != len(d.fields) and any(s_[0] == 'opaque' and str(s_[1]).startswith('loop') for s_ in sym.walk(t.ret[1])):
                # part of the payload is assembled by a loop the guard extractor only approximates: the pieces it did not see are not known to be missing
                chk.unknown(rule, f"{fname}::piece-count", f"{len(rows)} of {len(d.fields)} pieces read; the payload also passes through a loop that was not followed", PG, line)
                continue
            chk.check(len(rows) == len(d.fields), rule, f"{fname}::piece-count", file=PG, line=line, func=fname, expected=len(d.fields), found=len(rows))
            for (g, term, ln2) in t.raises:
                # raises guarded only by "field is None" are dead code (get_field_by_id raises itself); others are reported
                last = sym.conj(g)[-1:]
                if all(_is_field_none_guard(x) for x in last):
                    continue
                # a rejection of an over-wide value is what C09 asks for: a raise whose deciding condition compares a producer of this encoder with constants
                prods = [r_['V'] for r_ in rows]
                if last and any(any(y == v for y in sym.walk(last[0])) for v in prods) and any(y[0] == 'cmp' or (y[0] == 'binop' and y[1] == '>>') for y in sym.walk(last[0])):
                    continue
                chk.violation(rule, f"{fname}::raise", file=PG, line=ln2, func=fname, expected='no raise in an encodable definition (other than rejecting a value that does not fit its field)', found=show(term))
        for i, f in enumerate(d.fields):
            if i >= len(rows):
                break
            row = rows[i]
            cls = row['cls']
            inst = f"{fname}::{i + 1}:{f.id}"
            nrows += 1
            sites.append((d, f, fname, row, t))
            if 'table' in want:
                if cls['kind'] == '?':
                    chk.unknown(rule, inst, cls.get('why', 'unrecognised producer'), PG, line)
                    continue
                chk.check(cls.get('id') == f.id, rule, f"{inst}::id", file=PG, line=line, func=fname, expected=f.id, found=cls.get('id'))
                if cls.get('raw_truthy'):
                    chk.violation(rule, f"{inst}::raw-value-preferred-when-present", file=PG, line=line, func=fname, expected='the decoded raw value is written back whenever there is one (`raw_value is not None`)',
                                  found='`if raw_value:` -- a raw value of 0 is treated as absent', detail='witness: raw value 0 (UTC offset 0, interval 0, the first day of the epoch, code 0): the field is re-encoded from '
                                  'the displayed value instead, which for durations is not even accepted by encode_time')
                ek = EXPECT_KIND[f.type]
                okk = cls['kind'] == ek
                chk.check(okk, rule, f"{inst}::producer", file=PG, line=line, func=fname, expected=ek, found=cls['kind'],
                          detail=f"field type {f.type}")
                if okk:
                    if ek == 'NUMBER':
                        chk.check((cls['bits'], bool(cls['signed']), cls['res']) == (f.bit_length, f.signed, f.resolution), rule, f"{inst}::encode_number-args",
                                  file=PG, line=line, func=fname, expected=[f.bit_length, f.signed, f.resolution], found=[cls['bits'], cls['signed'], cls['res']])
                    elif ek == 'LOOKUP':
                        chk.check(cls['enum'] == f.lookup, rule, f"{inst}::lookup-enum", file=PG, line=line, func=fname, expected=f.lookup, found=cls['enum'])
                    elif ek == 'TIME':
                        chk.check((cls['bits'], cls['res']) == (f.bit_length, f.resolution), rule, f"{inst}::time-args", file=PG, line=line, func=fname,
                                  expected=[f.bit_length, f.resolution], found=[cls['bits'], cls['res']])
            if 'mask' in want:
                chk.check(row['mask'] == (1 << f.bit_length) - 1 and row['shift'] == f.bit_offset, mask_rule, f"{inst}", file=PG, line=line, func=fname,
                          expected=[(1 << f.bit_length) - 1, f.bit_offset], found=[row['mask'], row['shift']], detail='(mask, shift) of the OR-ed piece')
    chk.unit('encodable_definitions', nenc)
    chk.unit('non_encodable_definitions', nnon)
    chk.unit('encoder_rows', nrows)
    return sites

def _is_field_none_guard(t):
    return t[0] == 'cmp' and t[1] == 'is' and t[3] == NONE and t[2][0] == 'call' and t[2][1][0] == 'attr' and t[2][1][2] == 'get_field_by_id'

def enc_name(chk, program, rule='ENC-NAME'):
    """exactly one of encode_pgn_<PGN> / encode_pgn_<PGN>_<Id> exists per definition, as _call_encode_function forms them"""
    db, g = program.db, program.gen
    n = 0
    for d in db.defs:
        if not d.group.complex and d is not d.group.defs[-1]:
            continue
        n += 1
        plain = f"encode_pgn_{d.pgn}"; byid = f"encode_pgn_{d.pgn}_{d.id}"
        if d.group.complex:
            chk.check(byid in g.funcs and plain not in g.funcs, rule, f"{d.key}", file=PG, line=g.funcs.get(byid, {'line': 0})['line'],
                      expected=f"{byid} only (lookup tries {plain} first)", found=[x for x in (plain, byid) if x in g.funcs])
        else:
            chk.check(plain in g.funcs, rule, f"{d.key}", file=PG, line=g.funcs.get(plain, {'line': 0})['line'], expected=plain, found=[x for x in (plain, byid) if x in g.funcs])
    # how _call_encode_function forms the names: decided by interpretation for every definition
    enc_lookup(chk, program, rule)
    chk.unit('encoder_names', n)

def enc_lookup(chk, program, rule='ENC-NAME'):
    """NMEA2000Encoder._call_encode_function interpreted (absint) for every database definition: `globals()` is the generated module's function
    table, the message carries the definition's PGN and id.  Obligation: exactly the definition's own encoder is called, once, with the message
    itself, and its result is what is returned; an unknown PGN raises.  Any spelling of the lookup passes if it does that."""
    import ast
    from . import absint as A
    from .wire import is_logger
    db, g = program.db, program.gen
    fn = program.fn('encoder', 'NMEA2000Encoder._call_encode_function')
    E = 'nmea2000/encoder.py'
    table = A.ADict({name: A.AObj(generated_function=name) for name in g.funcs if name.startswith('encode_pgn_')})
    cls = program.cls('encoder', 'NMEA2000Encoder')
    methods = {n.name: n for n in cls.body if isinstance(n, (ast.FunctionDef, ast.AsyncFunctionDef))}
    funcs = {q: f for q, f in program.mod('encoder').defs.items() if '.' not in q}
    # names bound to the generated module itself (from . import pgns as P / import nmea2000.pgns as P): its attributes are the same function table
    pg_alias = set()
    for n_ in program.mod('encoder').tree.body:
        if isinstance(n_, ast.ImportFrom) and n_.module in (None, 'nmea2000') and n_.level <= 1:
            pg_alias |= {a.asname or a.name for a in n_.names if a.name == 'pgns'}
        if isinstance(n_, ast.Import):
            pg_alias |= {a.asname for a in n_.names if a.name.endswith('.pgns') and a.asname}
    def run(pgn, mid):
        calls = []
        def hook(it, call, env):
            f = call.func
            if isinstance(f, ast.Name) and f.id == 'globals' and not call.args:
                return table
            if isinstance(f, ast.Name) and f.id == 'vars' and len(call.args) == 1 and isinstance(call.args[0], ast.Name) and call.args[0].id in pg_alias and call.args[0].id not in env:
                return table
            if isinstance(f, ast.Name) and f.id == 'getattr' and len(call.args) in (2, 3) and isinstance(call.args[0], ast.Name) and call.args[0].id in pg_alias and call.args[0].id not in env:
                key = it.expr(call.args[1], env)
                k_ = key.literal() if isinstance(key, A.AStr) else None
                if k_ is None:
                    raise A.Unknown('attribute name of the generated module is not a literal string')
                if k_ in table.items:
                    return table.items[k_]
                if len(call.args) == 3:
                    return it.expr(call.args[2], env)
                raise A.PyError('AttributeError', call.lineno)
            if isinstance(f, ast.Name) and isinstance(env.get(f.id), A.AObj) and 'generated_function' in env[f.id].attrs:
                args = [it.expr(a, env) for a in call.args]
                calls.append((env[f.id].attrs['generated_function'], args))
                return A.AObj(result_of=env[f.id].attrs['generated_function'])
            return NotImplemented
        msg = A.AObj(PGN=A.AInt(pgn), id=A.AStr([('lit', mid)]), fields=A.AOpaque('fields'), source=A.AInt(1), destination=A.AInt(255), priority=A.AInt(3),
                     description=A.AStr([('lit', 'Some Description')]), ttl=None, timestamp=A.AOpaque('timestamp'), hash=None, source_iso_name=None, raw_can_data=None)
        it = A.Interp(hook=hook, skip=is_logger, methods=methods, functions=funcs)
        selfo = A.AObj()
        selfo.attrs.update(A.class_constants(None, cls))
        try:
            r = it.call_function(fn, [selfo, msg])
        except A.RaiseSignal as e:
            return ('raise', A.exc_kind(e), calls, msg)
        return ('return', r, calls, msg)
    n = 0
    unknown = None
    for d in db.defs:
        if not d.group.complex and d is not d.group.defs[-1]:
            continue
        want = f"encode_pgn_{d.pgn}_{d.id}" if d.group.complex else f"encode_pgn_{d.pgn}"
        if want not in g.funcs:
            continue          # reported by the table half of ENC-NAME
        try:
            out = run(d.pgn, d.id)
        except A.Unknown as u:
            unknown = str(u)
            break
        n += 1
        kind, r, calls, msg = out
        ok = kind == 'return' and len(calls) == 1 and calls[0][0] == want and len(calls[0][1]) == 1 and calls[0][1][0] is msg and isinstance(r, A.AObj) and r.attrs.get('result_of') == want
        chk.check(ok, rule, f"lookup::{d.key}", file=E, line=fn.lineno, func='_call_encode_function',
                  expected=f"{want}(message) is called once and its result returned", found='ok' if ok else {'outcome': kind, 'calls': [c[0] for c in calls], 'result': repr(r)[:60]},
                  detail='' if ok else 'the message is encoded by another definition\'s encoder, or not at all')
    if unknown is None:
        try:
            out = run(1, 'noSuchDefinition')
            chk.check(out[0] == 'raise' and out[1] == 'ValueError' and not out[2], rule, 'lookup::unknown-pgn', file=E, line=fn.lineno, func='_call_encode_function',
                      expected='ValueError, nothing called', found={'outcome': out[0], 'what': repr(out[1])[:60], 'calls': [c[0] for c in out[2]]})
        except A.Unknown as u:
            unknown = str(u)
    if unknown is not None:
        chk.unknown(rule, '_call_encode_function', f"not interpretable: {unknown}", E, fn.lineno)
    chk.unit('encoder_lookups_interpreted', n)
    return n

def round_rule(chk, program, sites, rule='ROUND'):
    """every scaled value -> integer tick conversion passes through round (or divides by an integer resolution)"""
    n = 0
    for d, f, fname, row, t in sites:
        cls = row['cls']
        if cls['kind'] != 'TIME':
            continue
        n += 1
        res = cls['res']
        integral = isinstance(res, int) or (isinstance(res, float) and res.is_integer())
        ok = cls['conv'] in ('round', 'none') or (cls['conv'] in ('trunc', 'floor') and integral)
        chk.check(ok, rule, f"{fname}::{f.id}", file=PG, line=t.s['line'], func=fname,
                  expected='int(round(raw_value / Resolution))' if not integral else 'exact quotient',
                  found=f"{cls['conv']}(raw_value / {res})",
                  detail='' if ok else f"float quotient n*{res}/{res} can fall just below n and int() truncates it to n-1 (tick lost)")
    chk.unit('tick_conversions', n)
    return n

def absent_enc(chk, program, sites, rule='ABSENT-ENC'):
    """every producer has a path for an absent value that yields a pattern, not an exception"""
    n = 0
    for d, f, fname, row, t in sites:
        cls = row['cls']
        k = cls['kind']
        if k == '?':
            continue
        n += 1
        inst = f"{fname}::{f.id}"
        if k == 'DATE':
            # the absent path is: raw_value is None -> encode_date(value); look for an assertion on that path
            # that excludes None, or an encode_date without a None branch
            M = ('param', t.param)
            F = ('call', ('attr', M, 'get_field_by_id'), (C(cls['id']),), ())
            val = ('attr', F, 'value')
            bad = None
            for (g, term, ln) in t.asserts:
                if term[0] == 'call' and term[1] == ('name', 'isinstance') and term[2] and term[2][0] == val:
                    # guard must contain "raw_value is None"
                    bad = (term, ln)
                if term[0] == 'bool' and term[1] == 'or' and any(x == ('cmp', 'is', val, NONE) for x in term[2]):
                    bad = None if bad is None else bad
            helper_ok = _helper_handles_none(program, 'encode_date')
            ok = bad is None and helper_ok
            chk.check(ok, rule, inst, file=PG, line=bad[1] if bad else t.s['line'], func=fname,
                      expected='absent DATE (raw_value None, value None) encodes to the not-available pattern',
                      found=(f"assert {show(bad[0])} fails for an absent value" if bad else 'utils.encode_date has no None branch'),
                      detail='a decoded message with an absent date cannot be re-encoded')
        elif k == 'TIME':
            chk.check(_helper_handles_none(program, 'encode_time'), rule, inst, file=PG, line=t.s['line'], func=fname,
                      expected='encode_time(None, n) returns a pattern', found='no None branch')
        elif k == 'NUMBER':
            chk.check(_helper_handles_none(program, 'encode_number'), rule, inst, file=PG, line=t.s['line'], func=fname,
                      expected='encode_number(None, ..) returns a pattern', found='no None branch', nontrivial=False)
        else:
            chk.ok(rule, inst, file=PG, line=t.s['line'], func=fname, nontrivial=False,
                   detail='raw path: the decoder never reports an absent value for this type')
    chk.unit('absent_sites', n)

_hn = {}
def _helper_handles_none(program, name):
    """first statement-level decision of the helper: `if <param0> is None: return <int expr>` (not raise)"""
    key = (id(program), name)
    if key in _hn:
        return _hn[key]
    fn = program.fn('utils', name)
    # the helper partially evaluated at value = None (helpers it calls walked in place): whatever the spelling (`is None` first, `is not None`
    # with an early return, a shared helper for the pattern), an absent value must end in a return, never in a raise
    from .rules_help import helpers
    p0n = [a.arg for a in fn.args.args][0]
    ex = sym.SymExec(fn, bind={p0n: NONE}, inline=helpers(program))
    try:
        ex.run()
    except sym.Unsupported:
        _hn[key] = False
        return False
    res = False
    outs = [ev for ev in ex.events if ev[0] in ('return', 'raise')]
    if outs:
        res = all(ev[0] == 'return' and ev[2] != NONE for ev in outs)
    _hn[key] = res
    return res

UNCHECKED = {
    'DATE-VALUE-ONLY': 'encode_date result reaches the mask without a width check',
    'TIME-VALUE-ONLY': 'encode_time result reaches the mask without a width check',
    'LOOKUP-VALUE-ONLY': 'lookup_encode result reaches the mask without a width check',
    'VALUE': 'field.value (RESERVED) reaches the mask without a width check',
    'LOOKUP': 'field.raw_value / lookup_encode result reaches the mask without a width check',
    'DATE': 'field.raw_value / encode_date result reaches the mask without a width check',
    'TIME': 'int(raw_value/Resolution) / encode_time result reaches the mask without a width check',
    'RAW': 'field.raw_value reaches the mask without a width check',
}

def enc_producer(chk, program, sites, rule='ENC-PRODUCER'):
    """inventory of what reaches each mask: range-checked vs unchecked producers"""
    counts = {}
    for d, f, fname, row, t in sites:
        k = row['cls']['kind']
        counts[k] = counts.get(k, 0) + 1
        inst = f"{fname}::{f.id}"
        if k in ('NUMBER', 'FLOAT'):
            chk.ok(rule, inst, file=PG, line=t.s['line'], func=fname, found=k, nontrivial=True)
        elif k in UNCHECKED:
            if _has_width_check(row['V'], f.bit_length, t):
                chk.ok(rule, inst, file=PG, line=t.s['line'], func=fname, found=k + '+width-check')
            else:
                chk.violation(rule, inst, file=PG, line=t.s['line'], func=fname, expected='value rejected when it does not fit BitLength', found=k,
                              detail=UNCHECKED[k] + f" ({f.bit_length} bits): an over-wide value is silently truncated", group=k)
    chk.unit('producers', counts)

def _has_width_check(V, bits, table=None):
    """the value reaching the mask is rejected when it does not fit: recognised shapes
       (a) an explicit raise of the encoder whose guard compares this producer term with constants bounding it by the field width
           (`if not 0 <= field_value <= 0xFF: raise ...`, `if field_value >> 8: raise ...`, `if field_value.bit_length() > 8: raise ...`);
       (b) the producer wrapped in a helper call that takes the width (any call whose argument list holds the producer and the constant BitLength or mask)"""
    top = (1 << bits) - 1
    for s in sym.walk(V):
        if s[0] == 'call' and s[1][0] == 'name' and not s[1][1].startswith(('encode_', 'lookup_encode_', 'int', 'round')):
            consts = [a[1] for a in s[2] if sym.is_const(a)] + [v[1] for _, v in s[3] if sym.is_const(v)]
            if any(c in (bits, top, top + 1) for c in consts):
                return True
    if table is None:
        return False
    for (g, term, ln) in table.raises:
        for c in sym.conj(g):
            mentions = any(x == V for x in sym.walk(c))
            if not mentions:
                continue
            for x in sym.walk(c):
                if x[0] == 'cmp' and x[1] in ('<', '<=', '>', '>=', '!=', '=='):
                    for a, b in ((x[2], x[3]), (x[3], x[2])):
                        if sym.is_const(b) and isinstance(b[1], int) and b[1] in (top, top + 1, bits, 0):
                            inner = [y for y in sym.walk(a) if y == V]
                            if inner and b[1] != 0:
                                return True
                if x[0] == 'binop' and x[1] == '>>' and x[2] == V and x[3] == C(bits):
                    return True
    return False

def lookup_inv(chk, program, rule='LOOKUP-INV'):
    """lookup_dict_encode_X maps every name of master_dict[X] back to its value (where the name is unique),
    and lookup_encode_X consults that dictionary"""
    db, g = program.db, program.gen
    n = 0
    used = {f.lookup for d in db.defs if d.encodable() for f in d.fields if f.type == 'LOOKUP'}
    for ename, entries in db.lookups.items():
        tname = f"lookup_dict_encode_{ename}"
        if tname not in g.tables:
            chk.violation(rule, f"{tname}::exists", file=PG, line=0, expected='dictionary literal', found='absent')
            continue
        eff = {}
        for k, v, ln in g.tables[tname]['dict']:
            eff[k] = (v, ln)
        names = {}
        for v, nm in entries:
            names.setdefault(nm, []).append(v)
        for nm, vals in names.items():
            n += 1
            if nm not in eff:
                chk.violation(rule, f"{tname}[{nm!r}]", file=PG, line=g.tables[tname]['line'], expected=vals, found='absent')
            elif len(vals) == 1:
                chk.check(eff[nm][0] == vals[0], rule, f"{tname}[{nm!r}]", file=PG, line=eff[nm][1], expected=vals[0], found=eff[nm][0])
            else:
                chk.check(eff[nm][0] in vals, rule, f"{tname}[{nm!r}]", file=PG, line=eff[nm][1], expected=f"one of {vals} (name is ambiguous in the database)", found=eff[nm][0], nontrivial=False)
        fn = f"lookup_encode_{ename}"
        s = g.funcs.get(fn)
        if s is None:
            if ename in used:
                chk.violation(rule, f"{fn}::exists", file=PG, line=0, expected='defined', found='absent')
            continue
        rets = [e for e in s['events'] if e[0] == 'return']
        P = ('param', s['params'][0]) if s.get('params') else None
        want = ('call', ('attr', ('name', tname), 'get'), (P,), ())
        from .gen import canon
        okk = len(rets) == 1 and canon(rets[0][2]) == want
        chk.check(okk, rule, f"{fn}::consults", file=PG, line=s['line'], func=fn, expected=f"{tname}.get(value)", found=[show(r[2]) for r in rets])
    chk.unit('lookup_names', n)

def enc_state(chk, program, rule='ENC-STATE'):
    n = enc_state_attrs(chk, program, rule)
    # which function encodes a message depends on that message only: decided by interpretation for every definition (enc_lookup)
    enc_lookup(chk, program, rule)
    chk.unit('encoder_self_accesses', n)

def enc_state_attrs(chk, program, rule='ENC-STATE'):
    """the encoder's only instance state is the fast-packet sequence counter, touched only by __init__ and _encode_fast_message;
    the per-PGN encode function and the identifier are resolved afresh for every message (no cache between messages)"""
    import ast
    m = program.mod('encoder')
    E = 'nmea2000/encoder.py'
    allowed = {'NMEA2000Encoder.__init__': {'sequence_counter'}, 'NMEA2000Encoder._encode_fast_message': {'sequence_counter'}}
    methods = {'_call_encode_function', '_encode_fast_message', '_build_header', '_encode', 'encode_ebyte', 'encode_usb', 'encode_actisense', 'encode_yacht_devices', 'bytes_to_hex_string'}
    n = 0
    # every use of self.<attr> in the class, classified: 'read', 'write' (rebinding, item store, mutating method), or 'other' (a use whose
    # effect on the object cannot be read off the syntax: handed to a call, a method that is neither a known reader nor a known mutator,
    # an attribute of the object assigned).  An attribute bound in __init__ and only read afterwards is configuration, not state.
    READERS = {'get', 'items', 'keys', 'values', 'index', 'count', 'copy', 'hex', 'startswith', 'endswith', 'format', 'join', 'to_bytes', 'bit_length'}
    MUTATORS = {'setdefault', 'update', 'append', 'pop', 'clear', 'add', 'insert', 'extend', 'remove', 'popitem', 'discard', '__setitem__', 'move_to_end', 'appendleft', 'popleft'}
    uses = {}
    cdef = program.cls('encoder', 'NMEA2000Encoder')
    props = {f.name for f in cdef.body if isinstance(f, (ast.FunctionDef, ast.AsyncFunctionDef)) and f.decorator_list}
    for q, fn in m.defs.items():
        if not q.startswith('NMEA2000Encoder.') or q.count('.') != 1:
            continue
        for node in ast.walk(fn):
            if isinstance(node, ast.Attribute) and isinstance(node.value, ast.Name) and node.value.id == 'self':
                par = getattr(node, '_parent', None)
                is_call = isinstance(par, ast.Call) and par.func is node
                if is_call and (node.attr in methods or f"NMEA2000Encoder.{node.attr}" in m.defs):
                    continue
                n += 1
                if isinstance(node.ctx, (ast.Store, ast.Del)):
                    how = 'write'
                elif isinstance(par, ast.AugAssign) and par.target is node:
                    how = 'write'
                elif isinstance(par, ast.Subscript) and par.value is node:
                    how = 'write' if isinstance(par.ctx, (ast.Store, ast.Del)) else 'read'
                elif isinstance(par, ast.Attribute) and par.value is node:
                    gp = getattr(par, '_parent', None)
                    if isinstance(par.ctx, (ast.Store, ast.Del)):
                        how = 'other'
                    elif isinstance(gp, ast.Call) and gp.func is par:
                        how = 'read' if par.attr in READERS else ('write' if par.attr in MUTATORS else 'other')
                    else:
                        how = 'read'
                elif isinstance(par, ast.Call) and (node in par.args or any(k.value is node for k in par.keywords)):
                    f_ = par.func
                    how = 'read' if isinstance(f_, ast.Name) and f_.id in ('len', 'bool', 'int', 'str', 'bytes', 'hasattr', 'getattr', 'isinstance', 'sorted', 'list', 'tuple', 'min', 'max', 'sum', 'repr', 'format', 'range') else 'other'
                else:
                    how = 'read'
                if node.attr in props and f"NMEA2000Encoder.{node.attr}" in m.defs:
                    how = 'other'      # a property / decorated member of the class: what the access does is that member's body
                uses.setdefault(node.attr, []).append((q, how, node))
    for attr, us in sorted(uses.items()):
        after = [(q, how, node) for q, how, node in us if q != 'NMEA2000Encoder.__init__']
        if attr == 'sequence_counter' and 'sequence_counter' not in props:
            for q, how, node in us:
                ok = attr in allowed.get(q, set())
                if ok or how == 'write':
                    chk.check(ok, rule, f"{q}::self.{attr}", file=E, line=node.lineno, func=q,
                              expected='the sequence counter is written only by __init__ and _encode_fast_message', found=f"self.{attr} {how} in {q}",
                              detail='' if ok else 'the sequence number of a fast-packet message would depend on what else was encoded')
                else:
                    chk.unknown(rule, f"{q}::self.{attr}", f"the sequence counter is read in {q}: whether the bytes depend on it there is not decided by this rule", E, node.lineno)
            continue
        writes = [u for u in after if u[1] == 'write']
        reads = [u for u in after if u[1] == 'read']
        other = [u for u in after if u[1] == 'other']
        if writes and (reads or other or any(isinstance(getattr(u[2], '_parent', None), (ast.AugAssign, ast.Subscript, ast.Attribute)) for u in writes)):
            q, how, node = writes[0]
            chk.check(False, rule, f"{q}::self.{attr}", file=E, line=node.lineno, func=q,
                      expected='no instance state besides the sequence counter of _encode_fast_message',
                      found=f"self.{attr} written in {sorted({u[0] for u in writes})} and read in {sorted({u[0] for u in reads + other})}",
                      detail='state kept between messages (a cache of encode functions or identifiers) makes the bytes of one message depend on the messages encoded before it')
        elif other:
            q, how, node = other[0]
            chk.unknown(rule, f"{q}::self.{attr}", f"self.{attr} is used in a way whose effect on it is not visible here ({ast.unparse(getattr(node, '_parent', node))[:60]}): state or configuration not decided", E, node.lineno)
        else:
            for q, how, node in us:
                chk.check(True, rule, f"{q}::self.{attr}", file=E, line=node.lineno, func=q, expected='configuration: bound in __init__, only read afterwards', found=how)
    return n
