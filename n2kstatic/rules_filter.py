"""rules_filter.py -- decision tables for the PGN filters, the dump filter and the manufacturer filter (C10, C15, C11).

The filter code touches its inputs only through membership / emptiness / equality, so the boolean function
"is this message returned" can be tabulated exhaustively over a small universe of list contents: the
guards of every `return None` (sym.py) are evaluated (teval.py) over each model and compared with the
statement's own definition of "permitted".  The constructor is read statically too: split_pgn_list's
element types and case normalisation, the defining expression of the claim-suppression flag and the removal
loops that follow it.
"""
from __future__ import annotations

import ast
import itertools

from . import sym, teval
from .sym import C, NONE, show
from .model import AnalysisError
from .cfg import CFG

DEC = 'nmea2000/decoder.py'
CLS = 'NMEA2000Decoder'

class Stub:
    """stand-in object with attributes"""
    def __init__(self, **a):
        self.attrs = a
    def __repr__(self):
        return f"Stub({self.attrs})"

def module_consts(program):
    m = program.mod('decoder')
    out = {}
    for n in m.tree.body:
        if isinstance(n, ast.Assign) and len(n.targets) == 1 and isinstance(n.targets[0], ast.Name) and isinstance(n.value, ast.Constant):
            out[n.targets[0].id] = n.value.value
    # the address-claim PGN is a protocol constant (database id isoAddressClaim); a module that no longer names it is still analysable
    out.setdefault('ISO_CLAIM_PGN', 60928)
    out.setdefault('ISO_CLAIM_PGN_ID', 'isoAddressClaim')
    return out

# ---------------------------------------------------------------------------
# constructor facts
# ---------------------------------------------------------------------------
def split_facts(program):
    """split_pgn_list: -> dict(int_pos, str_pos, str_lower: bool) -- which returned list takes ints / strs and whether strs are lower-cased"""
    fn = program.fn('decoder', f"{CLS}.split_pgn_list")
    params = [a.arg for a in fn.args.args if a.arg != 'self']
    ret = [n for n in ast.walk(fn) if isinstance(n, ast.Return) and isinstance(n.value, ast.Tuple)]
    if not ret:
        raise AnalysisError('split_pgn_list: tuple return not found')
    names = [e.id for e in ret[-1].value.elts if isinstance(e, ast.Name)]
    facts = {'order': names, 'int': None, 'str': None, 'str_lower': None, 'line': fn.lineno, 'other_raises': False}
    for n in ast.walk(fn):
        if isinstance(n, ast.If) and isinstance(n.test, ast.Call) and isinstance(n.test.func, ast.Name) and n.test.func.id == 'isinstance' and len(n.test.args) == 2:
            ty = ast.unparse(n.test.args[1])
            var = ast.unparse(n.test.args[0])
            for s in n.body:
                if isinstance(s, ast.Expr) and isinstance(s.value, ast.Call) and isinstance(s.value.func, ast.Attribute) and s.value.func.attr == 'append' and isinstance(s.value.func.value, ast.Name):
                    lst = s.value.func.value.id
                    arg = s.value.args[0]
                    if ty == 'int':
                        facts['int'] = lst
                        facts['int_plain'] = ast.unparse(arg) == var
                    elif ty == 'str':
                        facts['str'] = lst
                        facts['str_lower'] = isinstance(arg, ast.Call) and isinstance(arg.func, ast.Attribute) and arg.func.attr == 'lower' and ast.unparse(arg.func.value) == var
                        facts['str_plain'] = ast.unparse(arg) == var
    facts['other_raises'] = any(isinstance(n, ast.Raise) for n in ast.walk(fn))
    if facts['int'] is None or facts['str'] is None or facts['int'] not in names or facts['str'] not in names:
        raise AnalysisError('split_pgn_list: isinstance-guarded appends not recognised')
    return facts

def split(facts, lst):
    ints, strs = [], []
    for x in lst:
        if isinstance(x, int):
            ints.append(x)
        elif isinstance(x, str):
            strs.append(x.lower() if facts['str_lower'] else x)
    out = {facts['int']: ints, facts['str']: strs}
    return [out[n] for n in facts['order']]

def ctor_facts(program):
    """__init__: which attributes receive which split; the claim flag expression; the removal loops"""
    fn = program.fn('decoder', f"{CLS}.__init__")
    ex = sym.SymExec(fn)
    # locals of the constructor: the body up to (excluding) the first statement that contains a loop is walked by sym.py, so named
    # intermediate values (a lower-cased copy of the claim id, parts of the flag formula) are substituted into the flag expression
    prefix = []
    for st in fn.body:
        if any(isinstance(n, (ast.While, ast.For, ast.Try, ast.With)) for n in ast.walk(st)):
            break
        prefix.append(st)
    fake = ast.FunctionDef(name='__init__$prefix', args=fn.args, body=prefix or [ast.Pass()], decorator_list=[], lineno=fn.lineno, col_offset=0)
    pre = sym.SymExec(fake, consts=program.module_consts('decoder'))
    try:
        pre.run()
    except sym.Unsupported:
        pass
    ex.state.env.update({k: v for k, v in pre.state.env.items() if k not in ex.params})
    flag_from_prefix = {e[2][2]: e[3] for e in pre.events if e[0] == 'store' and e[2][0] == 'attr' and e[2][1] == ('param', 'self')}
    assigns = {}      # (attrA, attrB) <- param
    flag_expr = None
    flag_attr = None
    loops = []
    lowered_sets = {}
    for n in ast.walk(fn):
        if isinstance(n, ast.Assign) and len(n.targets) == 1:
            t, v = n.targets[0], n.value
            if isinstance(t, ast.Tuple) and isinstance(v, ast.Call) and isinstance(v.func, ast.Attribute) and v.func.attr == 'split_pgn_list' and len(v.args) == 1 and isinstance(v.args[0], ast.Name):
                attrs = tuple(e.attr for e in t.elts if isinstance(e, ast.Attribute))
                assigns[v.args[0].id] = attrs
            if isinstance(t, ast.Attribute) and isinstance(t.value, ast.Name) and t.value.id == 'self' and isinstance(v, (ast.SetComp, ast.ListComp, ast.DictComp)):
                lowered_sets[t.attr] = ast.unparse(v)
    # the flag: an attribute assigned a boolean expression over the lists and tested by an `if` that contains the removal loops
    for n in ast.walk(fn):
        if isinstance(n, ast.If) and isinstance(n.test, ast.Attribute) and isinstance(n.test.value, ast.Name) and n.test.value.id == 'self':
            whiles = [w for w in n.body if isinstance(w, ast.While)]
            if whiles:
                flag_attr = n.test.attr
                for w in whiles:
                    ok = (isinstance(w.test, ast.Compare) and len(w.test.ops) == 1 and isinstance(w.test.ops[0], ast.In) and len(w.body) == 1 and isinstance(w.body[0], ast.Expr)
                          and isinstance(w.body[0].value, ast.Call) and isinstance(w.body[0].value.func, ast.Attribute) and w.body[0].value.func.attr == 'remove'
                          and ast.unparse(w.body[0].value.func.value) == ast.unparse(w.test.comparators[0]) and ast.unparse(w.body[0].value.args[0]) == ast.unparse(w.test.left))
                    if not ok:
                        raise AnalysisError(f"__init__: removal loop at line {w.lineno} not of the form `while X in L: L.remove(X)`")
                    lst = w.test.comparators[0]
                    loops.append((ex.expr(w.test.left), lst.attr if isinstance(lst, ast.Attribute) else None, w.lineno, w.test.left))
    if flag_attr is None:
        raise AnalysisError('__init__: claim-suppression flag and its removal loops not found')
    for n in ast.walk(fn):
        if isinstance(n, ast.Assign) and len(n.targets) == 1 and isinstance(n.targets[0], ast.Attribute) and n.targets[0].attr == flag_attr:
            flag_expr = (flag_from_prefix.get(flag_attr, ex.expr(n.value)), n.lineno, n.value)
    if flag_expr is None:
        raise AnalysisError(f"__init__: assignment of self.{flag_attr} not found")
    # exclusivity check of the constructor
    return {'assigns': assigns, 'flag_attr': flag_attr, 'flag': flag_expr, 'loops': loops, 'line': fn.lineno, 'fn': fn}

def _to_py(v):
    from . import absint as A
    if isinstance(v, A.AList):
        return [_to_py(x) for x in v.items]
    if isinstance(v, A.ADict):
        return {k: _to_py(x) for k, x in v.items.items()}
    if isinstance(v, A.AInt) and v.v is not None:
        return v.v
    if isinstance(v, A.AStr) and v.literal() is not None:
        return v.literal()
    if isinstance(v, bool) or v is None:
        return v
    if isinstance(v, tuple):
        return tuple(_to_py(x) for x in v)
    raise KeyError('not a shape value')

def _from_py(v):
    from . import absint as A
    if isinstance(v, bool) or v is None:
        return v
    if isinstance(v, int):
        return A.AInt(v)
    if isinstance(v, str):
        return A.AStr([('lit', v)])
    if isinstance(v, (list, tuple, set)):
        return A.AList([_from_py(x) for x in v])
    if isinstance(v, dict):
        return A.ADict({k: _from_py(x) for k, x in v.items()})
    raise KeyError('value')

_ctor_cache = {}

def interp_ctor(program, exclude=(), include=(), dump=(), mfr_excl=(), mfr_incl=(), preferred=None, netmap=False):
    """NMEA2000Decoder.__init__ interpreted (absint) on a concrete configuration -> {attribute: Python value} for every attribute that is a
    shape value (lists of ints / strings, flags, sets as lists); raises absint.Unknown when the constructor is not interpretable"""
    from . import absint as A
    from .wire import is_logger
    key = (id(program), tuple(exclude), tuple(include), tuple(dump), tuple(mfr_excl), tuple(mfr_incl), tuple(sorted((preferred or {}).items())), netmap)
    if key in _ctor_cache:
        return dict(_ctor_cache[key])
    mod = program.mod('decoder')
    fn = program.fn('decoder', f"{CLS}.__init__")
    cls = program.cls('decoder', CLS)
    methods = {n.name: n for n in cls.body if isinstance(n, (ast.FunctionDef, ast.AsyncFunctionDef))}
    menv = A.ModuleEnv(mod.tree)
    def hook(it, call, env):
        name = ast.unparse(call.func)
        if name in ('datetime.now', 'datetime.utcnow', 'time.time', 'time.monotonic'):
            return A.AInt(5)
        if name == 'open':
            return A.AObj(dump_file=True)
        if name.startswith('os.'):
            return A.AOpaque(name)
        return NotImplemented
    dec = A.AObj()
    dec.attrs.update(A.class_constants(None, cls))
    given = {'exclude_pgns': list(exclude), 'include_pgns': list(include), 'dump_pgns': list(dump), 'exclude_manufacturer_code': list(mfr_excl),
             'include_manufacturer_code': list(mfr_incl), 'preferred_units': dict(preferred or {}), 'build_network_map': netmap, 'dump_to_file': None}
    params = [a.arg for a in fn.args.args][1:]
    kw = {}
    for p_ in params:
        if p_ in given:
            kw[p_] = _from_py(given[p_])
    it = A.Interp(hook=hook, skip=is_logger, methods=methods, module=menv, classes={c: mod.classes[c] for c in mod.classes if c != CLS})
    it.call_function(fn, [dec], kw)
    out = {}
    for k, v in dec.attrs.items():
        try:
            out[k] = _to_py(v)
        except KeyError:
            continue
    _ctor_cache[key] = dict(out)
    return out

def attr_names(program, cf):
    """{'exclude_pgns': (numbers attr, ids attr), 'include_pgns': .., 'dump_pgns': .., 'flag': attr}: from the structural reading when there is one,
    else by probing the interpreted constructor with marked lists"""
    from . import absint as A
    try:
        return _attr_names_probe(program)
    except (A.Unknown, A.RaiseSignal, AnalysisError):
        if cf is None or any(len(v) != 2 for v in cf['assigns'].values()):
            raise AnalysisError('attributes holding the filter lists not identified')
        out = dict(cf['assigns'])
        out['flag'] = cf['flag_attr']
        return out

def _attr_names_probe(program):
    out = {}
    for param, kw in (('exclude_pgns', 'exclude'), ('include_pgns', 'include'), ('dump_pgns', 'dump')):
        probe = interp_ctor(program, **{kw: [424242, 'ZzProbe']})
        nums = [k for k, v in probe.items() if v == [424242]]
        ids_ = [k for k, v in probe.items() if v == ['zzprobe']]
        if len(nums) != 1 or len(ids_) != 1:
            raise AnalysisError(f"attributes holding {param} not identified")
        out[param] = (nums[0], ids_[0])
    on = interp_ctor(program, exclude=[60928]); off = interp_ctor(program)
    flags = [k for k in on if on.get(k) is True and off.get(k) is False]
    if len(flags) != 1:
        raise AnalysisError('claim-suppression flag not identified')
    out['flag'] = flags[0]
    return out

def facts_or_none(program):
    """the structural reading of split_pgn_list / __init__, or (None, None) when they are spelled another way (the interpreted constructor is used then)"""
    try:
        return split_facts(program), ctor_facts(program)
    except AnalysisError:
        return None, None

def runtime_attrs(program, sf, cf, consts, exclude, include, dump=()):
    from . import absint as A
    try:
        attrs = interp_ctor(program, exclude, include, dump)
        full_ = dict(attrs)
        # only what the configuration determines: run-time state the constructor merely initialises (source map, reassembly buffers, start time,
        # dump file) is supplied by the model of each case
        attrs = {k: v for k, v in attrs.items() if not (isinstance(v, dict) or k in ('started_at', 'dump_TextIOWrapper', 'logged_unsupported_pgns', 'build_network_map',
                                                                                       'exclude_manufacturer_code', 'include_manufacturer_code'))}
        if 'iso_claim_filter' in attrs or cf is None:
            attrs['__ctor__'] = full_          # everything the constructor left on the object for this configuration (DecodePath starts from it)
            return attrs
    except (A.Unknown, A.RaiseSignal):
        if cf is None or sf is None:
            raise teval.EvalUnknown('constructor neither interpretable nor of the recognised shape')
    a = cf['assigns']
    attrs = {}
    for param, lst in (('exclude_pgns', exclude), ('include_pgns', include), ('dump_pgns', dump)):
        if param not in a:
            raise AnalysisError(f"__init__: split of {param} not found")
        x, y = split(sf, list(lst))
        attrs[a[param][0]] = x
        attrs[a[param][1]] = y
    m = teval.Model(names=dict(consts), self_attrs=attrs)
    flag = bool(teval.ev(cf['flag'][0], m))
    attrs[cf['flag_attr']] = flag
    if flag:
        for xterm, lst, ln, _ in cf['loops']:
            xv = teval.ev(xterm, m)
            attrs[lst] = [e for e in attrs[lst] if e != xv]
    return attrs

# ---------------------------------------------------------------------------
MAIN_STAGES = {'_decode', '_decode_fast_message', '_call_decode_function', '__init__', '_isFastPGN', '_log_unsupported_pgn_once', 'split_pgn_list', 'close', '__enter__', '__exit__',
               '_extract_header', 'decode_actisense_string', 'decode_yacht_devices_string', 'decode_basic_string', 'decode_tcp', 'decode_usb'}

def helper_methods(program):
    """small loop-free methods of the decoder other than the known stages: walked in place where they are called (predicates a refactoring extracted)"""
    m = program.mod('decoder')
    out = {}
    for q, f in m.defs.items():
        if q.startswith(CLS + '.') and q.split('.', 1)[1] not in MAIN_STAGES:
            if not any(isinstance(n, (ast.For, ast.While, ast.Try, ast.With)) for n in ast.walk(f)):
                out[q.split('.', 1)[1]] = f
    return out

def stage_events(program, qual):
    fn = program.fn('decoder', f"{CLS}.{qual}")
    ex = sym.SymExec(fn, inline_methods=helper_methods(program), consts=None)
    ex.drop_asserted = True
    try:
        ex.run()
    except sym.Unsupported as u:
        raise AnalysisError(f"{qual}: {u}")
    # (assert conditions are not part of the guards: SymExec.drop_asserted)
    return fn, ex

class Decoded:
    """what the dynamic decode function returns: callable stand-in"""
    def __init__(self, msg):
        self.msg = msg

def make_model(attrs, consts, pgn, mid, extra_self=None, iso=None, now_after_window=False):
    msg = Stub(PGN=pgn, id=mid)
    self_attrs = dict(attrs)
    self_attrs.setdefault('build_network_map', False)
    self_attrs.setdefault('exclude_manufacturer_code', set())
    self_attrs.setdefault('include_manufacturer_code', set())
    self_attrs.setdefault('dump_TextIOWrapper', None)
    self_attrs.setdefault('preferred_units', {})
    self_attrs.setdefault('source_to_iso_name', {7: iso} if iso is not None else {})
    if extra_self:
        self_attrs.update(extra_self)
    def calls(ev, t):
        f = t[1]
        s = show(f)
        if s == 'globals().get':
            return Decoded(msg)
        if f[0] == 'call' and show(f[1]) == 'globals().get':
            return msg                       # decode_func(data_int)
        if s == 'self.source_to_iso_name.get':
            return iso
        if s.endswith('._isFastPGN'):
            return False
        if s == 'int.from_bytes':
            return 12345
        if s in ('datetime.now',):
            return 10 ** 9 if now_after_window else 0
        if s == 'timedelta':
            return 600
        if s == 'IsoName':
            return Stub(new=True, name=12345, manufacturer_code=None)
        raise teval.EvalUnknown(show(t)[:80])
    params = {'pgn': pgn, 'already_combined': False, 'src': 7, 'source_id': 7, 'source_iso_name': iso, 'data': b'', 'dest': 255, 'priority': 3}
    self_attrs.setdefault('started_at', 5)
    return teval.Model(params=params, names=dict(consts), self_attrs=self_attrs, calls=calls), msg

def outcome(program, stages, model):
    """-> ('filtered', stage, line) | ('returned', None, None) ; plus whether the source-map store happened before"""
    stored = False
    for qual, (fn, ex) in stages.items():
        for e in ex.events:
            if e[0] == 'store' and e[2][0] == 'sub' and e[2][1] == ('attr', ('param', 'self'), 'source_to_iso_name'):
                if teval.guard_true(e, model):
                    stored = True
            if e[0] == 'expr' and e[2][0] == 'call' and e[2][1][0] == 'attr' and e[2][1][1] == ('attr', ('param', 'self'), 'source_to_iso_name') \
                    and e[2][1][2] in ('update', '__setitem__', 'setdefault'):
                if teval.guard_true(e, model):
                    stored = True
            if e[0] == 'return' and teval.guard_true(e, model):
                if e[2] == NONE:
                    return ('filtered', qual, e[-1], stored)
                if qual == '_decode':
                    break           # handed on to the next stage
                return ('returned', qual, e[-1], stored)
    return ('returned', None, 0, stored)

def decode_reach(chk, program, rule='DEC-REACH'):
    """every well-formed frame reaches its generated decoder, addressed as it arrived: on the interpreted decode path (DecodePath)
      * a single-frame message whose eight data bytes are all zero is decoded and returned (a payload of 0 is a payload: switches off, rudder amidships);
      * for addressed PGNs -- 59904 (PDU1), 126208 (PDU1, data page 1) -- and a broadcast one, sent from 7 to 5 with priority 3, the inner stage
        (_call_decode_function / _decode_fast_message) receives that PGN, priority, source and destination unchanged.
    Not interpretable -> no verdict."""
    from . import absint as A
    consts = module_consts(program)
    sf, cf = facts_or_none(program)
    db = program.db
    d0 = next(d for d in db.defs if not d.group.complex and d.pgn != consts['ISO_CLAIM_PGN'] and len(d.group.defs) == 1)
    fn = program.fn('decoder', f"{CLS}._decode")
    try:
        dp = DecodePath(program, runtime_attrs(program, sf, cf, consts, [], []), consts)
        r = dp.feed(d0.pgn, d0.id, src=7, data_items=[('c', 0)] * 8)
        da = r.get('decode_args')
        okz = r['status'] == 'returned' and da and len(da) == 1 and isinstance(da[0], A.AInt) and da[0].v == 0
        chk.check(bool(okz), rule, 'all-zero-payload-is-decoded', file=DEC, line=fn.lineno, func='_decode', expected='returned; the generated decoder receives the integer 0',
                  found='ok' if okz else {'status': r['status'], 'decoder argument': repr(da)[:60]}, detail='' if okz else 'a frame whose data bytes are all zero is dropped')
        for pgn in (59904, 126208, 130306):
            dp = DecodePath(program, runtime_attrs(program, sf, cf, consts, [], []), consts)
            # (the addressing stand-ins of feed(): source as given, destination 255, priority 3 -- destination overridden below)
            r = dp.feed(pgn, f"pgn{pgn}", src=7, dest=5)
            calls = r.get('stage_calls') or []
            if not calls:
                raise A.Unknown('no inner stage was called')
            nm, args = calls[0]
            got = [a.v if isinstance(a, A.AInt) else repr(a) for a in args]
            roles = {'_call_decode_function': ('pgn', 'priority', 'source', 'destination'), '_decode_fast_message': ('pgn', 'priority', 'source', 'destination')}[nm]
            want = [pgn, 3, 7, 5]
            if pgn == 130306:
                want[3] = got[3] if got[3] in (5, 255) else 5          # a broadcast PGN: either the address as given or 255 is in keeping with the property
            okp = got == want
            chk.check(okp, rule, f"addressing-handed-on::pgn={pgn}", file=DEC, line=fn.lineno, func='_decode', expected=dict(zip(roles, want)), found=dict(zip(roles, got)),
                      detail='' if okp else 'the inner stage (and with it the reassembly key and add_data) sees another PGN / source / destination / priority than the frame carried')
    except (A.Unknown, A.RaiseSignal, teval.EvalUnknown, KeyError, AttributeError, TypeError, AnalysisError, StopIteration) as u:
        chk.unit('decode_reach_not_interpretable', f"{type(u).__name__}: {u}"[:160])

def option_worlds(program):
    """settings of the decoder's on/off options the rules do not know by name: [{}] plus one world per constructor parameter whose default is False
    and that the constructor keeps under its own name -- a feature added later must leave the property alone when it is switched on as well"""
    KNOWN = {'build_network_map'}
    init = program.fn('decoder', f"{CLS}.__init__")
    a = init.args
    pos = a.args[len(a.args) - len(a.defaults):] if a.defaults else []
    pairs = list(zip(pos, a.defaults)) + [(p_, d_) for p_, d_ in zip(a.kwonlyargs, a.kw_defaults) if d_ is not None]
    kept = {n.attr for n in ast.walk(init) if isinstance(n, ast.Attribute) and isinstance(n.ctx, ast.Store) and isinstance(n.value, ast.Name) and n.value.id == 'self'}
    out = [{}]
    for p_, d_ in pairs:
        if isinstance(d_, ast.Constant) and d_.value is False and p_.arg not in KNOWN and p_.arg in kept:
            out.append({p_.arg: True})
    return out

def no_match_not_decoded(chk, program, rule='DISP'):
    """a payload for which the PGN's dispatcher selects no definition (it returns None) is not decoded: on the interpreted decode path the message is
    withheld, under every setting of the decoder's on/off options.  Not interpretable -> no verdict."""
    from . import absint as A
    consts = module_consts(program)
    sf, cf = facts_or_none(program)
    fn = program.fn('decoder', f"{CLS}._call_decode_function")
    multi = next((d for d in program.db.defs if len(d.group.defs) > 1 and d.pgn >= 0xFF00), None)
    pgn = multi.pgn if multi is not None else 65285
    bad = []
    try:
        for world in option_worlds(program):
            dp = DecodePath(program, runtime_attrs(program, sf, cf, consts, [], []), consts, extra_self=dict(world))
            r = dp.feed(pgn, f"pgn{pgn}", src=7, no_match=True)
            if not r.get('decode_args'):
                raise A.Unknown('the generated decoder was not reached')
            if r['status'] == 'returned':
                bad.append(f"options {world or 'default'}: a message is returned for PGN {pgn} although its dispatcher selected no definition")
    except (A.Unknown, A.RaiseSignal, teval.EvalUnknown, KeyError, AttributeError, TypeError, AnalysisError, StopIteration) as u:
        chk.unit('no_match_not_interpretable', f"{type(u).__name__}: {u}"[:160])
        return
    chk.check(not bad, rule, '_call_decode_function::no-definition-selected-is-not-decoded', file=DEC, line=fn.lineno, func='_call_decode_function',
              expected='None from the dispatcher -> nothing returned (the payload carries the match values of no definition and the PGN has no fallback)', found='ok' if not bad else bad[:3],
              detail='' if not bad else 'the payload appears under a definition whose match values it does not carry')

def hash_sees_every_field(chk, program, rule='HASH-DEPS'):
    """the identity hash is computed from the fields the generated decoder returned -- all of them, absent ones included (a key field whose value is
    "not available" still has its raw value): on the interpreted decode path, under every setting of the decoder's on/off options, add_data is
    called while the message still holds exactly those fields, in order.  Not interpretable -> no verdict."""
    from . import absint as A
    consts = module_consts(program)
    sf, cf = facts_or_none(program)
    fn = program.fn('decoder', f"{CLS}._call_decode_function")
    d0 = next(d for d in program.db.defs if not d.group.complex and d.pgn != consts['ISO_CLAIM_PGN'] and len(d.group.defs) == 1)
    def fld(i, pk, raw, val):
        return A.AObj(id=A.AStr([('lit', f"f{i}")]), raw_value=A.AInt(raw), value=val, part_of_primary_key=pk, name=A.AStr([('lit', f"F{i}")]), unit_of_measurement=None,
                      physical_quantities=None, type=A.AOpaque('FieldTypes.NUMBER'), description=None)
    bad = []
    try:
        for world in option_worlds(program):
            fs = [fld(1, True, 255, None), fld(2, False, 3, A.AInt(3)), fld(3, True, 7, A.AInt(7)), fld(4, False, 65535, None)]
            dp = DecodePath(program, runtime_attrs(program, sf, cf, consts, [], []), consts, extra_self=dict(world, build_network_map=True),
                            iso=Stub(name=12345, manufacturer_code='Garmin'))
            r = dp.feed(d0.pgn, d0.id, src=7, fields=fs)
            if r['status'] != 'returned' or r.get('fields_at_add_data') is None:
                raise A.Unknown('the message was not returned through add_data')
            got = r['fields_at_add_data']
            if not (isinstance(got, list) and len(got) == len(fs) and all(a is b for a, b in zip(got, fs))):
                ids = [x.attrs['id'].literal() if isinstance(x, A.AObj) and isinstance(x.attrs.get('id'), A.AStr) else '?' for x in (got if isinstance(got, list) else [])]
                bad.append(f"options {world or 'default'}: add_data sees the fields {ids} of [f1 (key, not available), f2, f3 (key), f4 (not available)]")
    except (A.Unknown, A.RaiseSignal, teval.EvalUnknown, KeyError, AttributeError, TypeError, AnalysisError, StopIteration) as u:
        chk.unit('hash_fields_not_interpretable', f"{type(u).__name__}: {u}"[:160])
        return
    chk.check(not bad, rule, '_call_decode_function::hash-computed-over-all-decoded-fields', file=DEC, line=fn.lineno, func='_call_decode_function',
              expected='add_data is called while the message holds every field the generated decoder returned, in order', found='ok' if not bad else bad[:3],
              detail='' if not bad else 'a key field that is dropped or moved before the hash is computed changes the identity: the same device gets another hash, different devices the same')

def hash_through_decoder(chk, program, rule='HASH-DEPS'):
    """the hash a message gets is a function of the message alone -- its definition id and the raw values of its key fields -- not of what the
    decoder saw before.  Decided on the interpreted decode path with network mapping on (under every option world): two definitions X and Y of one
    PGN number with the key flags on different positions (X: key, non-key, key;  Y: non-key, key, non-key) are fed to one decoder in the orders
    X,Y,X and Y,X,Y; whatever the call site binds to add_data's parameters is then handed to the interpreted add_data (hashlib modelled), and every
    hash must equal the one the same message gets from a decoder that saw nothing else, which in turn must be the digest add_data alone computes
    for it.  Not interpretable: no verdict, except when the call site binds an optional parameter of add_data that the stand-alone reading
    (HASH-DEPS history) had to leave at its default -- then nothing has decided what that argument does to the hash, and the rule refuses."""
    from . import absint as A
    from . import rules_msg as RM
    consts = module_consts(program)
    sf, cf = facts_or_none(program)
    fn = program.fn('decoder', f"{CLS}._call_decode_function")
    ad = program.fn('message', 'NMEA2000Message.add_data')
    extras = RM._defaulted(ad)
    site_binds = []
    for n in ast.walk(fn):
        if isinstance(n, ast.Call) and isinstance(n.func, ast.Attribute) and n.func.attr == 'add_data':
            names = [a.arg for a in ad.args.args][1:]
            site_binds += [p_ for p_ in names[:len(n.args)] if p_ in extras] + [k.arg for k in n.keywords if k.arg in extras] + (['**'] if any(k.arg is None for k in n.keywords) else [])
    d0 = next(d for d in program.db.defs if not d.group.complex and d.pgn != consts['ISO_CLAIM_PGN'] and len(d.group.defs) == 1)
    X, Y = d0.id, d0.id + 'Other'
    def fields(kind):
        pk = (True, False, True) if kind == X else (False, True, False)
        return [RM._hfld(A, i + 1, pk[i], (5, 6, 7)[i]) for i in range(3)]
    bad = []
    runs = 0
    try:
        for world in option_worlds(program):
            def decoder():
                return DecodePath(program, runtime_attrs(program, sf, cf, consts, [], []), consts, extra_self=dict(world, build_network_map=True),
                                  iso=Stub(name=12345, manufacturer_code='Garmin'))
            hi = RM._HashInterp(program)
            def one(dp, kind):
                r = dp.feed(d0.pgn, kind, src=7, fields=fields(kind))
                if r['status'] != 'returned' or r.get('add_data') is None:
                    raise A.Unknown('the message was not returned through add_data')
                b = dict(r['add_data'])
                b.pop('timestamp', None); b.pop('raw_can_data', None)
                m = r['msg']
                m.attrs.setdefault('description', A.AStr([('lit', 'descr')])); m.attrs.setdefault('ttl', None)
                return hi.hash_of(m, b, tag=kind)
            alone = {k: one(decoder(), k) for k in (X, Y)}
            ref = {}
            for k in (X, Y):
                m = A.AObj(id=A.AStr([('lit', k)]), PGN=A.AInt(d0.pgn), fields=A.AList(fields(k)), hash=None, description=A.AStr([('lit', 'descr')]), ttl=None)
                ref[k] = RM._HashInterp(program).hash_of(m, tag=k)
            for k in (X, Y):
                runs += 1
                if alone[k] != ref[k]:
                    bad.append(f"options {world or 'default'}: a message of {k} alone gets {alone[k][:70]}, add_data by itself computes {ref[k][:70]}")
            for order in ((X, Y, X), (Y, X, Y)):
                dp = decoder()
                for i, k in enumerate(order):
                    runs += 1
                    h = one(dp, k)
                    if h != alone[k]:
                        bad.append(f"options {world or 'default'}: history {' '.join('X' if q == X else 'Y' for q in order[:i + 1])} (X keys at 1,3; Y key at 2; one PGN number): "
                                   f"the last message gets {h[:70]}, a decoder that saw only it gives {alone[k][:70]}")
    except (A.Unknown, A.RaiseSignal, teval.EvalUnknown, KeyError, AttributeError, TypeError, AnalysisError, StopIteration, IndexError) as u:
        if site_binds:
            chk.unknown(rule, '_call_decode_function::hash-inputs-bound-at-the-call-site', f"the call site binds add_data's optional {sorted(set(site_binds))} and the decode path is not interpretable: "
                        f"{type(u).__name__}: {u}"[:200], DEC, fn.lineno)
        else:
            chk.unit('hash_through_decoder_not_interpretable', f"{type(u).__name__}: {u}"[:160])
        return
    chk.unit('hash_decoder_histories', runs)
    chk.check(not bad, rule, '_call_decode_function::hash-is-a-function-of-the-message-alone', file=DEC, line=fn.lineno, func='_call_decode_function',
              expected='every message gets the hash add_data computes from its own id and key fields, whatever the decoder decoded before', found='ok' if not bad else bad[:3],
              detail='' if not bad else 'something the decoder remembers (key positions, a digest, a prefix) is keyed more coarsely than the definition: two devices share a hash or one device gets two')

class DecodePath:
    """`_decode` and what it calls, run by the abstract interpreter on one decoder object: the configuration is given as attribute values
    (as make_model takes them), messages are fed one after the other with stand-in generated decoders, and after each the observable effects are
    reported: returned or withheld (and by which stage), the source map, the identity attached through add_data, dump lines written."""
    def __init__(self, program, attrs, consts, iso=None, now_after_window=False, extra_self=None):
        from . import absint as A
        from .wire import is_logger
        self.A = A
        self.program = program
        mod = program.mod('decoder')
        cls = program.cls('decoder', CLS)
        self.methods = {n.name: n for n in cls.body if isinstance(n, (ast.FunctionDef, ast.AsyncFunctionDef))}
        self.fn = self.methods.get('_decode')
        if self.fn is None:
            raise A.Unknown('_decode not found')
        self.menv = A.ModuleEnv(mod.tree)
        self.classes = {c: mod.classes[c] for c in mod.classes if c != CLS}
        self.is_logger = is_logger
        self.now_after_window = now_after_window
        dec = A.AObj()
        dec.attrs.update(A.class_constants(None, cls))
        self_attrs = dict(attrs)
        self_attrs.setdefault('build_network_map', False)
        self_attrs.setdefault('exclude_manufacturer_code', set())
        self_attrs.setdefault('include_manufacturer_code', set())
        self_attrs.setdefault('dump_TextIOWrapper', None)
        self_attrs.setdefault('preferred_units', {})
        self.iso_o = self.conv(iso) if iso is not None else None
        if extra_self:
            self_attrs.update(extra_self)
        ctor_full = self_attrs.pop('__ctor__', None) or {}
        for k, v in self_attrs.items():
            if k == 'source_to_iso_name':
                continue
            dec.attrs[k] = self.conv(v)
        # attributes the constructor creates besides the ones the rules know (further bookkeeping of a changed decoder): as the constructor left them
        for k, v in ctor_full.items():
            if k not in dec.attrs and k not in ('source_to_iso_name', 'started_at', 'data', 'logged_unsupported_pgns', 'dump_TextIOWrapper'):
                try:
                    dec.attrs[k] = self.conv(v)
                except A.Unknown:
                    pass
        dec.attrs['source_to_iso_name'] = A.ADict({7: self.iso_o} if self.iso_o is not None else {})
        dec.attrs['started_at'] = A.AInt(5)
        dec.attrs.setdefault('data', A.ADict())
        dec.attrs.setdefault('logged_unsupported_pgns', A.AList([]))
        self.dec = dec

    def conv(self, v):
        A = self.A
        if isinstance(v, Stub):
            o = A.AObj(**{k: self.conv(x) for k, x in v.attrs.items()})
            o.attrs['__stub__'] = v
            return o
        if isinstance(v, (set, frozenset)):
            return A.AList([self.conv(x) for x in sorted(v, key=repr)])
        if isinstance(v, (list, tuple)):
            return A.AList([self.conv(x) for x in v])
        if isinstance(v, dict):
            return A.ADict({k: self.conv(x) for k, x in v.items()})
        try:
            return _from_py(v)
        except KeyError:
            if hasattr(v, '__class__') and v.__class__.__name__ == '_F':
                return A.AObj(dump_file=True)
            raise A.Unknown(f"configuration value {v!r}")

    def back(self, o):
        A = self.A
        if o == '<none>' or o is None:
            return None
        if isinstance(o, A.AObj) and '__stub__' in o.attrs:
            return o.attrs['__stub__']
        if isinstance(o, A.AObj) and o.attrs.get('new'):
            return Stub(new=True, name=_to_py(o.attrs.get('name')) if isinstance(o.attrs.get('name'), A.AInt) else None, manufacturer_code=None)
        return o

    def _frames_reversed(self):
        """_decode receives the frame bytes last wire byte first (every reader reverses them): decided by the reassembly rules' own probe"""
        from . import rules_reasm as RR
        return getattr(RR, 'FRAMES_REVERSED', True)

    def feed(self, pgn, mid, src=7, name_int=12345, fast=False, mfr=None, data_items=None, dest=255, no_match=False, fields=None):
        A = self.A
        program = self.program
        dec = self.dec
        before = dec.attrs['source_to_iso_name'].items.get(src) if isinstance(dec.attrs.get('source_to_iso_name'), A.ADict) else None
        msg = A.AObj(PGN=A.AInt(pgn), id=A.AStr([('lit', mid)]), fields=A.AList([]), source_iso_name=None, hash=None)
        claim_def = next((d for d in program.db.defs if d.pgn == pgn and d.id == mid and any(f.dbid == 'uniqueNumber' for f in d.fields)), None)
        if claim_def is not None:
            # the stand-in claim carries the fields the database lays out in the 64-bit NAME: numbers as integers, look-ups as a name derived from the raw value
            fl = []
            for f_ in claim_def.fields:
                if f_.bit_length is None or f_.bit_offset is None:
                    continue
                raw_ = (int(name_int) >> f_.bit_offset) & ((1 << f_.bit_length) - 1)
                if f_.type == 'NUMBER' or f_.type == 'MMSI':
                    val_ = A.AInt(raw_)
                elif f_.dbid == 'manufacturerCode':
                    val_ = A.AStr([('lit', mfr if mfr is not None else f"Manufacturer#{raw_}")])
                elif f_.type in ('LOOKUP', 'INDIRECT_LOOKUP', 'BITLOOKUP'):
                    val_ = A.AStr([('lit', f"{f_.dbid}#{raw_}")])
                else:
                    val_ = A.AInt(raw_)
                fl.append(A.AObj(id=A.AStr([('lit', f_.dbid)]), value=val_, raw_value=A.AInt(raw_), part_of_primary_key=False))
            msg.attrs['fields'] = A.AList(fl)
        if fields is not None:
            msg.attrs['fields'] = A.AList(list(fields))
        FUNC = A.AObj(decode_function=True)
        st = {'entered': False, 'attached': '<none>', 'writes': 0}
        now_after_window = self.now_after_window
        def hook(it, call, env):
            f = call.func
            name = ast.unparse(f)
            if name == 'globals().get' or (isinstance(f, ast.Attribute) and f.attr == 'get' and isinstance(f.value, ast.Call) and ast.unparse(f.value.func) in ('globals', 'vars')):
                st['entered'] = True
                return FUNC
            if isinstance(f, ast.Subscript) and isinstance(f.value, ast.Call) and ast.unparse(f.value.func) == 'globals':
                st['entered'] = True
                return msg
            if isinstance(f, ast.Name) and isinstance(env.get(f.id), A.AObj) and env[f.id].attrs.get('decode_function'):      # (also one remembered from an earlier message)
                st['decode_args'] = [it.expr(a, env) for a in call.args]
                st['decode_calls'] = st.get('decode_calls', 0) + 1
                if no_match and st['decode_calls'] == 1:
                    return None          # the dispatcher of this PGN selects no definition for the payload
                return msg
            if isinstance(f, ast.Attribute) and f.attr == '_isFastPGN':
                return bool(fast)
            if isinstance(f, ast.Attribute) and f.attr in ('_decode_fast_message', '_call_decode_function') and isinstance(f.value, ast.Name) and f.value.id == 'self' \
                    and not st.get('in_stage_probe'):
                st['in_stage_probe'] = True
                try:
                    st.setdefault('stage_calls', []).append((f.attr, [it.expr(a, env) for a in call.args[:4]]))
                except A.Unknown:
                    pass
                finally:
                    st['in_stage_probe'] = False
                return NotImplemented
            if name in ('datetime.now', 'datetime.utcnow', 'time.time', 'time.monotonic'):
                return A.AInt(10 ** 9 if now_after_window else 0)
            if name == 'timedelta':
                return A.AInt(600)
            if name == 'IsoName':
                args = [it.expr(a, env) for a in call.args]
                o_ = A.AObj(new=True, name=args[1] if len(args) > 1 else A.AInt(name_int), manufacturer_code=(A.AStr([('lit', mfr)]) if mfr is not None else None),
                            made_from=args[0] if args else None)
                if args and args[0] is msg and claim_def is not None:
                    # the identity's other attributes as the real constructor derives them from the claim's fields (best effort: the ones above stand when it is not interpretable)
                    try:
                        init_ = program.fn('message', 'IsoName.__init__')
                        keep_ = dict(o_.attrs)
                        it.call_function(init_, [o_] + args, module=A.ModuleEnv(program.mod('message').tree))
                        o_.attrs.update({k_: keep_[k_] for k_ in ('new', 'made_from')})
                        if not isinstance(o_.attrs.get('name'), A.AInt):
                            o_.attrs['name'] = keep_['name']
                    except (A.Unknown, A.RaiseSignal, Exception):
                        o_.attrs.clear(); o_.attrs.update(keep_)
                return o_
            if isinstance(f, ast.Attribute) and f.attr in ('add_data', 'apply_preferred_units', 'to_json', 'write', 'flush'):
                try:
                    recv = it.expr(f.value, env)
                except A.Unknown:
                    recv = None
                if recv is msg and f.attr == 'add_data':
                    ad = program.fn('message', 'NMEA2000Message.add_data')
                    names = [a.arg for a in ad.args.args][1:]
                    vals = [it.expr(a, env) for a in call.args]
                    kw = {k.arg: it.expr(k.value, env) for k in call.keywords}
                    bound = dict(zip(names, vals)); bound.update(kw)
                    st['attached'] = bound.get('source_iso_name', '<none>')
                    st['add_data'] = bound
                    fl_ = msg.attrs.get('fields')
                    st['fields_at_add_data'] = list(fl_.items) if isinstance(fl_, A.AList) else fl_
                    msg.attrs['source_iso_name'] = st['attached'] if st['attached'] != '<none>' else None
                    return None
                if recv is msg and f.attr == 'apply_preferred_units':
                    return None
                if recv is msg and f.attr == 'to_json':
                    return A.AStr([('lit', '{}')])
                if isinstance(recv, A.AObj) and recv.attrs.get('dump_file') and f.attr == 'write':
                    st['writes'] += 1
                    return None
                if isinstance(recv, A.AObj) and recv.attrs.get('dump_file') and f.attr == 'flush':
                    return None
            if isinstance(f, ast.Attribute) and isinstance(f.value, ast.Name) and env.get(f.value.id) is msg and f.attr not in msg.attrs:
                # another method of the message: its body is followed (add_data inside it comes back through this hook); unknown ones stop the run
                try:
                    meth = program.fn('message', f"NMEA2000Message.{f.attr}")
                except Exception:
                    meth = None
                if meth is None:
                    raise A.Unknown(f"message method {f.attr} not found")
                vals = [it.expr(a, env) for a in call.args]
                kw = {k.arg: it.expr(k.value, env) for k in call.keywords}
                had = 'add_data' in st
                before_ = dict(msg.attrs)
                r_ = it.call_function(meth, [msg] + vals, kw, module=A.ModuleEnv(program.mod('message').tree))
                if not had and 'add_data' not in st and msg.attrs.get('source') is not before_.get('source') and 'source' in msg.attrs:
                    # the method filed the reception data itself: what it attached is what the message now carries
                    st['attached'] = msg.attrs.get('source_iso_name')
                    st['add_data'] = {k2: msg.attrs[k1] for k1, k2 in (('source', 'src'), ('destination', 'dest'), ('priority', 'priority'), ('source_iso_name', 'source_iso_name')) if k1 in msg.attrs}
                return r_
            return NotImplemented
        it = A.Interp(hook=hook, skip=self.is_logger, methods=self.methods, module=self.menv, classes=self.classes)
        args = []
        for a in self.fn.args.args:
            p_ = a.arg
            if p_ == 'self': args.append(dec)
            elif p_ == 'pgn': args.append(A.AInt(pgn))
            elif p_ in ('source_id', 'src'): args.append(A.AInt(src))
            elif p_ in ('destination_id', 'dest'): args.append(A.AInt(dest))
            elif p_ == 'priority': args.append(A.AInt(3))
            elif p_ == 'can_data' and data_items is not None:
                args.append(A.ABytes(list(data_items)))
            elif p_ == 'can_data' and fast:
                # a fast-packet message that is complete in its first frame: sequence 0 / frame 0, four payload bytes, padding
                wire_ = fast if isinstance(fast, tuple) else (0x00, 0x04, 1, 2, 3, 4, 0xff, 0xff)
                args.append(A.ABytes([('c', b) for b in wire_][::-1] if self._frames_reversed() else [('c', b) for b in wire_]))
            elif p_ == 'can_data': args.append(A.ABytes([('c', b) for b in int(name_int).to_bytes(8, 'big')]))
            elif p_ == 'already_combined': args.append(False)
            else: args.append(A.AOpaque(p_))
        r = it.call_function(self.fn, args)
        if r is not None and r is not msg:
            raise A.Unknown('the value returned is not the decoded message')
        now = dec.attrs['source_to_iso_name'].items.get(src) if isinstance(dec.attrs.get('source_to_iso_name'), A.ADict) else None
        return {'status': 'returned' if r is msg else 'filtered', 'stage': None if r is msg else ('_call_decode_function' if st['entered'] else '_decode'),
                'stored': now is not before, 'attached': self.back(st['attached']), 'attached_raw': st['attached'], 'decode_args': st.get('decode_args'), 'stage_calls': st.get('stage_calls', []), 'map_entry': now, 'writes': st['writes'], 'msg': msg,
                'add_data': st.get('add_data'), 'fields_at_add_data': st.get('fields_at_add_data')}

def outcome_interp(program, attrs, consts, pgn, mid, iso=None, now_after_window=False, extra_self=None):
    """the same question as outcome() -- is a message of (pgn, id) returned, by which stage is it withheld, is the source map written, which
    identity is attached, is a dump line written -- answered by the interpreted decode path (DecodePath).  Used when the tabulated guards are not
    evaluable (another spelling).  The stand-ins are those of make_model: source 7, NAME 12345 in the claim payload, a discovery window of 600
    against started_at 5 / now 0 or 10**9.  raises absint.Unknown when the decode path is not interpretable"""
    return DecodePath(program, attrs, consts, iso=iso, now_after_window=now_after_window, extra_self=extra_self).feed(pgn, mid)

def outcome_any(program, stages, model, spec):
    """outcome() on the tabulated guards; when they are not evaluable, the interpreted decode path (outcome_interp) answers.
    spec: dict(attrs, consts, pgn, mid, iso, now_after_window, extra_self) -> (result tuple as outcome(), details dict or None)"""
    from . import absint as A
    try:
        return outcome(program, stages, model), None
    except teval.EvalUnknown as u:
        try:
            d = outcome_interp(program, spec['attrs'], spec['consts'], spec['pgn'], spec['mid'], iso=spec.get('iso'), now_after_window=spec.get('now_after_window', False),
                               extra_self=spec.get('extra_self'))
        except (A.Unknown, A.RaiseSignal, KeyError, AttributeError, TypeError) as u2:
            raise teval.EvalUnknown(f"{u} / decode path not interpretable: {type(u2).__name__}: {u2}"[:300])
        return (d['status'], d['stage'], 0, d['stored']), d

def universe(consts, P, Q, ID, OTHER):
    nums = [P, Q, consts['ISO_CLAIM_PGN']]
    ids = []
    for base in (ID, OTHER, consts['ISO_CLAIM_PGN_ID']):
        ids += [base, base.lower(), base.upper()]
    return nums + ids

def spec_permitted(pgn, mid, exclude, include):
    ex_n = [x for x in exclude if isinstance(x, int)]; ex_i = [x.lower() for x in exclude if isinstance(x, str)]
    in_n = [x for x in include if isinstance(x, int)]; in_i = [x.lower() for x in include if isinstance(x, str)]
    excluded = pgn in ex_n or mid.lower() in ex_i
    included = (not include) or pgn in in_n or mid.lower() in in_i
    return (not excluded) and included

def filter_table(chk, program, max_entries=2):
    consts = module_consts(program)
    sf, cf = facts_or_none(program)
    # FILTER-TYPE: element types -- decided on the interpreted constructor: ints kept as given, strings lower-cased, anything else rejected
    from . import absint as A
    try:
        a1 = interp_ctor(program, exclude=[5, 'AbC', 5])
        try:
            interp_ctor(program, exclude=[('tuple',)])
            rejects = False
        except A.RaiseSignal as r:
            rejects = A.exc_kind(r) == 'ValueError'
        if 'exclude_pgns' not in a1 or 'exclude_pgns_ids' not in a1:
            raise A.Unknown('the constructor leaves no exclude_pgns / exclude_pgns_ids attributes: where the lists are kept was not followed')
        okt = sorted(a1.get('exclude_pgns', [])) == [5, 5] and a1.get('exclude_pgns_ids') == ['abc'] and rejects
        chk.check(okt, 'FILTER-TYPE', 'split_pgn_list', file=DEC, line=program.fn('decoder', f"{CLS}.__init__").lineno, func='split_pgn_list',
                  expected='ints kept as given, strings lower-cased, anything else rejected with ValueError',
                  found={'exclude_pgns=[5, "AbC", 5]': {k: a1.get(k) for k in ('exclude_pgns', 'exclude_pgns_ids')}, 'a tuple entry is rejected': rejects})
    except (A.Unknown, A.RaiseSignal) as u:
        if sf is None:
            chk.unknown('FILTER-TYPE', 'split_pgn_list', f"constructor neither interpretable ({u}) nor of the recognised shape", DEC, 0)
        else:
            chk.check(sf['int_plain'] is True and sf['str_lower'] is True and sf['other_raises'], 'FILTER-TYPE', 'split_pgn_list', file=DEC, line=sf['line'], func='split_pgn_list',
                      expected='ints kept as given, strings lower-cased, anything else rejected', found={k: sf.get(k) for k in ('int', 'str', 'str_lower', 'int_plain', 'other_raises')})
    stages = {'_decode': stage_events(program, '_decode'), '_call_decode_function': stage_events(program, '_call_decode_function')}
    db = program.db
    # stand-in messages from the database: an ordinary definition with an upper-case letter in its id, and the claim
    ordinary = [d for d in db.defs if not d.group.complex and d.pgn != consts['ISO_CLAIM_PGN'] and d.id != d.id.lower() and len(d.group.defs) == 1]
    if len(ordinary) < 2:
        raise AnalysisError('no ordinary definitions found in the database')
    P, ID = ordinary[0].pgn, ordinary[0].id
    Q, OTHER = ordinary[1].pgn, ordinary[1].id
    claim = [d for d in db.defs if d.pgn == consts['ISO_CLAIM_PGN']]
    chk.check(len(claim) == 1 and claim[0].id == consts['ISO_CLAIM_PGN_ID'], 'FILTER-TABLE', 'claim-constants', file=DEC, line=0,
              expected=f"ISO_CLAIM_PGN/ISO_CLAIM_PGN_ID name database definition {consts['ISO_CLAIM_PGN']}", found=[d.key for d in claim])
    uni = universe(consts, P, Q, ID, OTHER)
    configs = [()] + [(a,) for a in uni] + list(itertools.combinations(uni, 2))
    if max_entries >= 3:
        configs += list(itertools.combinations(uni, 3))
    nmodels = 0
    disagreements = {}
    for mode in ('exclude', 'include'):
        for cfg in configs:
            if mode == 'include' and not cfg:
                continue
            excl = list(cfg) if mode == 'exclude' else []
            incl = list(cfg) if mode == 'include' else []
            try:
                attrs = runtime_attrs(program, sf, cf, consts, excl, incl)
            except teval.EvalUnknown as u:
                chk.unknown('FILTER-TABLE', '__init__', f"constructor expression not evaluable: {u}", DEC, cf['line'] if cf else 0)
                return
            cases = [(P, ID, 'ordinary', None, 'no-entry')]
            for old_name, tag in ((None, 'no-entry'), (12345, 'same-NAME'), (999, 'other-NAME')):
                cases.append((consts['ISO_CLAIM_PGN'], consts['ISO_CLAIM_PGN_ID'], 'claim', old_name, tag))
            for (pgn, mid, kind, old_name, tag) in cases:
                iso = None if old_name is None else Stub(name=old_name, manufacturer_code=None)
                model, msg = make_model(attrs, consts, pgn, mid, iso=iso)
                try:
                    res, _det = outcome_any(program, stages, model, dict(attrs=attrs, consts=consts, pgn=pgn, mid=mid, iso=iso))
                except teval.EvalUnknown as u:
                    chk.unknown('FILTER-TABLE', f"{mode}={cfg}", f"guard not evaluable: {u}", DEC, 0)
                    return
                nmodels += 1
                want = spec_permitted(pgn, mid, excl, incl)
                got = res[0] == 'returned'
                shape = _shape(cfg, pgn, mid) + ('' if tag == 'no-entry' else '/' + tag)
                key = (mode, kind, shape)
                if got != want:
                    disagreements.setdefault(key, []).append((cfg, res))
                else:
                    chk.ok('FILTER-TABLE', f"{mode}::{kind}::{shape}::{_cfgs(cfg)}", file=DEC, line=res[2], nontrivial=True)
                if kind == 'claim':
                    # data_int of the stand-in claim is 12345: the map must be written unless the stored NAME is that very number
                    want_store = old_name != 12345
                    chk.check(res[3] is want_store, 'CLAIM-MAP', f"{mode}::{tag}::{_cfgs(cfg)}", file=DEC, line=res[2], func=res[1] or '',
                              expected=('an address claim reaches the source-map store before any filter return' if want_store else 'an unchanged NAME keeps the stored identity'),
                              found=f"{res[0]} at {res[1]}:{res[2]}, stored={res[3]}",
                              detail='' if res[3] is want_store else 'a filtered-out claim (e.g. a re-claim with a different NAME on a known address) must still update the source map')
                # FILTER-PRE: numeric decisions are taken in _decode (before reassembly state)
                if kind == 'ordinary':
                    by_number = (mode == 'exclude' and pgn in [x for x in excl if isinstance(x, int)]) or \
                                (mode == 'include' and incl and all(isinstance(x, int) for x in incl) and pgn not in incl)
                    if by_number and not want:
                        chk.check(res[0] == 'filtered' and res[1] == '_decode', 'FILTER-PRE', f"{mode}::{_cfgs(cfg)}", file=DEC, line=res[2],
                                  expected='decided in _decode, before any reassembly state is touched', found=f"{res[0]} in {res[1]}")
    for (mode, kind, shape), lst in sorted(disagreements.items()):
        cfg, res = lst[0]
        want = 'returned' if res[0] == 'filtered' else 'filtered'
        chk.violation('FILTER-TABLE', f"{mode}::{kind}::{shape}", file=DEC, line=res[2], func=res[1] or '_call_decode_function',
                      expected=f"{want} (statement: not excluded by number or id, and listed by number or id when an include list is given; ids case-insensitive)",
                      found=f"{res[0]}" + (f" by the return at line {res[2]} of {res[1]}" if res[0] == 'filtered' else ''),
                      detail=f"{len(lst)} configurations of this shape disagree, e.g. {mode}_pgns={list(cfg)} for message PGN {P if kind == 'ordinary' else consts['ISO_CLAIM_PGN']} id {ID if kind == 'ordinary' else consts['ISO_CLAIM_PGN_ID']}")
    chk.unit('filter_models', nmodels)
    chk.floor('filter_models', nmodels, 300)
    return consts, sf, cf, stages

def filter_history(chk, program):
    """FILTER-HIST: the verdict on a message is a function of the configuration and of THAT message (its number and its id), not of the messages decided
    before it.  `_call_decode_function` is interpreted (absint) on the decoder its constructor builds, over short histories in which one PGN number
    carries two definitions (as every proprietary / multi-definition PGN does): A B, B A, A B A with exclude=[id of B], include=[id of A], and the
    reverse roles.  Each step's outcome is compared with the statement.  A function the interpreter cannot follow decides nothing here (the
    tabulated guards of FILTER-TABLE still have to be evaluable)."""
    from . import absint as A
    from .wire import is_logger
    mod = program.mod('decoder')
    cls = program.cls('decoder', CLS)
    methods = {n.name: n for n in cls.body if isinstance(n, (ast.FunctionDef, ast.AsyncFunctionDef))}
    fn = methods.get('_call_decode_function')
    init = methods.get('__init__')
    if fn is None or init is None:
        return
    menv = A.ModuleEnv(mod.tree)
    classes = {c: mod.classes[c] for c in mod.classes if c != CLS}
    P, Q = 130820, 127250
    IDS = {'A': 'fusionSourceName', 'B': 'fusionTrackInfo', 'C': 'vesselHeading'}
    PG = {'A': P, 'B': P, 'C': Q}
    def build(excl, incl):
        def hook(it, call, env):
            name = ast.unparse(call.func)
            if name in ('datetime.now', 'datetime.utcnow', 'time.time', 'time.monotonic'):
                return A.AInt(5)
            if name == 'open':
                return A.AObj(dump_file=True)
            if name.startswith('os.'):
                return A.AOpaque(name)
            return NotImplemented
        dec = A.AObj()
        dec.attrs.update(A.class_constants(None, cls))
        params = [a.arg for a in init.args.args][1:]
        kw = {}
        if 'exclude_pgns' in params: kw['exclude_pgns'] = _from_py(list(excl))
        if 'include_pgns' in params: kw['include_pgns'] = _from_py(list(incl))
        A.Interp(hook=hook, skip=is_logger, methods=methods, module=menv, classes=classes).call_function(init, [dec], kw)
        return dec
    def step(dec, which):
        msg = A.AObj(PGN=A.AInt(PG[which]), id=A.AStr([('lit', IDS[which])]), fields=A.AList([]), which=which)
        FUNC = A.AObj(decode_function=True)
        def hook(it, call, env):
            f = call.func
            name = ast.unparse(f)
            if name == 'globals().get' or (isinstance(f, ast.Attribute) and f.attr == 'get' and isinstance(f.value, ast.Call) and ast.unparse(f.value.func) in ('globals', 'vars')):
                return FUNC
            if isinstance(f, ast.Subscript) and isinstance(f.value, ast.Call) and ast.unparse(f.value.func) == 'globals':
                return msg
            if isinstance(f, ast.Name) and env.get(f.id) is FUNC:
                return msg
            if isinstance(f, ast.Attribute) and f.attr in ('add_data', 'apply_preferred_units'):
                try:
                    if it.expr(f.value, env) is msg:
                        return None
                except A.Unknown:
                    pass
            if isinstance(f, ast.Attribute) and f.attr == 'to_json':
                return A.AStr([('lit', '{}')])
            if name == 'IsoName':
                return A.AObj(name=A.AInt(7), manufacturer_code=None)
            return NotImplemented
        it = A.Interp(hook=hook, skip=is_logger, methods=methods, module=menv, classes=classes)
        args = []
        for a in fn.args.args:
            p = a.arg
            if p == 'self': args.append(dec)
            elif p == 'pgn': args.append(A.AInt(PG[which]))
            elif p in ('src',): args.append(A.AInt(7))
            elif p in ('dest',): args.append(A.AInt(255))
            elif p == 'priority': args.append(A.AInt(3))
            elif p == 'data': args.append(A.ABytes([('c', k) for k in (1, 2, 3, 4, 5, 6, 7, 8)]))
            elif p == 'source_iso_name': args.append(None)
            else: args.append(A.AOpaque(p))
        r = it.call_function(fn, args)
        return r is msg, r
    configs = []
    for role in ('A', 'B'):
        other = 'B' if role == 'A' else 'A'
        configs.append(('exclude', [IDS[role]], []))
        configs.append(('exclude', [IDS[role].upper()], []))
        configs.append(('include', [], [IDS[role]]))
        configs.append(('include', [], [IDS[role], Q]))
    hists = [('A', 'B'), ('B', 'A'), ('A', 'B', 'A'), ('B', 'A', 'B'), ('C', 'A', 'C', 'B'), ('A', 'A', 'B', 'B')]
    n = 0
    bad = []
    try:
        for mode, excl, incl in configs:
            for h in hists:
                dec = build(excl, incl)
                for i, w in enumerate(h):
                    got, r = step(dec, w)
                    if r is not None and not got:
                        raise A.Unknown('the value returned is not the decoded message')
                    want = spec_permitted(PG[w], IDS[w], excl, incl)
                    n += 1
                    if got != want:
                        bad.append((mode, excl or incl, h, i, w, got))
                        break
    except (A.Unknown, A.RaiseSignal, AttributeError, KeyError, TypeError) as u:
        chk.unit('filter_history_not_interpretable', f"{type(u).__name__}: {u}"[:200])
        return
    chk.unit('filter_history_steps', n)
    if bad:
        mode, lst, h, i, w, got = bad[0]
        names = {'A': f"{P}/{IDS['A']}", 'B': f"{P}/{IDS['B']}", 'C': f"{Q}/{IDS['C']}"}
        chk.violation('FILTER-HIST', f"{mode}::{'after-other-definition-of-the-same-number' if i else 'first-message'}", file=DEC, line=fn.lineno, func='_call_decode_function',
                      expected=f"{mode}_pgns={lst}: message {i + 1} of the history [{', '.join(names[x] for x in h)}] is {'returned' if not got else 'filtered out'} (the verdict depends on the message, not on what was decided before it)",
                      found='filtered out' if not got else 'returned', detail=f"{len(bad)} of {len(configs) * len(hists)} histories disagree with the statement")
    else:
        chk.ok('FILTER-HIST', 'verdict-per-message::two-definitions-of-one-number', file=DEC, line=fn.lineno, nontrivial=True)

def _cfgs(cfg):
    return '[' + ','.join(str(x) for x in cfg) + ']'

def _shape(cfg, pgn, mid):
    """classification of a configuration relative to the message: which kinds of entries it has and whether they name the message"""
    parts = []
    for x in cfg:
        if isinstance(x, int):
            parts.append('num-hit' if x == pgn else 'num-miss')
        else:
            parts.append('id-hit' if x.lower() == mid.lower() else 'id-miss')
    return '+'.join(sorted(set(parts))) or 'empty'

# ---------------------------------------------------------------------------
# normal-form rule
# ---------------------------------------------------------------------------
def lower_kind(t, consts):
    """LOWER / MIXED / INT / UNKNOWN classification of a probe term"""
    if t[0] == 'const':
        if isinstance(t[1], str):
            return 'LOWER' if t[1] == t[1].lower() else 'MIXED'
        if isinstance(t[1], int):
            return 'INT'
    if t[0] == 'name' and t[1] in consts:
        return lower_kind(C(consts[t[1]]), consts)
    if t[0] == 'call' and t[1][0] == 'attr' and t[1][2] == 'lower':
        return 'LOWER'
    if t[0] == 'param' and t[1] in ('pgn', 'pgn_id'):
        return 'INT'
    if t[0] == 'attr' and t[2] == 'PGN':
        return 'INT'
    if t[0] == 'attr' and t[2] == 'id':
        return 'MIXED'          # database ids are camelCase
    return 'UNKNOWN'

def norm_rule(chk, program, rule, attrs_lower, attrs_int, functions, consts):
    """every membership test against a lower-cased list has a LOWER probe; against an int list an INT probe"""
    n = 0
    for qual in functions:
        fn = program.fn('decoder', f"{CLS}.{qual}")
        ex = sym.SymExec(fn)
        seen = set()
        for node in ast.walk(fn):
            if isinstance(node, ast.Compare) and len(node.ops) == 1 and isinstance(node.ops[0], (ast.In, ast.NotIn)):
                right = node.comparators[0]
                if isinstance(right, ast.Attribute) and isinstance(right.value, ast.Name) and right.value.id == 'self' and right.attr in attrs_lower | attrs_int:
                    # resolve the probe through local def-use: re-run sym up to here is overkill; use a local environment of simple assignments
                    probe = _resolve_probe(fn, node.left, ex)
                    kind = lower_kind(probe, consts)
                    want = 'LOWER' if right.attr in attrs_lower else 'INT'
                    n += 1
                    inst = f"{qual}::{ast.unparse(node.left)} in self.{right.attr}"
                    if inst in seen:
                        inst += f"#{sum(1 for s in seen if s.startswith(inst)) + 1}"
                    seen.add(inst)
                    if kind == 'UNKNOWN':
                        chk.unknown(rule, inst, f"probe {show(probe)} not classifiable", DEC, node.lineno)
                        continue
                    rname = rule if want == 'LOWER' or kind != 'LOWER' and kind != 'MIXED' else 'FILTER-TYPE'
                    chk.check(kind == want, rname if rule.startswith('FILTER') else rule, inst, file=DEC, line=node.lineno, func=qual,
                              expected=f"{want} probe ({'entries are lower-cased by split_pgn_list' if want == 'LOWER' else 'entries are ints'})",
                              found=f"{kind}: {show(probe)}",
                              detail='' if kind == want else ('the test is constant: a value of this form never occurs in the list' ))
    return n

def _resolve_probe(fn, expr, ex):
    """term of a probe expression with single-assignment locals substituted"""
    env = {}
    for n in ast.walk(fn):
        if isinstance(n, ast.Assign) and len(n.targets) == 1 and isinstance(n.targets[0], ast.Name):
            name = n.targets[0].id
            env.setdefault(name, []).append(n.value)
    sub = sym.SymExec(fn)
    for name, vals in env.items():
        if len(vals) == 1:
            sub.state.env[name] = sym.SymExec(fn).expr(vals[0])
    return sub.expr(expr)
