"""piece.py -- exact evaluation of a residual (sym.py events) as a function of ONE integer variable over all of Z.

The numeric helpers of utils.py, partially evaluated at a field's database constants, are functions of the integer
tick count q = round(value / resolution): comparisons of q with constants, q + c, q & mask, conditional expressions,
`raise`.  Such a function is piecewise affine.  This module computes the pieces: an interval [l, u] of Z (l / u may be
-inf / +inf) is carried through the term; a value is a constant or a*q + b valid on the whole interval; a comparison
that is not decided on the whole interval, or a mask that is not affine on it, splits the interval at the point where
it changes and both halves are evaluated again.  The result -- a list of (l, u, outcome) covering Z -- is exact for
every integer, so two spellings of the same function give the same pieces, and a difference has a witness q.

No enumeration of values, no solver: interval splitting on the constants that occur in the term.
"""
from __future__ import annotations

from . import sym

INF = float('inf')

class NeedSplit(Exception):
    def __init__(self, at):
        self.at = at          # split into [l, at-1] and [at, u]

class NotPiecewise(Exception):
    pass

class Aff:
    """a*q + b on the current interval (a == 0: the constant b)"""
    __slots__ = ('a', 'b')
    def __init__(self, a, b):
        self.a, self.b = a, b
    def is_const(self):
        return self.a == 0
    def __repr__(self):
        if self.a == 0: return repr(self.b)
        return (f"{self.a}*q" if self.a != 1 else 'q') + (f"{self.b:+d}" if self.b else '')
    def key(self):
        return (self.a, self.b)

def _range(v, l, u):
    """value range of an Aff on [l, u]"""
    if v.a == 0:
        return v.b, v.b
    lo = v.a * l + v.b if l != -INF else (-INF if v.a > 0 else INF)
    hi = v.a * u + v.b if u != INF else (INF if v.a > 0 else -INF)
    return (lo, hi) if lo <= hi else (hi, lo)

def ev(t, Q, l, u, env):
    """-> Aff | bool | None | ('tuple', ...) ; env: {term: Aff/bool/None} for leaves the caller fixes (e.g. `value is None` -> False)"""
    if t in env:
        return env[t]
    if t == Q:
        return Aff(1, 0)
    k = t[0]
    if k == 'const':
        v = t[1]
        if isinstance(v, bool) or v is None:
            return v
        if isinstance(v, int):
            return Aff(0, v)
        raise NotPiecewise(f"constant {v!r}")
    if k == 'unop':
        x = ev(t[2], Q, l, u, env)
        if t[1] == 'not':
            return not truth(x, l, u)
        if t[1] == '-' and isinstance(x, Aff):
            return Aff(-x.a, -x.b)
        if t[1] == '+' and isinstance(x, Aff):
            return x
        raise NotPiecewise(f"unary {t[1]}")
    if k == 'bool':
        if t[1] == 'and':
            r = True
            for x in t[2]:
                r = ev(x, Q, l, u, env)
                if not truth(r, l, u):
                    return r
            return r
        r = False
        for x in t[2]:
            r = ev(x, Q, l, u, env)
            if truth(r, l, u):
                return r
        return r
    if k == 'ite':
        return ev(t[2] if truth(ev(t[1], Q, l, u, env), l, u) else t[3], Q, l, u, env)
    if k == 'cmp' and t[1] in ('in', 'not in') and t[3][0] == 'call' and t[3][1] == ('name', 'range') and 1 <= len(t[3][2]) <= 2:
        # x in range(lo, hi) for an integer x: lo <= x < hi
        args = t[3][2]
        lo_t = ('const', 0) if len(args) == 1 else args[0]
        hi_t = args[-1]
        inside = ('bool', 'and', (('cmp', '>=', t[2], lo_t), ('cmp', '<', t[2], hi_t)))
        r = ev(inside, Q, l, u, env)
        r = truth(r, l, u)
        return r if t[1] == 'in' else not r
    if k == 'cmp':
        op = t[1]
        a = ev(t[2], Q, l, u, env); b = ev(t[3], Q, l, u, env)
        if op in ('is', 'is not'):
            if a is None or b is None:
                r = a is None and b is None
                return r if op == 'is' else not r
            raise NotPiecewise('identity comparison of numbers')
        if not isinstance(a, Aff) or not isinstance(b, Aff):
            raise NotPiecewise(f"comparison {op} of {a!r} and {b!r}")
        d = Aff(a.a - b.a, a.b - b.b)          # d op 0
        lo, hi = _range(d, l, u)
        if op == '<':
            if hi < 0: return True
            if lo >= 0: return False
        elif op == '<=':
            if hi <= 0: return True
            if lo > 0: return False
        elif op == '>':
            if lo > 0: return True
            if hi <= 0: return False
        elif op == '>=':
            if lo >= 0: return True
            if hi < 0: return False
        elif op == '==':
            if lo == hi == 0: return True
            if lo > 0 or hi < 0: return False
        elif op == '!=':
            if lo == hi == 0: return False
            if lo > 0 or hi < 0: return True
        else:
            raise NotPiecewise(f"comparison {op}")
        # undecided on [l, u]: split where d changes sign
        if d.a == 0:
            raise NotPiecewise('constant comparison undecided')
        import math
        if op in ('==', '!='):
            if (-d.b) % d.a != 0:
                return op == '!='
            z = (-d.b) // d.a
            raise NeedSplit(z if z > l else z + 1)
        # threshold: first q (going up) where the truth value differs from the one at l
        # d(q) = a q + b ; zero crossing at q0 = -b/a
        fl = (-d.b) // d.a            # exact integer arithmetic (fields are up to 64 bits wide)
        cands = sorted({fl - 1, fl, fl + 1, fl + 2})
        for c in cands:
            if l < c <= u:
                raise NeedSplit(c)
        raise NotPiecewise('no split point found')
    if k == 'binop':
        op = t[1]
        a = ev(t[2], Q, l, u, env); b = ev(t[3], Q, l, u, env)
        if not isinstance(a, Aff) or not isinstance(b, Aff):
            raise NotPiecewise(f"operator {op} on {a!r}, {b!r}")
        if op == '+': return Aff(a.a + b.a, a.b + b.b)
        if op == '-': return Aff(a.a - b.a, a.b - b.b)
        if op == '*':
            if a.a == 0: return Aff(b.a * a.b, b.b * a.b)
            if b.a == 0: return Aff(a.a * b.b, a.b * b.b)
            raise NotPiecewise('product of two variables')
        if a.a == 0 and b.a == 0:
            try:
                r = sym.BINFN[op](a.b, b.b)
            except Exception as e:
                raise NotPiecewise(f"{a.b} {op} {b.b}: {e}")
            if isinstance(r, int):
                return Aff(0, r)
            raise NotPiecewise(f"{a.b} {op} {b.b} is not an integer")
        if op in ('&', '%') and b.a == 0:
            m = b.b + 1 if op == '&' else b.b
            if m <= 0 or m & (m - 1) != 0:
                raise NotPiecewise(f"{op} with {b.b}")
            if a.a not in (1, -1):
                raise NotPiecewise('mask of a scaled variable')
            lo, hi = _range(a, l, u)
            if lo == -INF or hi == INF:
                raise NotPiecewise('mask on an unbounded interval')
            if lo // m == hi // m:
                return Aff(a.a, a.b - (lo // m) * m)
            # split at the first block boundary inside the interval
            boundary_value = (lo // m + 1) * m
            # a.a * q + a.b == boundary_value
            if a.a == 1:
                raise NeedSplit(boundary_value - a.b)
            qb = a.b - boundary_value      # value decreasing in q: value >= boundary for q <= qb
            raise NeedSplit(qb + 1)
        if op == '&' and a.a == 0:
            return ev(('binop', '&', t[3], t[2]), Q, l, u, env)
        if op in ('<<',) and b.a == 0 and b.b >= 0:
            return Aff(a.a << b.b, a.b << b.b)
        raise NotPiecewise(f"operator {op}")
    raise NotPiecewise(f"term {sym.show(t)[:60]}")

def truth(x, l, u):
    if isinstance(x, bool):
        return x
    if x is None:
        return False
    if isinstance(x, Aff):
        if x.a == 0:
            return x.b != 0
        lo, hi = _range(x, l, u)
        if lo > 0 or hi < 0:
            return True
        raise NotPiecewise('truth of a variable')
    raise NotPiecewise(f"truth of {x!r}")

def pieces(rows, Q, env=None, exc_name=None, limit=400):
    """rows: [(kind, guards, value, line)] with kind in {'return','raise'} in program order (first row whose guards hold wins).
    -> [(l, u, ('return', Aff|None|bool) | ('raise', name) | ('fall',))] sorted, covering Z"""
    env = env or {}
    out = []
    work = [(-INF, INF)]
    n = 0
    while work:
        n += 1
        if n > limit:
            raise NotPiecewise('too many pieces')
        l, u = work.pop()
        try:
            res = ('fall',)
            for (kind, gs, v, ln) in rows:
                ok = True
                for g in gs:
                    if not truth(ev(g, Q, l, u, env), l, u):
                        ok = False
                        break
                if not ok:
                    continue
                if kind == 'return':
                    val = ev(v, Q, l, u, env)
                    res = ('return', val.key() if isinstance(val, Aff) else val)
                else:
                    res = ('raise', exc_name(v) if exc_name else 'raise')
                break
            out.append((l, u, res))
        except NeedSplit as s:
            at = s.at
            if not (l < at <= u):
                raise NotPiecewise(f"bad split {at} of [{l}, {u}]")
            work.append((l, at - 1))
            work.append((at, u))
    out.sort(key=lambda p: p[0])
    # merge neighbours with equal outcome
    merged = []
    for p in out:
        if merged and merged[-1][2] == p[2] and merged[-1][1] + 1 == p[0]:
            merged[-1] = (merged[-1][0], p[1], p[2])
        else:
            merged.append(p)
    return merged

def describe(ps):
    def b(x):
        return '-inf' if x == -INF else ('+inf' if x == INF else str(x))
    out = []
    for l, u, r in ps:
        if r[0] == 'return' and isinstance(r[1], tuple):
            r = ('return', repr(Aff(*r[1])))
        out.append(f"[{b(l)},{b(u)}] -> {' '.join(str(x) for x in r)}")
    return out
