"""teval.py -- evaluation of extracted guard terms over an explicit model.

The decision-table rules (C10, C15, C11) extract, with sym.py, the guard under which a function returns
None / writes / stores.  Those guards touch their inputs only through membership, emptiness and equality
tests, so they can be tabulated: this module evaluates a *term* (never repository code) over a model that
gives concrete stand-ins for the leaves (filter lists, the message's PGN and id).  Typing is Python's own:
a str probe in a list of ints is simply False.  A leaf the model does not define raises EvalUnknown; under
`and`/`or` short-circuiting it is only an error when the outcome really depends on it.
"""
from __future__ import annotations

import operator

from . import sym

class EvalUnknown(Exception):
    pass

_BIN = {'+': operator.add, '-': operator.sub, '*': operator.mul, '//': operator.floordiv, '%': operator.mod, '&': operator.and_, '|': operator.or_,
        '<<': operator.lshift, '>>': operator.rshift, '/': operator.truediv, '^': operator.xor, '**': operator.pow}
_CMP = {'==': operator.eq, '!=': operator.ne, '<': operator.lt, '<=': operator.le, '>': operator.gt, '>=': operator.ge}

class Model:
    """leaf resolver: subclass or pass dicts"""
    def __init__(self, params=None, names=None, self_attrs=None, calls=None):
        self.params = params or {}
        self.names = names or {}
        self.self_attrs = self_attrs or {}
        self.calls = calls or (lambda ev, t: (_ for _ in ()).throw(EvalUnknown(sym.show(t)[:80])))

def ev(t, m):
    k = t[0]
    if k == 'const':
        return t[1]
    if k == 'param':
        if t[1] in m.params:
            return m.params[t[1]]
        raise EvalUnknown(f"parameter {t[1]}")
    if k == 'name':
        if t[1] in m.names:
            return m.names[t[1]]
        raise EvalUnknown(f"name {t[1]}")
    if k == 'attr':
        base = t[1]
        if base == ('param', 'self'):
            if t[2] in m.self_attrs:
                return m.self_attrs[t[2]]
            raise EvalUnknown(f"self.{t[2]}")
        o = ev(base, m)
        if isinstance(o, dict) and t[2] in o:
            return o[t[2]]
        if hasattr(o, 'attrs') and t[2] in o.attrs:
            return o.attrs[t[2]]
        raise EvalUnknown(f"attribute {t[2]} of {type(o).__name__}")
    if k == 'unop':
        x = ev(t[2], m)
        if t[1] == 'not':
            return not x
        if t[1] == '-':
            return -x
        raise EvalUnknown('unary ' + t[1])
    if k == 'bool':
        if t[1] == 'and':
            r = True
            for x in t[2]:
                r = ev(x, m)
                if not r:
                    return r
            return r
        r = False
        for x in t[2]:
            r = ev(x, m)
            if r:
                return r
        return r
    if k == 'cmp':
        op = t[1]
        a = ev(t[2], m)
        b = ev(t[3], m)
        if op == 'in':
            return a in b
        if op == 'not in':
            return a not in b
        if op == 'is':
            return a is b or (a is None and b is None)
        if op == 'is not':
            return not (a is b or (a is None and b is None))
        try:
            return _CMP[op](a, b)
        except TypeError:
            raise EvalUnknown('comparison of ' + type(a).__name__ + ' and ' + type(b).__name__)
    if k == 'binop':
        a = ev(t[2], m); b = ev(t[3], m)
        try:
            return _BIN[t[1]](a, b)
        except Exception:
            raise EvalUnknown('binary ' + t[1])
    if k == 'ite':
        return ev(t[2], m) if ev(t[1], m) else ev(t[3], m)
    if k == 'call':
        f = t[1]
        if f == ('name', 'len') and len(t[2]) == 1:
            return len(ev(t[2][0], m))
        if f == ('name', 'str') and len(t[2]) == 1:
            return str(ev(t[2][0], m))
        if f == ('name', 'bool') and len(t[2]) == 1:
            return bool(ev(t[2][0], m))
        if f == ('name', 'divmod') and len(t[2]) == 2:
            return list(divmod(ev(t[2][0], m), ev(t[2][1], m)))
        if f == ('name', 'int') and len(t[2]) == 1:
            return int(ev(t[2][0], m))
        if f[0] == 'attr' and f[2] == 'get' and 1 <= len(t[2]) <= 2 and f[1][0] in ('dict', 'name', 'ite'):
            try:
                base = ev(f[1], m)
            except EvalUnknown:
                base = None
            if isinstance(base, dict):
                key = ev(t[2][0], m)
                return base.get(key, ev(t[2][1], m) if len(t[2]) > 1 else None)
        if f[0] == 'attr' and f[2] == 'lower' and not t[2]:
            return ev(f[1], m).lower()
        if f[0] == 'attr' and f[2] == 'upper' and not t[2]:
            return ev(f[1], m).upper()
        return m.calls(ev, t)
    if k == 'tupidx':
        return ev(t[1], m)[t[2]]
    if k == 'sub' and t[2][0] != 'slice':
        try:
            return ev(t[1], m)[ev(t[2], m)]
        except (KeyError, IndexError, TypeError) as e_:
            raise EvalUnknown(f"subscript {sym.show(t)[:60]}: {type(e_).__name__}")
    if k in ('tuple', 'list'):
        return [ev(x, m) for x in t[1]]
    if k == 'set':
        return {ev(x, m) for x in t[1]}
    if k == 'dict':
        return {ev(a, m): ev(b, m) for a, b in t[1]}
    if k == 'fstr':
        return ''.join(str(p[1]) if p[0] == 'const' else str(ev(p[1], m)) for p in t[1])
    raise EvalUnknown(f"term kind {k}: {sym.show(t)[:80]}")

def first_true(events, m, kinds=('return',)):
    """index and event of the first event (program order) of the given kinds whose whole guard is true under the model"""
    for i, e in enumerate(events):
        if e[0] not in kinds:
            continue
        ok = True
        for g in e[1]:
            if not ev(g, m):
                ok = False
                break
        if ok:
            return i, e
    return None, None

def guard_true(e, m):
    for g in e[1]:
        if not ev(g, m):
            return False
    return True
