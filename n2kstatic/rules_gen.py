"""rules_gen.py -- translation validation of nmea2000/pgns.py against canboat.json.

Rules: GEN-DEC, GEN-TAB, GEN-RAISE, GEN-OFFSET, PK-FLAG, DISP, DISP-REACH,
ENC-NAME, FP-TYPE, GEN-ENC, ENC-MASK, ROUND, ABSENT-ENC, ENC-PRODUCER.
Each function adds obligations to a runner.Check.
"""
from __future__ import annotations

import ast

from . import sym
from .sym import C, NONE, show
from .gen import DecoderTable, EncoderTable, canon, dataclass_fields, is_call_to, bind_ctor
from .dbspec import NUMBER_LIKE, MISSING
from .model import AnalysisError

PG = 'nmea2000/pgns.py'

def _orders(program):
    m = program.mod('message')
    msg_order = dataclass_fields(program.cls('message', 'NMEA2000Message'))
    fld_order = dataclass_fields(program.cls('message', 'NMEA2000Field'))
    need = ['id', 'name', 'description', 'unit_of_measurement', 'value', 'raw_value', 'physical_quantities', 'type', 'part_of_primary_key']
    for n in need:
        if n not in fld_order:
            raise AnalysisError(f"anchor message.NMEA2000Field.{n} vanished")
    for n in ('PGN', 'id', 'description', 'ttl', 'fields'):
        if n not in msg_order:
            raise AnalysisError(f"anchor message.NMEA2000Message.{n} vanished")
    return msg_order, fld_order

_tables_cache = {}
def decoder_tables(program):
    key = id(program)
    if key not in _tables_cache:
        g = program.gen
        mo, fo = _orders(program)
        out = {}
        for n, s in g.funcs.items():
            if n.startswith('decode_pgn_'):
                out[n] = DecoderTable(s, mo, fo)
        _tables_cache[key] = out
    return _tables_cache[key]

def consts_members(program):
    m = program.mod('consts')
    out = {}
    for cn in ('FieldTypes', 'PhysicalQuantities'):
        c = program.cls('consts', cn)
        mem = set()
        for n in c.body:
            if isinstance(n, ast.Assign):
                for t in n.targets:
                    if isinstance(t, ast.Name):
                        mem.add(t.id)
        out[cn] = mem
    return out

def decoder_name(d):
    return f"decode_pgn_{d.suffix}"

def encoder_name(d):
    return f"encode_pgn_{d.suffix}"

SLOTS = ['id', 'name', 'description', 'unit_of_measurement', 'physical_quantities', 'type', 'part_of_primary_key', 'raw_value', 'value']

def _is_dispatcher(s):
    """a generated function whose returns are calls of other decode_pgn_ functions"""
    rets = [e for e in s['events'] if e[0] == 'return']
    return bool(rets) and any(e[2][0] == 'call' and e[2][1][0] == 'name' and e[2][1][1].startswith('decode_pgn_') for e in rets)

def gen_dec(chk, program, slots=SLOTS, rule='GEN-DEC', with_msg=True, with_flow=True):
    """every database definition has its decoder, and every constructor slot equals the database's"""
    db, g = program.db, program.gen
    tabs = decoder_tables(program)
    members = consts_members(program)
    nrows = 0; ndefs = 0; nreach = 0
    offset_fields = []
    shadowed = []
    for d in db.defs:
        fname = decoder_name(d)
        inst = f"{fname}"
        if not d.group.complex and d is not d.group.defs[-1]:
            # several definitions of one PGN without any match field: the generator emits them under
            # one name and Python keeps the last; the earlier ones are catch-all range entries of the
            # database (not distinguishable by content).  Listed in evidence, not an obligation.
            shadowed.append(d.key)
            continue
        if fname not in tabs:
            chk.violation(rule, f"{inst}::exists", file=PG, line=0, expected=f"def {fname}", found='absent',
                          detail=f"no decoder for database definition {d.key}")
            continue
        t = tabs[fname]
        ndefs += 1
        line = t.s['line']
        if _is_dispatcher(t.s):
            chk.violation(rule, f"{inst}::exists", file=PG, line=line, expected='leaf decoder', found='dispatcher',
                          detail=f"{fname} should decode definition {d.key} but is a dispatcher")
            continue
        rows_exp, complete = db.expected_decoder(d, ('param', t.param), t.msg)
        if t.msg is None:
            if rows_exp or complete:
                chk.violation(rule, f"{inst}::message", file=PG, line=line, expected='NMEA2000Message(...) constructed in the call', found='none')
                continue
        if with_msg and t.msg is not None:
            ma = t.msg_args
            exp = {'PGN': C(d.pgn), 'id': C(d.id), 'description': C(d.description)}
            if d.interval is not None:
                exp['ttl'] = ('call', ('name', 'timedelta'), (), (('milliseconds', C(d.interval)),))
            for k, v in exp.items():
                chk.check(ma.get(k) == v, rule, f"{inst}::message.{k}", file=PG, line=line, func=fname,
                          expected=show(v), found=show(ma.get(k)) if k in ma else 'absent')
            if d.interval is None:
                chk.check('ttl' not in ma or ma['ttl'] == NONE, rule, f"{inst}::message.ttl", file=PG, line=line, func=fname,
                          expected='absent', found=show(ma.get('ttl', NONE)), nontrivial=False)
            for k in ma:
                if k not in ('PGN', 'id', 'description', 'ttl'):
                    chk.violation(rule, f"{inst}::message.{k}", file=PG, line=line, func=fname, expected='absent', found=show(ma[k]),
                                  detail='message attribute preset by the decoder')
        for p in t.problems:
            chk.unknown(rule, inst, p, PG, line)
        # rows
        found_rows = t.rows
        # rows after an unconditional raise never exist in events (dead code is skipped by sym)
        if with_flow:
            if not complete and len(found_rows) > len(rows_exp):
                # the decoder goes on past the field type at which the reference stops (support for that type added later): the fields up to there are
                # compared below; what follows has no reference here -- no verdict, not an alarm
                chk.unknown(rule, f"{inst}::field-count", f"the decoder constructs {len(found_rows)} fields, the reference stops after {len(rows_exp)} at a field type it does not describe", PG, line)
            else:
                chk.check(len(found_rows) == len(rows_exp), rule, f"{inst}::field-count", file=PG, line=line, func=fname,
                          expected=len(rows_exp), found=len(found_rows),
                          detail='number of fields constructed before the end / the unsupported-type raise')
        for i, er in enumerate(rows_exp):
            f = er['field']
            finst = f"{fname}::{i + 1}:{f.dbid}"
            if i >= len(found_rows):
                break
            fr = found_rows[i]
            nrows += 1
            asserted = {a for a, _, _ in t.asserts}
            cond = [x for x in fr['guard'] if x not in asserted]
            if cond and with_flow:
                chk.violation(rule, f"{finst}::guard", file=PG, line=fr['line'], func=fname, expected='unconditional', found=[show(x) for x in cond],
                              detail='field constructed under a condition')
            for slot in slots:
                e = canon(er['ctor'][slot])
                fnd = fr['args'].get(slot)
                nontrivial = e not in (NONE, C(False))
                if slot == 'value' and e == ('placeholder',):
                    okv = fnd is not None and sym.is_const(fnd)
                    chk.check(okv, rule, f"{finst}::{slot}", file=PG, line=fr['line'], func=fname,
                              expected='placeholder constant (overwritten after the key field)', found=show(fnd) if fnd else 'absent')
                    continue
                if fnd is None:
                    # dataclass default applies
                    from .gen import dataclass_defaults
                    dflt = dataclass_defaults(program.cls('message', 'NMEA2000Field')).get(slot)
                    okd = dflt is not None and canon(dflt) == e
                    chk.check(okd, rule, f"{finst}::{slot}", file=PG, line=fr['line'], func=fname, expected=show(e), found=f"argument absent (dataclass default {show(dflt) if dflt is not None else 'none'})",
                              nontrivial=nontrivial)
                    continue
                ok = (fnd == e)
                chk.check(ok, rule, f"{finst}::{slot}", file=PG, line=fr['line'], func=fname, expected=show(e), found=show(fnd),
                          detail='' if ok else _diff(e, fnd), nontrivial=nontrivial)
                if slot == 'type' and ok:
                    chk.check(f.type in members['FieldTypes'], rule, f"{finst}::type-member", file='nmea2000/consts.py', line=0,
                              expected=f"FieldTypes.{f.type} defined", found='missing', nontrivial=False)
                if slot == 'physical_quantities' and ok and f.quantity:
                    chk.check(f.quantity in members['PhysicalQuantities'], rule, f"{finst}::quantity-member", file='nmea2000/consts.py', line=0,
                              expected=f"PhysicalQuantities.{f.quantity} defined", found='missing', nontrivial=False)
            if f.offset is not None:
                offset_fields.append((d, f, fname, fr))
        if with_flow:
            # stores: exactly the indirect-lookup overwrites
            exp_stores = [(canon(er['post'][0]), canon(er['post'][1]), i + 1) for i, er in enumerate(rows_exp) if er['post']]
            fstores = [(a, b, after) for (a, b, ln, after) in t.stores]
            for (a, b, after) in exp_stores:
                hit = [(x, y, z) for (x, y, z) in fstores if x == a]
                okk = bool(hit) and hit[0][1] == b and hit[0][2] == after
                chk.check(okk, rule, f"{fname}::indirect-store@{after}", file=PG, line=line, func=fname,
                          expected=f"{show(a)} = {show(b)} after field {after}",
                          found=[f"{show(x)} = {show(y)} after field {z}" for x, y, z in hit] or 'absent')
            for (x, y, z) in fstores:
                if not any(x == a for a, _, _ in exp_stores):
                    chk.violation(rule, f"{fname}::store@{z}", file=PG, line=line, func=fname, expected='no store', found=f"{show(x)} = {show(y)}",
                                  detail='decoder overwrites an attribute the database does not ask for')
            # return
            if complete:
                okr = t.ret is not None and t.ret[1] == t.msg and not [x for x in t.ret[0] if x not in {a for a, _, _ in t.asserts}]
                chk.check(okr, rule, f"{fname}::return", file=PG, line=t.ret[2] if t.ret else line, func=fname,
                          expected='return <the message constructed in this call>', found=show(t.ret[1]) if t.ret else 'no return', nontrivial=False)
            if t.other:
                for o, ln in t.other[:3]:
                    chk.unknown(rule, fname, f"unrecognised statement/effect {sym.show(o) if isinstance(o, tuple) and o and isinstance(o[0], str) else o}", PG, ln)
    chk.unit('definitions', len(db.defs))
    chk.unit('definitions_shadowed_by_a_later_one_of_the_same_pgn', shadowed)
    chk.unit('decoders_matched', ndefs)
    chk.unit('field_rows', nrows)
    return offset_fields

def _diff(e, f):
    """first differing sub-term, for the report"""
    if not (isinstance(e, tuple) and isinstance(f, tuple)):
        return f"{e!r} != {f!r}"
    if e[0] != f[0] or len(e) != len(f):
        return f"{show(e)} != {show(f)}"
    if e[0] == 'call':
        if e[1] != f[1]:
            return f"callee {show(e[1])} != {show(f[1])}"
        if len(e[2]) != len(f[2]):
            return f"{show(e[1])}: {len(e[2])} arguments expected, {len(f[2])} found"
        for i, (a, b) in enumerate(zip(e[2], f[2])):
            if a != b:
                return f"{show(e[1])} argument {i}: " + _diff(a, b)
        return f"keywords differ: {e[3]} != {f[3]}"
    for a, b in zip(e[1:], f[1:]):
        if a != b:
            if isinstance(a, tuple) and isinstance(b, tuple) and a and b and isinstance(a[0], str) and isinstance(b[0], str):
                return _diff(a, b)
            return f"{show(e)} != {show(f)}"
    return ''

# ---------------------------------------------------------------------------
def gen_tab(chk, program, rule='GEN-TAB'):
    """lookup tables literal-evaluated and compared entry by entry with the database"""
    db, g = program.db, program.gen
    total = 0
    for tname, dbt in (('master_dict', db.lookups), ('master_flags_dict', db.bitlookups), ('master_indirect_lookup_dict', db.indirect)):
        if tname not in g.tables:
            raise AnalysisError(f"anchor pgns.{tname} vanished or is no longer a dictionary literal")
        s = g.tables[tname]
        outer = s['dict']
        found = {}
        for k, v, ln in outer:
            if k in found:
                chk.violation(rule, f"{tname}[{k!r}]::duplicate", file=PG, line=ln, expected='one entry', found='duplicate key')
            found[k] = (v, ln)
        for ename, entries in dbt.items():
            inst = f"{tname}[{ename!r}]"
            if ename not in found:
                chk.violation(rule, f"{inst}::exists", file=PG, line=s['line'], expected='enumeration present', found='absent')
                continue
            inner, ln = found[ename]
            if not isinstance(inner, list):
                chk.violation(rule, f"{inst}::exists", file=PG, line=ln, expected='dictionary', found=repr(inner)[:60])
                continue
            # python dict-display semantics: last duplicate wins
            eff = {}
            for k, v, l2 in inner:
                eff[k] = (v, l2)
            # database: a duplicated key there is resolved the same way (last wins) by the generator
            exp = {}
            for k, v in entries:
                exp[k] = v
            for k, v in exp.items():
                total += 1
                if k not in eff:
                    chk.violation(rule, f"{inst}[{k!r}]", file=PG, line=ln, expected=v, found='absent')
                else:
                    chk.check(eff[k][0] == v, rule, f"{inst}[{k!r}]", file=PG, line=eff[k][1], expected=v, found=eff[k][0])
            for k in eff:
                if k not in exp:
                    chk.violation(rule, f"{inst}[{k!r}]", file=PG, line=eff[k][1], expected='absent', found=eff[k][0], detail='entry not in the database')
        for k in found:
            if k not in dbt:
                chk.violation(rule, f"{tname}[{k!r}]::exists", file=PG, line=found[k][1], expected='absent', found='enumeration not in the database')
    chk.unit('table_entries', total)
    return total

# ---------------------------------------------------------------------------
def extract_match(t, P):
    """(((P >> off) & mask) == match)  ->  (off, mask, match) ; operands may be swapped"""
    if t[0] != 'cmp' or t[1] != '==':
        return None
    for a, b in ((t[2], t[3]), (t[3], t[2])):
        if sym.is_const(b) and isinstance(b[1], int) and not isinstance(b[1], bool):
            x = a
            if x[0] == 'binop' and x[1] == '&':
                for m, y in ((x[3], x[2]), (x[2], x[3])):
                    if sym.is_const(m) and isinstance(m[1], int):
                        if y == P:
                            return (0, m[1], b[1])
                        if y[0] == 'binop' and y[1] == '>>' and y[2] == P and sym.is_const(y[3]):
                            return (y[3][1], m[1], b[1])
    return None

def dispatcher_arms(s):
    """events of a dispatcher -> (arms [(guard_conjuncts, target_name, argterm, line)], final (target or None, line))"""
    P = ('param', s['params'][0]) if s.get('params') else None
    rets = [e for e in s['events'] if e[0] == 'return']
    arms = []
    final = None
    for e in rets:
        guard, val, line = e[1], e[2], e[-1]
        pos = [c for c in sym.conj(guard) if not (c[0] == 'unop' and c[1] == 'not')]
        neg = [c for c in sym.conj(guard) if (c[0] == 'unop' and c[1] == 'not')]
        if val[0] == 'call' and val[1][0] == 'name':
            tgt = val[1][1]; arg = val[2]
        elif val == NONE:
            tgt = None; arg = ()
        else:
            tgt = ('?', val); arg = ()
        if pos:
            arms.append((pos, tgt, arg, line, guard))
        else:
            final = (tgt, arg, line, guard)
    return P, arms, final

_SRC_CACHE = {}

def _function_ast(program, s):
    """the syntax tree of one generated function, re-parsed from its line range (the summaries do not keep trees)"""
    import os
    path = os.path.join(program.pkgdir, 'pgns.py')
    if path not in _SRC_CACHE:
        _SRC_CACHE.clear()
        _SRC_CACHE[path] = open(path, encoding='utf-8').read().split('\n')
    lines = _SRC_CACHE[path]
    src = '\n'.join(lines[s['line'] - 1: s['end']])
    tree = ast.parse(src)
    ast.increment_lineno(tree, s['line'] - 1)
    return tree.body[0]

_PGNS_ENV = {}
def _pgns_module_env(program):
    """module-level names of pgns.py for the interpreter (parsed once, only when a dispatcher has to be interpreted)"""
    import os
    from . import absint as A
    path = os.path.join(program.pkgdir, 'pgns.py')
    if path not in _PGNS_ENV:
        _PGNS_ENV.clear()
        tree = ast.parse(open(path, encoding='utf-8').read())
        env = A.ModuleEnv(tree)
        from .rules_help import helpers
        for k, v in helpers(program).items():        # `from .utils import *`
            env.funcs.setdefault(k, v)
        _PGNS_ENV[path] = env
    return _PGNS_ENV[path]

def disp_interpreted(program, grp, s):
    """the dispatcher run by the abstract interpreter on concrete payloads: one per database definition (its match fields set, everything else at
    a value nobody compares with), every deviation of one matched field to another constant of the group / of the function and to a value that
    is none of them, and every pair of definitions merged; with further payload bits set.  The variant function it calls (or None) is compared
    with the database's first-match rule.  -> ('equal', n) | ('diff', text) | ('unknown', why)"""
    from . import absint as A
    try:
        fn = _function_ast(program, s)
    except (SyntaxError, IndexError) as u:
        return ('unknown', str(u))
    menv = _pgns_module_env(program)
    fields = {}
    for d in grp.defs:
        for f in d.match_fields:
            fields.setdefault((f.bit_offset, f.bit_length), set()).add(f.match)
    consts_in_fn = {n.value for n in ast.walk(fn) if isinstance(n, ast.Constant) and isinstance(n.value, int) and not isinstance(n.value, bool)}
    cand = {}
    for (o, ln), vals in fields.items():
        vs = set(vals) | {c for c in consts_in_fn if 0 <= c < (1 << ln)}
        other = next((v for v in range(1, 1 << ln) if v not in vs), None)
        cand[(o, ln)] = sorted(vs) + ([other] if other is not None else [])
    top = max([o + ln for (o, ln) in fields] or [0])
    def compose(assign):
        raw = 0b1011 << (top + 3)          # other payload bits are set: nothing but the match fields may decide
        for (o, ln), v in assign.items():
            raw |= v << o
        return raw
    def base_for(d, start=None):
        a = dict(start) if start else {k: cand[k][-1] for k in fields}
        for f in d.match_fields:
            a[(f.bit_offset, f.bit_length)] = f.match
        return a
    assigns = []
    for d in grp.defs:
        b = base_for(d)
        assigns.append(b)
        for k in fields:
            for v in cand[k]:
                b2 = dict(b); b2[k] = v
                assigns.append(b2)
        for e_ in grp.defs:
            if e_ is not d:
                assigns.append(base_for(e_, base_for(d)))
    assigns.append({k: cand[k][-1] for k in fields})
    seen = set()
    def expected(vals):
        for d in grp.defs:
            if d.fallback:
                continue
            if all(vals[(f.bit_offset, f.bit_length)] == f.match for f in d.match_fields):
                return decoder_name(d)
        return decoder_name(grp.fallback) if grp.fallback else None
    n = 0
    diffs = {}
    for a in assigns:
        # overlapping match fields: the later assignment wins in compose(); read the fields back from the payload
        raw = compose(a)
        if raw in seen:
            continue
        seen.add(raw)
        vals = {(o, ln): (raw >> o) & ((1 << ln) - 1) for (o, ln) in fields}
        called = []
        def hook(it, call, env):
            f = call.func
            nm = f.id if isinstance(f, ast.Name) else None
            target = None
            if nm and nm.startswith('decode_pgn_') and nm not in env:
                target = nm
            elif nm and isinstance(env.get(nm), A.AOpaque) and str(env[nm].what).startswith('decode_pgn_'):
                target = env[nm].what
            elif nm and isinstance(env.get(nm), A.AFunc) and env[nm].fn.name.startswith('decode_pgn_') and env[nm].fn.name != fn.name:
                target = env[nm].fn.name
            elif not nm and isinstance(f, (ast.Subscript, ast.Call, ast.IfExp, ast.Attribute)):
                try:
                    v_ = it.expr(f, env)
                except A.Unknown:
                    v_ = None
                if isinstance(v_, A.AFunc) and v_.fn.name.startswith('decode_pgn_') and v_.fn.name != fn.name:
                    target = v_.fn.name
            if target is not None:
                args = [it.expr(x, env) for x in call.args]
                called.append((target, args))
                return A.AObj(called=target)
            return NotImplemented
        try:
            it = A.Interp(hook=hook, module=menv, skip=lambda c: False)
            r = it.call_function(fn, [A.AInt(raw)])
        except (A.Unknown, A.RaiseSignal, RecursionError, AttributeError, TypeError, KeyError) as u:
            return ('unknown', f"dispatcher not interpretable: {type(u).__name__}: {u}"[:200])
        want = expected(vals)
        if r is not None and not (isinstance(r, A.AObj) and 'called' in r.attrs):
            return ('unknown', f"the dispatcher's result was not followed by the interpreter: {r!r}"[:160])
        if want is None:
            okv = r is None and not called
        else:
            okv = isinstance(r, A.AObj) and r.attrs.get('called') == want and len(called) == 1 and len(called[0][1]) == 1 and isinstance(called[0][1][0], A.AInt) and called[0][1][0].v == raw
        n += 1
        if not okv:
            desc = ', '.join(f"bits {o}..{o + ln - 1} = {v}" for (o, ln), v in sorted(vals.items()))
            gd = (r.attrs.get('called') if isinstance(r, A.AObj) else repr(r))
            if isinstance(r, A.AObj) and r.attrs.get('called') == want:
                gd = f"{gd} (not called once with the payload)"
            diffs.setdefault((want, gd), f"payload with {desc}: database selects {want}, the dispatcher selects {gd}")
    if diffs:
        return ('diff', next(iter(diffs.values())), diffs)
    return ('equal', n)

def disp_semantic(program, grp, s):
    r = _disp_semantic_table(program, grp, s)
    if r[0] == 'unknown':
        r2 = disp_interpreted(program, grp, s)
        if r2[0] != 'unknown':
            return r2
        return ('unknown', r[1] + ' / ' + r2[1])
    return r

def _disp_semantic_table(program, grp, s):
    """the dispatcher as a decision table.  Its guards consult the payload only through bit-field comparisons with constants (the utils helpers it
    calls are inlined), so the payload space falls into finitely many classes: per bit field, each constant it is compared with (by the database or
    by the dispatcher) and one value that is none of them.  Every class is evaluated (teval on the extracted terms) and compared with the database's
    first-match rule.  -> ('equal', n) | ('diff', description) | ('unknown', why)"""
    import itertools
    from . import teval
    from .rules_help import helpers
    try:
        fn = _function_ast(program, s)
        ex = sym.SymExec(fn, inline=helpers(program))
        ex.run()
    except (sym.Unsupported, SyntaxError, IndexError) as u:
        return ('unknown', f"dispatcher not walkable: {u}")
    P = ('param', ex.params[0])
    fields = {}
    for d in grp.defs:
        for f in d.match_fields:
            fields.setdefault((f.bit_offset, f.bit_length), set()).add(f.match)
    # atoms of the dispatcher: ((P >> o) & m) == c in any nesting; anything else that mentions the payload makes the table unsafe
    def atoms(t, acc):
        m = extract_match(t, P) if t[0] == 'cmp' else None
        if m is not None:
            acc.append(m); return
        if t[0] == 'cmp' and t[1] in ('==', '!=') :
            # (field expression) == const with the field expression given by a helper that was inlined: ((P >> o) & ((1 << n) - 1)) folds to the same shape
            pass
        for x in t[1:]:
            if isinstance(x, tuple):
                if x and isinstance(x[0], str):
                    atoms(x, acc)
                else:
                    for y in x:
                        if isinstance(y, tuple) and y and isinstance(y[0], str):
                            atoms(y, acc)
                        elif isinstance(y, tuple):
                            for z in y:
                                if isinstance(z, tuple) and z and isinstance(z[0], str):
                                    atoms(z, acc)
    acc = []
    rets = [e for e in ex.events if e[0] == 'return']
    if any(e[0] not in ('return', 'expr') for e in ex.events):
        return ('unknown', 'the dispatcher does more than return')
    for e in rets:
        for gterm in e[1]:
            atoms(gterm, acc)
        atoms(e[2], acc)
    # field reads without comparison (a local holding the field, used as a dictionary key): (P >> o) & m
    def reads(t, out):
        if t[0] == 'binop' and t[1] == '&':
            for m_, y in ((t[3], t[2]), (t[2], t[3])):
                if sym.is_const(m_) and isinstance(m_[1], int) and m_[1] > 0 and (m_[1] + 1) & m_[1] == 0:
                    if y == P:
                        out.add((0, m_[1].bit_length()))
                    elif y[0] == 'binop' and y[1] == '>>' and y[2] == P and sym.is_const(y[3]):
                        out.add((y[3][1], m_[1].bit_length()))
        for x in t[1:]:
            if isinstance(x, tuple):
                if x and isinstance(x[0], str):
                    reads(x, out)
                else:
                    for y in x:
                        if isinstance(y, tuple) and y and isinstance(y[0], str):
                            reads(y, out)
                        elif isinstance(y, tuple):
                            for z in y:
                                if isinstance(z, tuple) and z and isinstance(z[0], str):
                                    reads(z, out)
    rd = set()
    consts_in_fn = {n.value for n in ast.walk(fn) if isinstance(n, ast.Constant) and isinstance(n.value, int) and not isinstance(n.value, bool)}
    for e in rets:
        for gterm in e[1]:
            reads(gterm, rd)
        reads(e[2], rd)
    # constraints: (offset, length, constant) from the database and from the dispatcher; reads without a constant (dictionary keys) take the
    # integer literals of the function as candidate values
    cons = []
    for (o, ln), vals in fields.items():
        for v in vals:
            cons.append((o, ln, v))
    atom_fields = set()
    for (o, mk, c) in acc:
        if mk <= 0 or (mk + 1) & mk != 0:
            return ('unknown', f"comparison under a non-contiguous mask {mk:#x}")
        cons.append((o, mk.bit_length(), c))
        atom_fields.add((o, mk.bit_length()))
    for (o, n) in rd:
        if (o, n) not in atom_fields:
            for c in consts_in_fn:
                if 0 <= c < (1 << n):
                    cons.append((o, n, c))
        fields.setdefault((o, n), set())
    # disjoint bit segments
    cuts = sorted({o for o, ln, _ in cons} | {o + ln for o, ln, _ in cons} | {o for o, ln in fields} | {o + ln for o, ln in fields})
    segs = [(a_, b_) for a_, b_ in zip(cuts, cuts[1:]) if any(o <= a_ and b_ <= o + ln for o, ln in list(fields) + [(o2, l2) for o2, l2, _ in cons])]
    seg_vals = []
    for (a_, b_) in segs:
        w = b_ - a_
        vs = set()
        for o, ln, c in cons:
            if o <= a_ and b_ <= o + ln:
                vs.add((c >> (a_ - o)) & ((1 << w) - 1))
        other = next((v for v in range(1 << w) if v not in vs), None) if len(vs) < (1 << w) else None
        seg_vals.append((sorted(vs), other))
    def compose(choice):
        raw = 0
        for (a_, b_), v in zip(segs, choice):
            raw |= v << a_
        return raw
    def field_vals(raw):
        return {(o, ln): (raw >> o) & ((1 << ln) - 1) for (o, ln) in fields}
    total = 1
    for vs, other in seg_vals:
        total *= len(vs) + (1 if other is not None else 0)
    payloads = []
    if total <= 20000:
        for combo in itertools.product(*[vs + ([other] if other is not None else []) for vs, other in seg_vals]):
            payloads.append(compose(combo))
    else:
        # centres: one payload per database definition (its match fields set, every other segment at a value nobody compares with), then every
        # single-segment deviation from a centre, and every pair of centres merged (the later definition's fields laid over the earlier one's)
        def centre(d, base=None):
            ch = [other if other is not None else vs[0] for vs, other in seg_vals] if base is None else list(base)
            for f in d.match_fields:
                for i, (a_, b_) in enumerate(segs):
                    if f.bit_offset <= a_ and b_ <= f.bit_offset + f.bit_length:
                        ch[i] = (f.match >> (a_ - f.bit_offset)) & ((1 << (b_ - a_)) - 1)
            return ch
        centres = [centre(d) for d in grp.defs]
        centres.append([other if other is not None else vs[0] for vs, other in seg_vals])
        seenp = set()
        for ch in centres:
            seenp.add(tuple(ch))
            for i, (vs, other) in enumerate(seg_vals):
                for v in vs + ([other] if other is not None else []):
                    c2 = list(ch); c2[i] = v
                    seenp.add(tuple(c2))
        for d in grp.defs:
            for e_ in grp.defs:
                if d is not e_:
                    seenp.add(tuple(centre(e_, centre(d))))
        payloads = [compose(c) for c in seenp]
        if len(payloads) > 200000:
            return ('unknown', f"{len(payloads)} payload classes")
    def expected(vals):
        for d in grp.defs:
            if d.fallback:
                continue
            okd = True
            for f in d.match_fields:
                if vals[(f.bit_offset, f.bit_length)] != f.match:
                    okd = False; break
            if okd:
                return decoder_name(d)
        return decoder_name(grp.fallback) if grp.fallback else None
    class FN:
        def __init__(self, name): self.name = name
        def __eq__(self, o): return isinstance(o, FN) and o.name == self.name
        def __hash__(self): return hash(self.name)
    class Names(dict):
        def __contains__(self, k): return isinstance(k, str) and k.startswith('decode_pgn_')
        def __getitem__(self, k): return FN(k)
    n = 0
    diffs = {}
    for raw in payloads:
        vals = field_vals(raw)
        def calls(evf, t, raw=raw):
            f = t[1]
            try:
                fv = evf(f, model)
            except teval.EvalUnknown:
                raise
            if isinstance(fv, FN):
                args = [evf(a, model) for a in t[2]]
                return ('CALLED', fv.name, tuple(args))
            raise teval.EvalUnknown(show(t)[:80])
        model = teval.Model(params={ex.params[0]: raw}, names=Names({'$': 0}), calls=calls)
        try:
            i, e = teval.first_true(ex.events, model)
            if e is None:
                got = ('fall',)
            else:
                v = teval.ev(e[2], model)
                got = v
        except teval.EvalUnknown as u:
            return ('unknown', f"not evaluable: {u}")
        except Exception as u:
            return ('unknown', f"{type(u).__name__}: {u}")
        want = expected(vals)
        if want is None:
            okv = got is None
        else:
            okv = isinstance(got, tuple) and got[:2] == ('CALLED', want) and got[2] == (raw,)
        n += 1
        if not okv:
            desc = ', '.join(f"bits {o}..{o + ln - 1} = {v}" for (o, ln), v in sorted(vals.items()))
            gd = got[1] if isinstance(got, tuple) and got and got[0] == 'CALLED' else got
            if gd == want:
                gd = f"{gd} (with another argument than the payload)"
            diffs.setdefault((want, str(gd)), f"payload with {desc}: database selects {want}, the dispatcher selects {gd}")
    if diffs:
        return ('diff', next(iter(diffs.values())), diffs)
    return ('equal', n)

def _emit_disp_diffs(chk, rule, fname, line, sem):
    for (want, got), desc in sorted(sem[2].items(), key=lambda kv: (str(kv[0][0]), str(kv[0][1]))):
        chk.violation(rule, f"{fname}::selects::{got}::where-the-database-selects::{want}", file=PG, line=line, func=fname,
                      expected=f"{want} (the database's first-match rule)", found=str(got), detail='witness: ' + desc)

class _Pending:
    """collects the structural obligations of one dispatcher so that they can be dropped when the decision table proves the dispatcher right"""
    def __init__(self):
        self.items = []
    def check(self, cond, rule, inst, **kw):
        self.items.append((bool(cond), rule, inst, kw)); return cond
    def anchor(self, cond, rule, inst, **kw):
        return self.check(cond, rule, inst, **kw)
    def violation(self, rule, inst, **kw):
        self.items.append((False, rule, inst, kw))
    def ok(self, rule, inst, **kw):
        self.items.append((True, rule, inst, kw))

def disp(chk, program, rule='DISP'):
    db, g = program.db, program.gen
    narms = 0; ncmp = 0; ndisp = 0
    real_chk = chk
    for pgn, grp in db.groups.items():
        if not grp.complex:
            continue
        fname = f"decode_pgn_{pgn}"
        if fname not in g.funcs:
            chk.violation(rule, f"{fname}::exists", file=PG, line=0, expected='dispatcher', found='absent')
            continue
        s = g.funcs[fname]
        ndisp += 1
        exp_arms = [d for d in grp.defs if not d.fallback]
        if 'unsupported' in s:
            # the guard extractor cannot walk it: interpreted instead
            sem = disp_interpreted(program, grp, s)
            if sem[0] == 'equal':
                chk.ok(rule, f"{fname}::decision-table", file=PG, line=s['line'], func=fname, detail=f"{sem[1]} payloads select the database's definition (dispatcher interpreted)")
                narms += len(exp_arms)
            elif sem[0] == 'diff':
                _emit_disp_diffs(chk, rule, fname, s['line'], sem)
            else:
                chk.unknown(rule, fname, s['unsupported'] + ' / ' + sem[1], PG, s['line'])
            continue
        P, arms, final = dispatcher_arms(s)
        chk = _Pending()
        chk.check(len(arms) == len(exp_arms), rule, f"{fname}::arm-count", file=PG, line=s['line'], func=fname,
                  expected=len(exp_arms), found=len(arms))
        # every event must be a return; nothing else may happen in a dispatcher
        for e in s['events']:
            if e[0] not in ('return',):
                chk.violation(rule, f"{fname}::effect", file=PG, line=e[-1], func=fname, expected='only guarded returns', found=e[0])
        seen_prev = []
        for i, d in enumerate(exp_arms):
            inst = f"{fname}::arm{i}:{d.id}"
            if i >= len(arms):
                chk.violation(rule, f"{inst}::exists", file=PG, line=s['line'], func=fname, expected=f"arm for {d.id}", found='absent')
                continue
            pos, tgt, arg, line, guard = arms[i]
            narms += 1
            # first-match: arm i is reached exactly when all previous guards failed: its guard's
            # negative part must be the negations of the previous arms' conditions (if/return chain)
            exp_cmp = sorted(((f.bit_offset, (1 << f.bit_length) - 1, f.match) for f in d.match_fields))
            got = []
            bad = []
            for c in pos:
                m = extract_match(c, P)
                if m is None:
                    bad.append(show(c))
                else:
                    got.append(m)
            ncmp += len(exp_cmp)
            if bad and exp_cmp:
                chk.violation(rule, f"{inst}::guard", file=PG, line=line, func=fname,
                              expected=[list(x) for x in exp_cmp], found=bad, detail='guard is not a conjunction of (payload>>off)&mask == match')
            elif bad and not exp_cmp:
                # a definition without match fields matches vacuously: its guard must be true
                chk.violation(rule, f"{inst}::guard", file=PG, line=line, func=fname,
                              expected='always true (definition has no match fields)', found=bad,
                              detail='vacuously matching definition is guarded by a condition')
            else:
                chk.check(sorted(got) == exp_cmp, rule, f"{inst}::guard", file=PG, line=line, func=fname,
                          expected=[list(x) for x in exp_cmp], found=[list(x) for x in sorted(got)],
                          detail='(bit offset, mask, match value) per match field')
            chk.check(tgt == decoder_name(d) and tuple(arg) == (P,), rule, f"{inst}::target", file=PG, line=line, func=fname,
                      expected=f"{decoder_name(d)}({P[1]})", found=f"{tgt}({', '.join(show(a) for a in arg)})")
        if len(arms) < len(exp_arms) or any(True for _ in ()):
            pass
        # arms dropped because their guard folded to a constant
        fb = grp.fallback
        expf = decoder_name(fb) if fb else None
        if final is None:
            chk.violation(rule, f"{fname}::final", file=PG, line=s['line'], func=fname, expected=expf or 'return None', found='no final return')
        else:
            tgt, arg, line, guard = final
            okf = (tgt == expf) and (fb is None or tuple(arg) == (P,))
            chk.check(okf, rule, f"{fname}::final", file=PG, line=line, func=fname, expected=expf or 'None', found=str(tgt))
        pend, chk = chk, real_chk
        if all(okk for okk, *_ in pend.items):
            for okk, r_, inst_, kw in pend.items:
                chk.ok(r_, inst_, **kw)
            continue
        # the structural reading found a difference: is it a difference in behaviour?  the decision table decides
        sem = disp_semantic(program, grp, s)
        if sem[0] == 'equal':
            for okk, r_, inst_, kw in pend.items:
                if okk:
                    chk.ok(r_, inst_, **kw)
            chk.ok(rule, f"{fname}::decision-table", file=PG, line=s['line'], func=fname, detail=f"{sem[1]} payload classes select the database's definition (another spelling of the same dispatcher)")
            narms += max(0, len(exp_arms) - min(len(arms), len(exp_arms)))      # arms the table covered although the structural reading did not see them
        elif sem[0] == 'diff':
            # reported by what goes wrong, not by where the spelling differs: one finding per (definition the database selects, what the
            # dispatcher selects instead), the same whatever shape the dispatcher has
            for okk, r_, inst_, kw in pend.items:
                if okk:
                    chk.ok(r_, inst_, **kw)
            _emit_disp_diffs(chk, rule, fname, s['line'], sem)
        else:
            for okk, r_, inst_, kw in pend.items:
                if okk:
                    chk.ok(r_, inst_, **kw)
            chk.unknown(rule, fname, f"dispatcher not of the recognised shape and its decision table could not be built: {sem[1]}", PG, s['line'])
    chk = real_chk
    chk.unit('dispatchers', ndisp); chk.unit('arms', narms); chk.unit('comparisons', ncmp)
    return ndisp, narms, ncmp

def disp_reach(chk, program, rule='DISP-REACH'):
    """leaves of complex PGNs are referenced only from their dispatcher"""
    db, g = program.db, program.gen
    leaves = {}
    for pgn, grp in db.groups.items():
        if grp.complex:
            for d in grp.defs:
                leaves[decoder_name(d)] = f"decode_pgn_{pgn}"
    n = 0
    for fname, s in g.funcs.items():
        for e in s['events']:
            for t in e[2:-1]:
                if isinstance(t, tuple):
                    for sub in sym.walk(t):
                        if sub[0] == 'name' and sub[1] in leaves and fname != leaves[sub[1]]:
                            chk.violation(rule, f"{fname}->{sub[1]}", file=PG, line=e[-1], func=fname,
                                          expected=f"only {leaves[sub[1]]} refers to {sub[1]}", found=f"reference in {fname}")
    # hand-written modules: any textual Name reference to a leaf
    for mname, m in program.modules.items():
        for node in ast.walk(m.tree):
            if isinstance(node, ast.Name) and node.id in leaves:
                chk.violation(rule, f"{mname}->{node.id}", file=m.rel(), line=node.lineno, expected='no direct reference', found=node.id)
            if isinstance(node, ast.Constant) and isinstance(node.value, str) and node.value in leaves:
                chk.violation(rule, f"{mname}->{node.value}", file=m.rel(), line=node.lineno, expected='no direct reference', found=node.value)
    for l in leaves:
        n += 1
        chk.ok(rule, f"{l}", file=PG, line=g.funcs[l]['line'] if l in g.funcs else 0, nontrivial=True)
    return n

def fp_type(chk, program, rule='FP-TYPE'):
    db, g = program.db, program.gen
    n = 0
    for pgn, grp in db.groups.items():
        fname = f"is_fast_pgn_{pgn}"
        if fname not in g.funcs:
            chk.violation(rule, f"{fname}::exists", file=PG, line=0, expected='defined', found='absent')
            continue
        s = g.funcs[fname]
        n += 1
        rets = [e for e in s['events'] if e[0] == 'return']
        raises = [e for e in s['events'] if e[0] == 'raise']
        exp = grp.is_fast
        if exp is None:
            chk.check(bool(raises) and not rets, rule, fname, file=PG, line=s['line'], expected=f"raise (type {grp.defs[0].type} unsupported)",
                      found='returns' if rets else 'nothing', nontrivial=False)
        else:
            okk = len(rets) == 1 and not rets[0][1] and rets[0][2] == C(exp) and not raises and not s.get('params')
            chk.check(okk, rule, fname, file=PG, line=s['line'], expected=f"return {exp}", found=[show(r[2]) for r in rets] or 'raise')
    extra = [f for f in g.names('is_fast_pgn_') if int_or_none(f[len('is_fast_pgn_'):]) not in db.groups]
    for f in extra:
        chk.violation(rule, f"{f}::extra", file=PG, line=g.funcs[f]['line'], expected='absent (PGN not in database)', found='defined')
    chk.unit('is_fast_functions', n)
    return n

def int_or_none(s):
    try:
        return int(s)
    except ValueError:
        return None

# ---------------------------------------------------------------------------
# decoders: raises / asserts inventory
# ---------------------------------------------------------------------------
def gen_raise(chk, program, rule='GEN-RAISE'):
    """explicit raise / assert inventory of each leaf decoder"""
    db = program.db
    tabs = decoder_tables(program)
    n = 0
    for d in db.defs:
        fname = decoder_name(d)
        if fname not in tabs:
            continue
        t = tabs[fname]
        fields, complete = d.supported_prefix()
        for (term, line, after) in t.asserts:
            n += 1
            tv = _const_false_assert(term)
            inst = f"{fname}::assert@{after}:{_assert_key(term)}"
            if tv:
                chk.violation(rule, inst, file=PG, line=line, func=fname, expected='an assertion that can hold', found=show(term),
                              detail=f"assertion is false for every payload ({tv}); definition {d.key} can never be decoded")
            else:
                chk.ok(rule, inst, file=PG, line=line, func=fname, found=show(term))
        for (guard, term, line, after) in t.raises:
            n += 1
            inst = f"{fname}::raise@{after}"
            if not complete and after == len(fields) and not guard:
                chk.ok(rule, inst, file=PG, line=line, func=fname, found='unsupported-field-type raise', nontrivial=False)
            else:
                chk.violation(rule, inst, file=PG, line=line, func=fname, expected='no raise (every field of the definition is of a supported type)' if complete else f"raise only after field {len(fields)}",
                              found=show(term), detail='decoder raises although the database definition is decodable here')
        if complete and not t.raises:
            chk.ok(rule, f"{fname}::no-raise", file=PG, line=t.s['line'], func=fname, nontrivial=False)
        if not complete and not any(a == len(fields) and not g for g, _, _, a in t.raises):
            if len(t.rows) > len(fields):
                chk.unknown(rule, f"{fname}::unsupported-raise", f"no raise at field type {d.fields[len(fields)].type}: the decoder handles a type the reference does not describe", PG, t.s['line'])
            else:
                chk.violation(rule, f"{fname}::unsupported-raise", file=PG, line=t.s['line'], func=fname,
                              expected=f"raise at unsupported field type {d.fields[len(fields)].type}", found='none')
    chk.unit('raise_assert_sites', n)

def _assert_key(term):
    s = show(term)
    return s if len(s) < 60 else s[:60]

def _const_false_assert(term):
    """contradiction rule: `x is int` / `x is <type name>` where x is the result of a
    decode helper (an int/float/None value) can never be true"""
    if term[0] == 'cmp' and term[1] == 'is' and term[3][0] == 'name' and term[3][1] in ('int', 'float', 'str', 'bytes', 'bool'):
        if term[2][0] in ('call', 'const', 'binop', 'tupidx'):
            return f"`is {term[3][1]}` compares a value with the type object itself"
    if sym.is_const(term) and not term[1]:
        return 'constant false'
    return None

def gen_offset(chk, program, offset_fields, rule='GEN-OFFSET'):
    """database Offset must be applied between scaling and range check: the
    decode_number call carries no offset parameter, so the producer term must add it"""
    n = 0
    for d, f, fname, fr in offset_fields:
        n += 1
        v = fr['args'].get('value')
        has = False
        if v is not None:
            for sub in sym.walk(v):
                # accepted shapes: <scaled> + Offset / Offset + <scaled> / <scaled> - (-Offset),
                # or a helper call that is handed the offset as an extra (8th / keyword) argument
                if sub[0] == 'binop' and sub[1] in ('+', '-'):
                    for a, b in ((sub[2], sub[3]), (sub[3], sub[2])):
                        want = f.offset if sub[1] == '+' else -f.offset
                        if sym.is_const(a) and a[1] == want and any(x[0] == 'call' for x in sym.walk(b)):
                            has = True
                if sub[0] == 'call' and sub[1][0] == 'name' and sub[1][1].startswith('decode_'):
                    if len(sub[2]) > 7 and sub[2][7] == C(f.offset):
                        has = True
                    if any(k == 'offset' and val == C(f.offset) for k, val in sub[3]):
                        has = True
        chk.check(has, rule, f"{fname}::{f.dbid}", file=PG, line=fr['line'], func=fname,
                  expected=f"Offset {f.offset} applied to the scaled value", found=show(v),
                  detail=f"database Offset={f.offset} is ignored: value = raw*{f.resolution} is compared with [{f.range_min},{f.range_max}]")
    chk.unit('offset_fields', n)
