"""bitprov.py -- bit-provenance domain over sym terms.

A value is a little-endian list of bits; each bit is 0, 1 or (symbol, k) meaning "bit k of input
`symbol`".  Integers are unbounded: a vector is implicitly zero-extended.  This is LLVM's
KnownBits with an origin attached to every unknown bit.  Transfer functions:

    const c            -> its binary digits
    param p (width w)  -> [(p,0) .. (p,w-1)]
    a & b              -> per bit: 0&x=0, 1&x=x, x&x=x, otherwise TOP (analysis gives up)
    a | b              -> per bit: 0|x=x, 1|x=1, x|x=x, otherwise TOP
    a ^ b              -> only with a constant-0 side per bit
    a << k, a >> k     -> shift by a constant
    ite(c, a, b)       -> resolved by the caller's branch assumption {c: bool}
    int.from_bytes / to_bytes with a constant length and byte order -> byte permutation

Because every obligation is per bit, a statement proved here holds for all 2^n input values.
"""
from __future__ import annotations

from . import sym

class Top(Exception):
    pass

class Overlap(Top):
    """two different unknown bits are combined into one position: the packing is not invertible"""

class NeedBranch(Exception):
    def __init__(self, cond):
        self.cond = cond

def const_bits(v):
    if v < 0:
        raise Top(f"negative constant {v}")
    out = []
    while v:
        out.append(v & 1)
        v >>= 1
    return out

def trim(v):
    v = list(v)
    while v and v[-1] == 0:
        v.pop()
    return v

def band(a, b):
    out = []
    for i in range(min(len(a), len(b))):
        x, y = a[i], b[i]
        if x == 0 or y == 0: out.append(0)
        elif x == 1: out.append(y)
        elif y == 1: out.append(x)
        elif x == y: out.append(x)
        else: raise Top(f"and of two unrelated unknown bits {x} & {y}")
    return trim(out)

def bor(a, b):
    out = []
    for i in range(max(len(a), len(b))):
        x = a[i] if i < len(a) else 0
        y = b[i] if i < len(b) else 0
        if x == 0: out.append(y)
        elif y == 0: out.append(x)
        elif x == 1 or y == 1: out.append(1)
        elif x == y: out.append(x)
        else: raise Overlap(f"or of two unrelated unknown bits {x} | {y} at bit {i} (fields overlap)")
    return trim(out)

def bxor(a, b):
    out = []
    for i in range(max(len(a), len(b))):
        x = a[i] if i < len(a) else 0
        y = b[i] if i < len(b) else 0
        if x == 0: out.append(y)
        elif y == 0: out.append(x)
        elif x == y: out.append(0)
        elif x in (0, 1) and y in (0, 1): out.append(x ^ y)
        else: raise Top("xor of unknown bits")
    return trim(out)

def shl(a, k):
    return trim([0] * k + list(a))

def shr(a, k):
    return trim(list(a)[k:])

def bits(t, widths, assume=None, env=None):
    """term -> bit vector.  widths: {param name: bit width}.  env: {term: vector} overrides (e.g. a call result treated as an input)"""
    assume = assume or {}
    env = env or {}
    if t in env:
        return list(env[t])
    k = t[0]
    if k == 'const':
        if isinstance(t[1], bool) or not isinstance(t[1], int):
            raise Top(f"non-integer constant {t[1]!r}")
        return const_bits(t[1])
    if k == 'param':
        if t[1] not in widths:
            raise Top(f"input {t[1]} has no declared width")
        return [(t[1], i) for i in range(widths[t[1]])]
    if k == 'binop':
        op = t[1]
        if op in ('<<', '>>'):
            if not sym.is_const(t[3]) or not isinstance(t[3][1], int):
                raise Top('shift by a non-constant')
            a = bits(t[2], widths, assume, env)
            return shl(a, t[3][1]) if op == '<<' else shr(a, t[3][1])
        if op in ('&', '|', '^'):
            a = bits(t[2], widths, assume, env); b = bits(t[3], widths, assume, env)
            return {'&': band, '|': bor, '^': bxor}[op](a, b)
        if op == '+':
            # a + b where the two vectors have disjoint support behaves like |
            a = bits(t[2], widths, assume, env); b = bits(t[3], widths, assume, env)
            for i in range(min(len(a), len(b))):
                if a[i] != 0 and b[i] != 0:
                    raise Overlap('addition of overlapping bit ranges')
            return bor(a, b)
        if op == '%' and sym.is_const(t[3]) and isinstance(t[3][1], int) and t[3][1] > 0 and (t[3][1] & (t[3][1] - 1)) == 0:
            a = bits(t[2], widths, assume, env)
            return trim(a[:t[3][1].bit_length() - 1])
        if op == '*' and sym.is_const(t[3]) and isinstance(t[3][1], int) and t[3][1] > 0 and (t[3][1] & (t[3][1] - 1)) == 0:
            return shl(bits(t[2], widths, assume, env), t[3][1].bit_length() - 1)
        if op == '//' and sym.is_const(t[3]) and isinstance(t[3][1], int) and t[3][1] > 0 and (t[3][1] & (t[3][1] - 1)) == 0:
            return shr(bits(t[2], widths, assume, env), t[3][1].bit_length() - 1)
        raise Top(f"operator {op}")
    if k == 'ite':
        c = t[1]
        if c in assume:
            return bits(t[2] if assume[c] else t[3], widths, assume, env)
        raise NeedBranch(c)
    raise Top(f"term kind {k}: {sym.show(t)[:80]}")

def pred_prov(cond, widths, assume=None, env=None):
    """a comparison predicate as (op, provenance vector of the left side, constant) -- opaque, used only for pairing branches"""
    if cond[0] == 'cmp' and sym.is_const(cond[3]):
        return (cond[1], tuple(bits(cond[2], widths, assume, env)), cond[3][1])
    if cond[0] == 'cmp' and sym.is_const(cond[2]):
        flip = {'<': '>', '>': '<', '<=': '>=', '>=': '<=', '==': '==', '!=': '!='}[cond[1]]
        return (flip, tuple(bits(cond[3], widths, assume, env)), cond[2][1])
    raise Top('predicate shape ' + sym.show(cond)[:80])

def branches(terms, widths, env=None):
    """evaluate a list of output terms under every combination of branch predicates that occurs.
    -> list of (assume dict, [vectors])"""
    out = []
    work = [dict()]
    while work:
        assume = work.pop()
        try:
            vs = [trim(bits(t, widths, assume, env)) for t in terms]
            out.append((assume, vs))
        except NeedBranch as nb:
            for val in (True, False):
                a2 = dict(assume); a2[nb.cond] = val
                work.append(a2)
    return out

def substitute(vec, mapping):
    """replace (sym,k) bits by mapping[sym][k] (zero beyond its length)"""
    out = []
    for b in vec:
        if isinstance(b, tuple) and b[0] in mapping:
            m = mapping[b[0]]
            out.append(m[b[1]] if b[1] < len(m) else 0)
        else:
            out.append(b)
    return trim(out)

def show_vec(v):
    """compact: runs of consecutive bits of one symbol"""
    out = []
    i = 0
    v = list(v)
    while i < len(v):
        b = v[i]
        if isinstance(b, tuple):
            j = i
            while j + 1 < len(v) and isinstance(v[j + 1], tuple) and v[j + 1][0] == b[0] and v[j + 1][1] == v[j][1] + 1:
                j += 1
            out.append(f"{b[0]}[{b[1]}:{v[j][1] + 1}]@{i}")
            i = j + 1
        else:
            j = i
            while j + 1 < len(v) and v[j + 1] == b:
                j += 1
            out.append(f"{b}^{j - i + 1}@{i}")
            i = j + 1
    return ' '.join(out) or '0'


# ------------------------------------------------------------------------------------------------------------
# case-split evaluation: predicates are decided on concrete bits
# ------------------------------------------------------------------------------------------------------------
class NeedBits(Exception):
    """a predicate depends on input bits that are still symbolic: the caller enumerates them"""
    def __init__(self, bits_):
        self.bits = set(bits_)

def _fix(vec, fixed):
    return [fixed.get(b, b) if isinstance(b, tuple) else b for b in vec]

def _sym_bits(vec):
    return {b for b in vec if isinstance(b, tuple)}

def _value(vec):
    return sum(b << i for i, b in enumerate(vec))

def evalt(t, widths, fixed, env=None):
    """term -> bit vector, ('tuple', [values]) or bool, with the input bits in `fixed` ({(sym,k): 0|1}) replaced by their values;
    every branch predicate (any comparison, and / or / not, truth of an integer) must come out concrete, else NeedBits"""
    env = env or {}
    if t in env:
        return _fix(env[t], fixed)
    k = t[0]
    if k == 'const' and isinstance(t[1], bool):
        return t[1]
    if k == 'param':
        if t[1] not in widths:
            raise Top(f"input {t[1]} has no declared width")
        return _fix([(t[1], i) for i in range(widths[t[1]])], fixed)
    if k == 'tuple':
        return ('tuple', [evalt(x, widths, fixed, env) for x in t[1]])
    if k == 'ite':
        return evalt(t[2] if truthv(t[1], widths, fixed, env) else t[3], widths, fixed, env)
    if k in ('cmp', 'bool') or (k == 'unop' and t[1] == 'not'):
        return truthv(t, widths, fixed, env)
    if k == 'binop':
        op = t[1]
        a = evalt(t[2], widths, fixed, env); b = evalt(t[3], widths, fixed, env)
        if isinstance(a, bool): a = [int(a)]
        if isinstance(b, bool): b = [int(b)]
        if not isinstance(a, list) or not isinstance(b, list):
            raise Top(f"operator {op} on a tuple")
        ca, cb = not _sym_bits(a), not _sym_bits(b)
        if ca and cb:
            x, y = _value(a), _value(b)
            try:
                r = sym.BINFN[op](x, y)
            except Exception as e:
                raise Top(f"{x} {op} {y}: {e}")
            if not isinstance(r, int) or r < 0:
                raise Top(f"{x} {op} {y} = {r!r}")
            return const_bits(r)
        if op in ('<<', '>>'):
            if not cb:
                raise NeedBits(_sym_bits(b))
            return shl(a, _value(b)) if op == '<<' else shr(a, _value(b))
        if op == '&': return band(a, b)
        if op == '|': return bor(a, b)
        if op == '^': return bxor(a, b)
        if op == '+':
            for i in range(min(len(a), len(b))):
                if a[i] != 0 and b[i] != 0:
                    raise Overlap('addition of overlapping bit ranges')
            return bor(a, b)
        if op == '-':
            # a - (some of a's own bits) clears those bits
            if len(b) <= len(a) and all(y == 0 or y == x for x, y in zip(a, b)):
                return trim([0 if y != 0 else x for x, y in zip(a, list(b) + [0] * (len(a) - len(b)))])
            raise Top('subtraction that is not the clearing of own bits')
        if cb and _value(b) > 0 and _value(b) & (_value(b) - 1) == 0:
            sh = _value(b).bit_length() - 1
            if op == '%': return trim(a[:sh])
            if op == '*': return shl(a, sh)
            if op == '//': return shr(a, sh)
        if ca and op == '*' and _value(a) > 0 and _value(a) & (_value(a) - 1) == 0:
            return shl(b, _value(a).bit_length() - 1)
        raise Top(f"operator {op}")
    if k == 'const':
        if not isinstance(t[1], int):
            raise Top(f"non-integer constant {t[1]!r}")
        return const_bits(t[1])
    if k == 'tupidx':
        x = t[1]
        if x[0] == 'call' and x[1] == ('name', 'divmod') and len(x[2]) == 2 and t[2] in (0, 1):
            return evalt(('binop', '//' if t[2] == 0 else '%', x[2][0], x[2][1]), widths, fixed, env)
        v = evalt(x, widths, fixed, env)
        if isinstance(v, tuple) and v[0] == 'tuple' and 0 <= t[2] < len(v[1]):
            return v[1][t[2]]
        raise Top(f"element {t[2]} of {sym.show(x)[:60]}")
    if k == 'call' and t[1] == ('name', 'divmod') and len(t[2]) == 2:
        return ('tuple', [evalt(('binop', '//', t[2][0], t[2][1]), widths, fixed, env), evalt(('binop', '%', t[2][0], t[2][1]), widths, fixed, env)])
    if k == 'call' and t[1] == ('name', 'int') and len(t[2]) == 1:
        return evalt(t[2][0], widths, fixed, env)
    raise Top(f"term kind {k}: {sym.show(t)[:80]}")

def truthv(c, widths, fixed, env=None):
    k = c[0]
    if k == 'const':
        return bool(c[1])
    if k == 'unop' and c[1] == 'not':
        return not truthv(c[2], widths, fixed, env)
    if k == 'bool':
        if c[1] == 'and':
            for x in c[2]:
                if not truthv(x, widths, fixed, env):
                    return False
            return True
        for x in c[2]:
            if truthv(x, widths, fixed, env):
                return True
        return False
    if k == 'cmp' and c[1] in ('==', '!=', '<', '<=', '>', '>='):
        a = evalt(c[2], widths, fixed, env); b = evalt(c[3], widths, fixed, env)
        if isinstance(a, bool): a = [int(a)]
        if isinstance(b, bool): b = [int(b)]
        if not isinstance(a, list) or not isinstance(b, list):
            raise Top('comparison of tuples')
        need = _sym_bits(a) | _sym_bits(b)
        if need:
            # bounds: unknown bits all 0 / all 1
            lo = lambda v: sum((1 if x == 1 else 0) << i for i, x in enumerate(v))
            hi = lambda v: sum((0 if x == 0 else 1) << i for i, x in enumerate(v))
            op = c[1]
            la, ha, lb, hb = lo(a), hi(a), lo(b), hi(b)
            if op == '<' and ha < lb: return True
            if op == '<' and la >= hb: return False
            if op == '<=' and ha <= lb: return True
            if op == '<=' and la > hb: return False
            if op == '>' and la > hb: return True
            if op == '>' and ha <= lb: return False
            if op == '>=' and la >= hb: return True
            if op == '>=' and ha < lb: return False
            if op in ('==', '!=') and (ha < lb or la > hb or any(isinstance(x, int) and isinstance(y, int) and x != y for x, y in zip(a + [0] * len(b), b + [0] * len(a)))):
                return op == '!='
            # undecided: ask for the most significant unknown bit only (an order comparison is decided from the top)
            top = None
            for v in (a, b):
                for i in range(len(v) - 1, -1, -1):
                    if isinstance(v[i], tuple):
                        if top is None or i > top[0]:
                            top = (i, v[i])
                        break
            raise NeedBits({top[1]} if op not in ('==', '!=') else need)
        return bool(sym.CMPFN[c[1]](_value(a), _value(b)))
    if k == 'cmp':
        raise Top('predicate ' + sym.show(c)[:80])
    v = evalt(c, widths, fixed, env)
    if isinstance(v, bool):
        return v
    if isinstance(v, list):
        if _sym_bits(v):
            if any(b == 1 for b in v):
                return True
            raise NeedBits(_sym_bits(v))
        return _value(v) != 0
    raise Top('truth of ' + sym.show(c)[:60])

def cases(term, widths, env=None, presplit=(), max_bits=18):
    """evaluate `term` under every assignment of the input bits its predicates consult (plus `presplit`).
    -> list of (fixed, value); the union of the cases is the whole input space, the other bits stay symbolic"""
    import itertools
    out = []
    pre = sorted(set(presplit))
    work = [dict(zip(pre, vals)) for vals in itertools.product((0, 1), repeat=len(pre))]
    while work:
        fixed = work.pop()
        try:
            out.append((fixed, evalt(term, widths, fixed, env)))
        except NeedBits as nb:
            more = sorted(nb.bits - set(fixed))
            if not more:
                raise Top('predicate stays symbolic')
            if len(fixed) + len(more) > max_bits:
                raise Top(f"predicates consult more than {max_bits} input bits")
            for vals in itertools.product((0, 1), repeat=len(more)):
                f2 = dict(fixed); f2.update(zip(more, vals))
                work.append(f2)
    return out
