"""bitprov.py -- bit-provenance domain over sym terms.

A value is a little-endian list of bits; each bit is 0, 1 or (symbol, k) meaning "bit k of input
`symbol`".  Integers are unbounded: a vector is implicitly zero-extended.  This is LLVM's
KnownBits with an origin attached to every unknown bit.  Transfer functions:

    const c            -> its binary digits
    param p (width w)  -> [(p,0) .. (p,w-1)]
    a & b              -> per bit: 0&x=0, 1&x=x, x&x=x, otherwise TOP (analysis gives up)
    a | b              -> per bit: 0|x=x, 1|x=1, x|x=x, otherwise TOP
    a ^ b              -> only with a constant-0 side per bit
    a << k, a >> k     -> shift by a constant
    ite(c, a, b)       -> resolved by the caller's branch assumption {c: bool}
    int.from_bytes / to_bytes with a constant length and byte order -> byte permutation

Because every obligation is per bit, a statement proved here holds for all 2^n input values.
"""
from __future__ import annotations

from . import sym

class Top(Exception):
    pass

class Overlap(Top):
    """two different unknown bits are combined into one position: the packing is not invertible"""

class NeedBranch(Exception):
    def __init__(self, cond):
        self.cond = cond

def const_bits(v):
    if v < 0:
        raise Top(f"negative constant {v}")
    out = []
    while v:
        out.append(v & 1)
        v >>= 1
    return out

def trim(v):
    v = list(v)
    while v and v[-1] == 0:
        v.pop()
    return v

def band(a, b):
    out = []
    for i in range(min(len(a), len(b))):
        x, y = a[i], b[i]
        if x == 0 or y == 0: out.append(0)
        elif x == 1: out.append(y)
        elif y == 1: out.append(x)
        elif x == y: out.append(x)
        else: raise Top(f"and of two unrelated unknown bits {x} & {y}")
    return trim(out)

def bor(a, b):
    out = []
    for i in range(max(len(a), len(b))):
        x = a[i] if i < len(a) else 0
        y = b[i] if i < len(b) else 0
        if x == 0: out.append(y)
        elif y == 0: out.append(x)
        elif x == 1 or y == 1: out.append(1)
        elif x == y: out.append(x)
        else: raise Overlap(f"or of two unrelated unknown bits {x} | {y} at bit {i} (fields overlap)")
    return trim(out)

def bxor(a, b):
    out = []
    for i in range(max(len(a), len(b))):
        x = a[i] if i < len(a) else 0
        y = b[i] if i < len(b) else 0
        if x == 0: out.append(y)
        elif y == 0: out.append(x)
        else: raise Top("xor of unknown bits")
    return trim(out)

def shl(a, k):
    return trim([0] * k + list(a))

def shr(a, k):
    return trim(list(a)[k:])

def bits(t, widths, assume=None, env=None):
    """term -> bit vector.  widths: {param name: bit width}.  env: {term: vector} overrides (e.g. a call result treated as an input)"""
    assume = assume or {}
    env = env or {}
    if t in env:
        return list(env[t])
    k = t[0]
    if k == 'const':
        if isinstance(t[1], bool) or not isinstance(t[1], int):
            raise Top(f"non-integer constant {t[1]!r}")
        return const_bits(t[1])
    if k == 'param':
        if t[1] not in widths:
            raise Top(f"input {t[1]} has no declared width")
        return [(t[1], i) for i in range(widths[t[1]])]
    if k == 'binop':
        op = t[1]
        if op in ('<<', '>>'):
            if not sym.is_const(t[3]) or not isinstance(t[3][1], int):
                raise Top('shift by a non-constant')
            a = bits(t[2], widths, assume, env)
            return shl(a, t[3][1]) if op == '<<' else shr(a, t[3][1])
        if op in ('&', '|', '^'):
            a = bits(t[2], widths, assume, env); b = bits(t[3], widths, assume, env)
            return {'&': band, '|': bor, '^': bxor}[op](a, b)
        if op == '+':
            # a + b where the two vectors have disjoint support behaves like |
            a = bits(t[2], widths, assume, env); b = bits(t[3], widths, assume, env)
            for i in range(min(len(a), len(b))):
                if a[i] != 0 and b[i] != 0:
                    raise Overlap('addition of overlapping bit ranges')
            return bor(a, b)
        if op == '%' and sym.is_const(t[3]) and isinstance(t[3][1], int) and t[3][1] > 0 and (t[3][1] & (t[3][1] - 1)) == 0:
            a = bits(t[2], widths, assume, env)
            return trim(a[:t[3][1].bit_length() - 1])
        if op == '*' and sym.is_const(t[3]) and isinstance(t[3][1], int) and t[3][1] > 0 and (t[3][1] & (t[3][1] - 1)) == 0:
            return shl(bits(t[2], widths, assume, env), t[3][1].bit_length() - 1)
        if op == '//' and sym.is_const(t[3]) and isinstance(t[3][1], int) and t[3][1] > 0 and (t[3][1] & (t[3][1] - 1)) == 0:
            return shr(bits(t[2], widths, assume, env), t[3][1].bit_length() - 1)
        raise Top(f"operator {op}")
    if k == 'ite':
        c = t[1]
        if c in assume:
            return bits(t[2] if assume[c] else t[3], widths, assume, env)
        raise NeedBranch(c)
    raise Top(f"term kind {k}: {sym.show(t)[:80]}")

def pred_prov(cond, widths, assume=None, env=None):
    """a comparison predicate as (op, provenance vector of the left side, constant) -- opaque, used only for pairing branches"""
    if cond[0] == 'cmp' and sym.is_const(cond[3]):
        return (cond[1], tuple(bits(cond[2], widths, assume, env)), cond[3][1])
    if cond[0] == 'cmp' and sym.is_const(cond[2]):
        flip = {'<': '>', '>': '<', '<=': '>=', '>=': '<=', '==': '==', '!=': '!='}[cond[1]]
        return (flip, tuple(bits(cond[3], widths, assume, env)), cond[2][1])
    raise Top('predicate shape ' + sym.show(cond)[:80])

def branches(terms, widths, env=None):
    """evaluate a list of output terms under every combination of branch predicates that occurs.
    -> list of (assume dict, [vectors])"""
    out = []
    work = [dict()]
    while work:
        assume = work.pop()
        try:
            vs = [trim(bits(t, widths, assume, env)) for t in terms]
            out.append((assume, vs))
        except NeedBranch as nb:
            for val in (True, False):
                a2 = dict(assume); a2[nb.cond] = val
                work.append(a2)
    return out

def substitute(vec, mapping):
    """replace (sym,k) bits by mapping[sym][k] (zero beyond its length)"""
    out = []
    for b in vec:
        if isinstance(b, tuple) and b[0] in mapping:
            m = mapping[b[0]]
            out.append(m[b[1]] if b[1] < len(m) else 0)
        else:
            out.append(b)
    return trim(out)

def show_vec(v):
    """compact: runs of consecutive bits of one symbol"""
    out = []
    i = 0
    v = list(v)
    while i < len(v):
        b = v[i]
        if isinstance(b, tuple):
            j = i
            while j + 1 < len(v) and isinstance(v[j + 1], tuple) and v[j + 1][0] == b[0] and v[j + 1][1] == v[j][1] + 1:
                j += 1
            out.append(f"{b[0]}[{b[1]}:{v[j][1] + 1}]@{i}")
            i = j + 1
        else:
            j = i
            while j + 1 < len(v) and v[j + 1] == b:
                j += 1
            out.append(f"{b}^{j - i + 1}@{i}")
            i = j + 1
    return ' '.join(out) or '0'
