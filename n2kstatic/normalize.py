"""normalize.py -- behaviour-preserving canonicalisation of a hand-written module before any rule looks at it.

Why: the rules recognise the library's idioms (an f-string key, `async with lock`, a test `state != CLOSED` as a loop
condition, bit arithmetic written in the function itself).  A maintainer who extracts a helper, hoists a literal to a
named constant or swaps an idiom for an equivalent one must not be reported.  Instead of teaching every rule every
spelling, the module's syntax tree is rewritten once into the spelling the rules know; every rewrite below preserves
behaviour (stated per rewrite), so a property that holds of the rewritten tree holds of the source, and a violation
found in it is a violation of the source.  Line numbers of moved statements are kept, so reports still point at the
text that is really there.

  R0  decorators     a function decorated with a plain wrapper decorator of the same module is replaced by what the decorated name does:
                     the wrapper's body with the original function (kept under <name>__undecorated, then inlined by R4) in place of its parameter.
  R1  constants      module-level / class-level NAME = <immutable constant expression>, bound once and never
                     rebound (no other store, no `global`), is replaced by its value where the name is not shadowed.
  R2  stable alias   a local bound once to `self.<attr>` where <attr> is only ever stored in __init__ is replaced by
                     `self.<attr>`.
  R3  idioms         "{}_{}".format(a, b) -> f"{a}_{b}";  not (a == b) -> a != b (also is / in);
                     `while True: if C: break; B` -> `while not C: B`;  `if C: pass else: B` -> `if not C: B`;  a local `x: T = E` -> `x = E`;  set(<generator>) / list(<generator>) -> the comprehension;  `if bool(E)` / `not bool(E)` -> `if E` / `not E`;
                     `await L.acquire(); try: B finally: L.release()` -> `async with L: B` (same for the sync form);
                     `except E as e: if isinstance(e, T): A else: B` -> `except T as e: A  except E as e: B`;
                     `try: A except ..: <always leaves> else: E` -> `try: A except ..` followed by E.
  R6  attr alias     `t = self.a` whose every use is evaluated before any await, call (logging aside) or store to `.a`: `self.a` is written for `t`.
  R5  single use     `t = E` followed at once by a statement that evaluates `t` exactly once, first and unconditionally (and `t` is bound and
                     read nowhere else): E is written in its place.
  R4' local defs     a helper defined inside a function (a closure) and bound once is inlined at its calls like any other helper.
  R4  inlining       a call of a helper that is not one of the functions the rules are anchored in (ANCHORS: the
                     functions of the pinned tree) is replaced by the helper's body: parameters bound to the
                     arguments, locals renamed apart, `return` turned into the use the caller makes of the value.
                     Only helpers whose returns are all in tail position, without loops around a return, generators,
                     global/nonlocal, star-arguments; only at positions where evaluation order is unchanged.
                     A private helper all of whose uses were inlined is dropped (it is dead).
Anything that does not fit is left exactly as written; the rules then see the call and decide for themselves
(usually: give up with an ANALYSIS-ERROR, never a VIOLATION on an unrecognised shape).
"""
from __future__ import annotations

import ast
import copy
import string

# functions of the pinned tree: the rules look these up by name, they are never inlined into their callers
ANCHORS = {
    'decoder': {'fast_pgn_metadata.__init__', 'fast_pgn_metadata.__repr__', 'NMEA2000Decoder.__init__', 'NMEA2000Decoder.split_pgn_list',
                'NMEA2000Decoder._decode_fast_message', 'NMEA2000Decoder.decode_actisense_string', 'NMEA2000Decoder.decode_yacht_devices_string',
                'NMEA2000Decoder.decode_basic_string', 'NMEA2000Decoder._extract_header', 'NMEA2000Decoder.decode_tcp', 'NMEA2000Decoder.decode_usb',
                'NMEA2000Decoder._isFastPGN', 'NMEA2000Decoder._log_unsupported_pgn_once', 'NMEA2000Decoder._decode', 'NMEA2000Decoder._call_decode_function',
                'NMEA2000Decoder.close', 'NMEA2000Decoder.__enter__', 'NMEA2000Decoder.__exit__'},
    'encoder': {'NMEA2000Encoder.__init__', 'NMEA2000Encoder._call_encode_function', 'NMEA2000Encoder._encode_fast_message', 'NMEA2000Encoder._build_header',
                'NMEA2000Encoder._encode', 'NMEA2000Encoder.encode_ebyte', 'NMEA2000Encoder.encode_usb', 'NMEA2000Encoder.encode_actisense',
                'NMEA2000Encoder.bytes_to_hex_string', 'NMEA2000Encoder.encode_yacht_devices'},
    'ioclient': {'_connect_impl', '_receive_impl', '_encode_impl', '__init__', 'set_status_callback', 'set_receive_callback', 'state', '_update_state', 'connect',
                 '_seed_network_map', '_receive_loop', 'send', 'close', '_process_queue', 'log_before_retry', '__aenter__', '__aexit__'},
    'message': {'int_to_bytes', 'NMEA2000Message.add_data', 'NMEA2000Message.apply_preferred_units', 'NMEA2000Message.__str__', 'NMEA2000Message.__repr__',
                'NMEA2000Message.to_string_test_style', 'NMEA2000Message.to_json', 'NMEA2000Message.from_json', 'NMEA2000Message.get_field_by_id',
                'NMEA2000Message.get_field_int_value_by_id', 'NMEA2000Message.get_field_str_value_by_id', 'NMEA2000Field.__str__', 'NMEA2000Field.__repr__',
                'NMEA2000Field.to_string_test_style', 'LookupFieldTypeEnumeration.__init__', 'IsoName.__init__', 'IsoName.__str__', 'IsoName.__repr__'},
    'utils': {'kelvin_to_fahrenheit', 'kelvin_to_celsius', 'pascal_to_bar', 'pascal_to_PSI', 'mps_to_knots', 'radians_to_degrees', 'decode_int', 'decode_date',
              'encode_date', 'decode_time', 'encode_time', 'decode_decimal', 'encode_decimal', 'decode_float', 'encode_float', 'decode_number', 'encode_number',
              'decode_bit_lookup', 'decode_string_fix', 'decode_string_lz', 'decode_string_lau', 'calculate_canbus_checksum'},
}
# names of methods of built-in / library objects: never resolved to a class of the module through duck typing
_BUILTIN_METHODS = set(dir(list) + dir(dict) + dir(str) + dir(bytes) + dir(bytearray) + dir(set) + dir(int) + dir(float)) | {
    'put', 'get_nowait', 'put_nowait', 'cancel', 'done', 'write', 'drain', 'close', 'wait_closed', 'read', 'readline', 'readexactly', 'acquire', 'release',
    'locked', 'debug', 'info', 'warning', 'error', 'exception', 'result', 'set', 'wait', 'is_set', 'total_seconds', 'hex', 'flush', 'sleep'}
_IMMUTABLE_CALLS = {'timedelta', 'frozenset', 'bytes', 'int', 'float', 'str', 'tuple', 'bool', 'date', 'time', 'datetime', 'slice'}
MAX_DEPTH = 4


def is_anchor(module, qualname):
    a = ANCHORS.get(module)
    if a is None:
        return False
    if module == 'ioclient':
        return qualname.split('.')[-1] in a
    return qualname in a


# ------------------------------------------------------------------------------------------------- helpers
def _dump(n):
    return ast.dump(n, annotate_fields=False, include_attributes=False)

def _is_const_expr(n, known):
    if isinstance(n, ast.Constant):
        return True
    if isinstance(n, ast.UnaryOp) and isinstance(n.op, (ast.USub, ast.UAdd, ast.Invert)):
        return _is_const_expr(n.operand, known)
    if isinstance(n, ast.BinOp):
        return _is_const_expr(n.left, known) and _is_const_expr(n.right, known)
    if isinstance(n, ast.Tuple):
        return all(_is_const_expr(e, known) for e in n.elts)
    if isinstance(n, ast.Name):
        return n.id in known or (n.id in __builtins__ if isinstance(__builtins__, dict) else hasattr(__builtins__, n.id)) and n.id[:1].isupper()
    if isinstance(n, ast.Call) and isinstance(n.func, ast.Attribute) and n.func.attr in ('lower', 'upper') and not n.args and not n.keywords:
        return _is_const_expr(n.func.value, known)
    if isinstance(n, ast.Call) and isinstance(n.func, ast.Name) and n.func.id == 'bytes' and len(n.args) == 1 and not n.keywords and isinstance(n.args[0], (ast.List, ast.Tuple)):
        return all(_is_const_expr(x, known) for x in n.args[0].elts)
    if isinstance(n, ast.Call) and isinstance(n.func, ast.Attribute) and isinstance(n.func.value, ast.Name) and n.func.value.id == 'bytes' and n.func.attr == 'fromhex' and len(n.args) == 1:
        return _is_const_expr(n.args[0], known)
    if isinstance(n, ast.Call) and not n.keywords or isinstance(n, ast.Call) and all(k.arg and _is_const_expr(k.value, known) for k in n.keywords):
        f = n.func
        fname = f.id if isinstance(f, ast.Name) else (f.attr if isinstance(f, ast.Attribute) and isinstance(f.value, ast.Name) and f.value.id in ('datetime',) else None)
        if fname in _IMMUTABLE_CALLS and all(_is_const_expr(a, known) for a in n.args):
            return True
    return False

def _bound_names(fn):
    """names bound inside a function (parameters, assignments, loop / with / except / comprehension targets, imports)"""
    out = set()
    a = fn.args
    for p in a.posonlyargs + a.args + a.kwonlyargs + ([a.vararg] if a.vararg else []) + ([a.kwarg] if a.kwarg else []):
        out.add(p.arg)
    for n in ast.walk(fn):
        if isinstance(n, ast.Name) and isinstance(n.ctx, (ast.Store, ast.Del)):
            out.add(n.id)
        elif isinstance(n, ast.ExceptHandler) and n.name:
            out.add(n.name)
        elif isinstance(n, (ast.FunctionDef, ast.AsyncFunctionDef, ast.ClassDef)) and n is not fn:
            out.add(n.name)
        elif isinstance(n, (ast.Import, ast.ImportFrom)):
            for al in n.names:
                out.add((al.asname or al.name).split('.')[0])
    return out

class _Subst(ast.NodeTransformer):
    """replace loads of given names by expressions (deep-copied)"""
    def __init__(self, mapping):
        self.mapping = mapping
    def visit_Name(self, node):
        if isinstance(node.ctx, ast.Load) and node.id in self.mapping:
            new = copy.deepcopy(self.mapping[node.id])
            return ast.copy_location(new, node) if not hasattr(new, 'lineno') else _reloc(new, node)
        return node

def _reloc(new, at):
    for n in ast.walk(new):
        if hasattr(at, 'lineno'):
            n.lineno = at.lineno; n.col_offset = getattr(at, 'col_offset', 0)
            n.end_lineno = getattr(at, 'end_lineno', at.lineno); n.end_col_offset = getattr(at, 'end_col_offset', 0)
    return new

def _pure(n):
    """an expression whose evaluation has no effect and cannot be affected by evaluating something else first
    (names, constants, attribute chains, arithmetic / comparisons / subscripts of such)"""
    if isinstance(n, (ast.Name, ast.Constant)):
        return True
    if isinstance(n, ast.Attribute):
        return _pure(n.value)
    if isinstance(n, ast.Subscript):
        return _pure(n.value) and _pure(n.slice)
    if isinstance(n, ast.Slice):
        return all(x is None or _pure(x) for x in (n.lower, n.upper, n.step))
    if isinstance(n, ast.BinOp):
        return _pure(n.left) and _pure(n.right)
    if isinstance(n, ast.UnaryOp):
        return _pure(n.operand)
    if isinstance(n, ast.BoolOp):
        return all(_pure(v) for v in n.values)
    if isinstance(n, ast.Compare):
        return _pure(n.left) and all(_pure(c) for c in n.comparators)
    if isinstance(n, (ast.Tuple, ast.List)):
        return all(_pure(e) for e in n.elts)
    if isinstance(n, ast.IfExp):
        return _pure(n.test) and _pure(n.body) and _pure(n.orelse)
    if isinstance(n, ast.JoinedStr):
        return all(_pure(v) for v in n.values)
    if isinstance(n, ast.FormattedValue):
        return _pure(n.value)
    if isinstance(n, ast.Starred):
        return _pure(n.value)
    return False

def _atomic(n):
    return isinstance(n, (ast.Name, ast.Constant)) or (isinstance(n, ast.Attribute) and _atomic(n.value))

def _always_leaves(stmts):
    if not stmts:
        return False
    last = stmts[-1]
    if isinstance(last, (ast.Return, ast.Raise, ast.Continue, ast.Break)):
        return True
    if isinstance(last, ast.If):
        return _always_leaves(last.body) and _always_leaves(last.orelse)
    return False

def _always_returns(stmts):
    if not stmts:
        return False
    last = stmts[-1]
    if isinstance(last, (ast.Return, ast.Raise)):
        return True
    if isinstance(last, ast.If):
        return _always_returns(last.body) and _always_returns(last.orelse)
    return False

def _contains(node_or_list, types, stop=(ast.FunctionDef, ast.AsyncFunctionDef, ast.Lambda, ast.ClassDef)):
    todo = list(node_or_list) if isinstance(node_or_list, list) else [node_or_list]
    while todo:
        n = todo.pop()
        if isinstance(n, types):
            return True
        for ch in ast.iter_child_nodes(n):
            if not isinstance(ch, stop):
                todo.append(ch)
    return False


# ------------------------------------------------------------------------------------------------- R1 constants
import operator as _op
_FOLD = {ast.Add: _op.add, ast.Sub: _op.sub, ast.Mult: _op.mul, ast.FloorDiv: _op.floordiv, ast.Mod: _op.mod, ast.Pow: _op.pow, ast.LShift: _op.lshift,
         ast.RShift: _op.rshift, ast.BitAnd: _op.and_, ast.BitOr: _op.or_, ast.BitXor: _op.xor, ast.Div: _op.truediv}

class _Fold(ast.NodeTransformer):
    """arithmetic on literals is replaced by its value (Python semantics; only int / float / str / bytes operands, bounded size)"""
    def visit_BinOp(self, node):
        node = self.generic_visit(node)
        a, b = node.left, node.right
        if isinstance(a, ast.Constant) and isinstance(b, ast.Constant) and type(node.op) in _FOLD:
            x, y = a.value, b.value
            num = lambda v: isinstance(v, (int, float)) and not isinstance(v, bool)
            try:
                if num(x) and num(y):
                    if isinstance(node.op, (ast.Pow, ast.LShift)) and not (isinstance(y, int) and 0 <= y <= 256):
                        return node
                    if isinstance(node.op, ast.Div):
                        return node          # float results are left to the rules that know about rounding
                    return ast.copy_location(ast.Constant(_FOLD[type(node.op)](x, y)), node)
                if isinstance(node.op, ast.Add) and type(x) is type(y) and isinstance(x, (str, bytes)):
                    return ast.copy_location(ast.Constant(x + y), node)
            except Exception:
                return node
        return node
    def visit_Call(self, node):
        node = self.generic_visit(node)
        # bytes([1, 2]) / bytes((1, 2)) / bytes.fromhex("aa55") on literals
        f = node.func
        try:
            if isinstance(f, ast.Name) and f.id == 'bytes' and len(node.args) == 1 and not node.keywords and isinstance(node.args[0], (ast.List, ast.Tuple)) \
                    and all(isinstance(x, ast.Constant) and isinstance(x.value, int) and not isinstance(x.value, bool) for x in node.args[0].elts):
                return ast.copy_location(ast.Constant(bytes(x.value for x in node.args[0].elts)), node)
            if isinstance(f, ast.Attribute) and isinstance(f.value, ast.Name) and f.value.id == 'bytes' and f.attr == 'fromhex' and len(node.args) == 1 \
                    and isinstance(node.args[0], ast.Constant) and isinstance(node.args[0].value, str):
                return ast.copy_location(ast.Constant(bytes.fromhex(node.args[0].value)), node)
        except ValueError:
            return node
        return node

    def visit_UnaryOp(self, node):
        node = self.generic_visit(node)
        if isinstance(node.op, ast.USub) and isinstance(node.operand, ast.Constant) and isinstance(node.operand.value, (int, float)) and not isinstance(node.operand.value, bool):
            return node      # negative literals stay in their usual spelling
        return node

class _ConstInfo:
    def __init__(self):
        self.module = {}       # name -> expr
        self.classes = {}      # class name -> {name -> expr}   (own and inherited, same module)

def collect_constants(tree, imported=None):
    info = _ConstInfo()
    stores = {}
    globals_declared = set()
    attr_stores = set()
    for n in ast.walk(tree):
        if isinstance(n, ast.Global):
            globals_declared.update(n.names)
        elif isinstance(n, ast.Attribute) and isinstance(n.ctx, (ast.Store, ast.Del)):
            attr_stores.add(n.attr)
    def count_body(body):
        for st in body:
            for n in ast.walk(st) if not isinstance(st, (ast.FunctionDef, ast.AsyncFunctionDef, ast.ClassDef)) else [st]:
                if isinstance(n, ast.Name) and isinstance(n.ctx, (ast.Store, ast.Del)):
                    stores[n.id] = stores.get(n.id, 0) + 1
                elif isinstance(n, (ast.FunctionDef, ast.AsyncFunctionDef, ast.ClassDef)):
                    stores[n.name] = stores.get(n.name, 0) + 1
                elif isinstance(n, (ast.Import, ast.ImportFrom)):
                    for al in n.names:
                        k = (al.asname or al.name).split('.')[0]
                        stores[k] = stores.get(k, 0) + 1
    count_body(tree.body)
    known = dict(imported or {})
    for name in list(known):
        if stores.get(name, 0) != 1:      # imported once, not rebound
            known.pop(name)
    for st in tree.body:
        tgt = val = None
        if isinstance(st, ast.Assign) and len(st.targets) == 1 and isinstance(st.targets[0], ast.Name):
            tgt, val = st.targets[0].id, st.value
        elif isinstance(st, ast.AnnAssign) and isinstance(st.target, ast.Name) and st.value is not None:
            tgt, val = st.target.id, st.value
        if tgt and stores.get(tgt) == 1 and tgt not in globals_declared and _is_const_expr(val, known):
            known[tgt] = _Fold().visit(_Subst(known).visit(copy.deepcopy(val)))
    info.module = known
    # classes
    cls_nodes = {c.name: c for c in tree.body if isinstance(c, ast.ClassDef)}
    own = {}
    for cname, c in cls_nodes.items():
        if any((isinstance(b, ast.Name) and (b.id.endswith('Enum') or b.id.endswith('Flag'))) or (isinstance(b, ast.Attribute) and (b.attr.endswith('Enum') or b.attr.endswith('Flag'))) for b in c.bases):
            continue
        cstores = {}
        for st in c.body:
            if isinstance(st, (ast.Assign, ast.AnnAssign, ast.AugAssign)):
                for n in ast.walk(st):
                    if isinstance(n, ast.Name) and isinstance(n.ctx, ast.Store):
                        cstores[n.id] = cstores.get(n.id, 0) + 1
        d = {}
        for st in c.body:
            if isinstance(st, ast.Assign) and len(st.targets) == 1 and isinstance(st.targets[0], ast.Name):
                nm = st.targets[0].id
                loc_known = dict(known); loc_known.update(d)
                if cstores.get(nm) == 1 and nm not in attr_stores and _is_const_expr(st.value, loc_known):
                    d[nm] = _Fold().visit(_Subst(loc_known).visit(copy.deepcopy(st.value)))
        own[cname] = d
    def mro(cn, seen=()):
        if cn not in cls_nodes or cn in seen:
            return []
        out = [cn]
        for b in cls_nodes[cn].bases:
            if isinstance(b, ast.Name):
                out += mro(b.id, seen + (cn,))
        return out
    for cname in cls_nodes:
        merged = {}
        for c in reversed(mro(cname)):
            # a name re-bound in a subclass by something that is not a constant hides the inherited constant
            for st in cls_nodes[c].body:
                for n in ast.walk(st) if isinstance(st, (ast.Assign, ast.AnnAssign, ast.AugAssign)) else []:
                    if isinstance(n, ast.Name) and isinstance(n.ctx, ast.Store):
                        merged.pop(n.id, None)
                if isinstance(st, (ast.FunctionDef, ast.AsyncFunctionDef)):
                    merged.pop(st.name, None)
            merged.update(own.get(c, {}))
        info.classes[cname] = merged
    return info

class _ConstProp(ast.NodeTransformer):
    def __init__(self, info):
        self.info = info
        self.shadow = [set()]
        self.cls = [None]
        self.count = 0
    def visit_ClassDef(self, node):
        self.cls.append(node.name)
        node.body = [self.visit(s) for s in node.body]
        self.cls.pop()
        return node
    def _fn(self, node):
        self.shadow.append(self.shadow[-1] | _bound_names(node))
        node.body = [self.visit(s) for s in node.body]
        node.args = self.generic_visit(node.args)      # defaults
        self.shadow.pop()
        return node
    visit_FunctionDef = _fn
    visit_AsyncFunctionDef = _fn
    def visit_Lambda(self, node):
        self.shadow.append(self.shadow[-1] | {a.arg for a in node.args.args})
        node.body = self.visit(node.body)
        self.shadow.pop()
        return node
    def visit_Name(self, node):
        if isinstance(node.ctx, ast.Load) and node.id in self.info.module and node.id not in self.shadow[-1] and len(self.shadow) > 1:
            self.count += 1
            return _reloc(copy.deepcopy(self.info.module[node.id]), node)
        return node
    def visit_Attribute(self, node):
        node = self.generic_visit(node)
        if isinstance(node.ctx, ast.Load) and isinstance(node.value, ast.Name):
            base = node.value.id
            cname = None
            if base in ('self', 'cls') and self.cls[-1] and base not in () and len(self.shadow) > 1:
                cname = self.cls[-1]
            elif base in self.info.classes and base not in self.shadow[-1]:
                cname = base
            if cname and node.attr in self.info.classes.get(cname, {}):
                self.count += 1
                return _reloc(copy.deepcopy(self.info.classes[cname][node.attr]), node)
        return node


# ------------------------------------------------------------------------------------------------- R3 idioms
class _Idioms(ast.NodeTransformer):
    def visit_BinOp(self, node):
        node = self.generic_visit(node)
        # "lit" + str(x)  /  "lit" + f"{x}"  ->  f"lit{x}"     (and the mirror image)
        if isinstance(node.op, ast.Add):
            def parts(e):
                if isinstance(e, ast.Constant) and isinstance(e.value, str):
                    return [e]
                if isinstance(e, ast.JoinedStr):
                    return list(e.values)
                if isinstance(e, ast.Call) and isinstance(e.func, ast.Name) and e.func.id in ('str', 'format') and len(e.args) == 1 and not e.keywords:
                    return [ast.FormattedValue(value=e.args[0], conversion=-1, format_spec=None)]
                return None
            a, b = parts(node.left), parts(node.right)
            if a is not None and b is not None and (isinstance(node.left, (ast.Constant, ast.JoinedStr)) or isinstance(node.right, (ast.Constant, ast.JoinedStr))):
                vals = []
                for v in a + b:
                    if isinstance(v, ast.Constant) and vals and isinstance(vals[-1], ast.Constant):
                        vals[-1] = ast.Constant(vals[-1].value + v.value)
                    else:
                        vals.append(v)
                if len(vals) == 1 and isinstance(vals[0], ast.Constant):
                    return _fix(vals[0], node)
                return _fix(ast.JoinedStr(values=vals), node)
        return node

    def visit_Call(self, node):
        node = self.generic_visit(node)
        f = node.func
        if isinstance(f, ast.Name) and f.id == 'getattr' and len(node.args) == 2 and not node.keywords and isinstance(node.args[1], ast.Constant) \
                and isinstance(node.args[1].value, str) and node.args[1].value.isidentifier():
            return _fix(ast.Attribute(value=node.args[0], attr=node.args[1].value, ctx=ast.Load()), node)
        if isinstance(f, ast.Attribute) and f.attr in ('lower', 'upper') and isinstance(f.value, ast.Constant) and isinstance(f.value.value, str) and not node.args and not node.keywords:
            return _fix(ast.Constant(getattr(f.value.value, f.attr)()), node)
        if isinstance(f, ast.Name) and f.id in ('set', 'list') and len(node.args) == 1 and not node.keywords and isinstance(node.args[0], ast.GeneratorExp):
            g = node.args[0]
            cls = ast.SetComp if f.id == 'set' else ast.ListComp
            return _fix(cls(elt=g.elt, generators=g.generators), node)
        if isinstance(f, ast.Attribute) and f.attr == 'format' and isinstance(f.value, ast.Constant) and isinstance(f.value.value, str) \
                and not node.keywords and not any(isinstance(a, ast.Starred) for a in node.args):
            try:
                parts = list(string.Formatter().parse(f.value.value))
            except ValueError:
                return node
            values = []
            k = 0
            auto = all(p[1] in ('', None) for p in parts)
            manual = all(p[1] is None or p[1].isdigit() for p in parts)
            if not (auto or manual):
                return node
            for lit, field, spec, conv in parts:
                if lit:
                    values.append(ast.Constant(lit))
                if field is None:
                    continue
                if spec and ('{' in spec or '}' in spec):
                    return node
                idx = k if auto else int(field)
                k += 1
                if idx >= len(node.args):
                    return node
                values.append(ast.FormattedValue(value=copy.deepcopy(node.args[idx]), conversion=ord(conv) if conv else -1,
                                                 format_spec=ast.JoinedStr(values=[ast.Constant(spec)]) if spec else None))
            if (k if auto else len({int(p[1]) for p in parts if p[1] is not None})) != len(node.args):
                return node      # an unused argument would no longer be evaluated
            return _fix(ast.JoinedStr(values=values), node)
        return node

    def visit_Expr(self, node):
        node = self.generic_visit(node)
        c = node.value
        # setattr(X, 'name', V)  ->  X.name = V
        if isinstance(c, ast.Call) and isinstance(c.func, ast.Name) and c.func.id == 'setattr' and len(c.args) == 3 and not c.keywords and isinstance(c.args[1], ast.Constant) \
                and isinstance(c.args[1].value, str) and c.args[1].value.isidentifier():
            new = ast.Assign(targets=[ast.Attribute(value=c.args[0], attr=c.args[1].value, ctx=ast.Store())], value=c.args[2], type_comment=None)
            _fix(new, node); ast.fix_missing_locations(new)
            return new
        # print(X, file=F)  ->  F.write(f"{X}\n")      (one positional argument, no sep / end / flush)
        if isinstance(c, ast.Call) and isinstance(c.func, ast.Name) and c.func.id == 'print' and len(c.args) == 1 and not isinstance(c.args[0], ast.Starred) \
                and len(c.keywords) == 1 and c.keywords[0].arg == 'file':
            txt = ast.JoinedStr(values=[ast.FormattedValue(value=c.args[0], conversion=-1, format_spec=None), ast.Constant('\n')])
            w = ast.Call(func=ast.Attribute(value=c.keywords[0].value, attr='write', ctx=ast.Load()), args=[txt], keywords=[])
            new = ast.Expr(value=w)
            _fix(new, node); ast.fix_missing_locations(new)
            return new
        return node

    def visit_Subscript(self, node):
        node = self.generic_visit(node)
        sl = node.slice
        if isinstance(sl, ast.Call) and isinstance(sl.func, ast.Name) and sl.func.id == 'slice' and 1 <= len(sl.args) <= 3 and not sl.keywords:
            a = list(sl.args)
            none = lambda x: None if (isinstance(x, ast.Constant) and x.value is None) else x
            if len(a) == 1:
                lo, hi, stp = None, none(a[0]), None
            else:
                lo, hi, stp = none(a[0]), none(a[1]), (none(a[2]) if len(a) == 3 else None)
            node.slice = _fix(ast.Slice(lower=lo, upper=hi, step=stp), sl)
        return node

    @staticmethod
    def _unbool(e):
        """bool(E) where only the truth value is used -> E"""
        while isinstance(e, ast.Call) and isinstance(e.func, ast.Name) and e.func.id == 'bool' and len(e.args) == 1 and not e.keywords:
            e = e.args[0]
        return e

    def visit_UnaryOp(self, node):
        node = self.generic_visit(node)
        if isinstance(node.op, ast.Not):
            node.operand = self._unbool(node.operand)
        if isinstance(node.op, ast.Not) and isinstance(node.operand, ast.Compare) and len(node.operand.ops) == 1:
            op = node.operand.ops[0]
            flip = {ast.Eq: ast.NotEq, ast.NotEq: ast.Eq, ast.Is: ast.IsNot, ast.IsNot: ast.Is, ast.In: ast.NotIn, ast.NotIn: ast.In}
            if type(op) in flip:
                return _fix(ast.Compare(left=node.operand.left, ops=[flip[type(op)]()], comparators=node.operand.comparators), node)
        return node

    @staticmethod
    def _leading_walrus(test):
        """the NamedExpr (Name target) that is evaluated first and unconditionally when `test` is evaluated, with a setter replacing it; else None"""
        holder, field, idx = None, None, None
        cur = test
        path = []
        while True:
            if isinstance(cur, ast.NamedExpr) and isinstance(cur.target, ast.Name):
                return cur, path
            if isinstance(cur, ast.Compare):
                path.append((cur, 'left', None)); cur = cur.left
            elif isinstance(cur, ast.BoolOp):
                path.append((cur, 'values', 0)); cur = cur.values[0]
            elif isinstance(cur, ast.UnaryOp) and isinstance(cur.op, ast.Not):
                path.append((cur, 'operand', None)); cur = cur.operand
            elif isinstance(cur, ast.Attribute):
                path.append((cur, 'value', None)); cur = cur.value
            elif isinstance(cur, ast.Call) and isinstance(cur.func, ast.Attribute):
                path.append((cur.func, 'value', None)); cur = cur.func.value
            elif isinstance(cur, ast.Subscript):
                path.append((cur, 'value', None)); cur = cur.value
            else:
                return None, None

    @staticmethod
    def _split_parallel(stmts):
        """a, b = X, Y  ->  a = X; b = Y   when no right-hand side reads a target (plain names on the left) and the right-hand sides are pure"""
        out = []
        for st in stmts:
            # a, b = (F(x) for x in (k1, k2))  ->  a, b = F(k1), F(k2)
            if isinstance(st, ast.Assign) and len(st.targets) == 1 and isinstance(st.targets[0], ast.Tuple) and isinstance(st.value, (ast.GeneratorExp, ast.ListComp)) \
                    and len(st.value.generators) == 1 and not st.value.generators[0].ifs and not st.value.generators[0].is_async and isinstance(st.value.generators[0].target, ast.Name) \
                    and isinstance(st.value.generators[0].iter, (ast.Tuple, ast.List)) and all(isinstance(x, ast.Constant) for x in st.value.generators[0].iter.elts) \
                    and len(st.value.generators[0].iter.elts) == len(st.targets[0].elts):
                g_ = st.value.generators[0]
                st.value = _fix(ast.Tuple(elts=[_Subst({g_.target.id: c}).visit(copy.deepcopy(st.value.elt)) for c in g_.iter.elts], ctx=ast.Load()), st.value)
                ast.fix_missing_locations(st.value)
            def simple_target(t):
                return isinstance(t, ast.Name) or (isinstance(t, ast.Attribute) and isinstance(t.value, ast.Name) and t.value.id == 'self')
            if isinstance(st, ast.Assign) and len(st.targets) == 1 and isinstance(st.targets[0], ast.Tuple) and isinstance(st.value, ast.Tuple) \
                    and len(st.targets[0].elts) == len(st.value.elts) and all(simple_target(t) for t in st.targets[0].elts) \
                    and not any(isinstance(v, ast.Starred) for v in st.value.elts):
                names = {ast.unparse(t) for t in st.targets[0].elts}
                reads = {n.id for v in st.value.elts for n in ast.walk(v) if isinstance(n, ast.Name)} | {ast.unparse(n) for v in st.value.elts for n in ast.walk(v) if isinstance(n, ast.Attribute)}
                attr_targets = any(isinstance(t, ast.Attribute) for t in st.targets[0].elts)
                # with attribute targets, a call on the right could read them through another path: only calls that take no receiver `self`
                calls_self = any(isinstance(n, ast.Call) and any(isinstance(x, ast.Name) and x.id == 'self' for x in ast.walk(n)) for v in st.value.elts for n in ast.walk(v))
                if not (names & reads) and len(names) == len(st.targets[0].elts) and (all(_pure(v) for v in st.value.elts[:-1]) or (not (attr_targets and calls_self) and not (names & reads))):
                    for t, v in zip(st.targets[0].elts, st.value.elts):
                        a = ast.Assign(targets=[t], value=v, type_comment=None)
                        out.append(_fix(a, st))
                    continue
            out.append(st)
        return out

    @staticmethod
    def _unroll_literal_loops(stmts):
        """for x in ("a", "b"): BODY  ->  BODY[x:="a"]; BODY[x:="b"]   (a literal tuple / list of at most 4 constants, no break / continue / else,
        the body does not assign x)"""
        def no_continue(body):
            """`if C: A; continue` followed by REST  ==  `if C: A` else: REST  (top level of a loop body; a trailing `continue` is dropped)"""
            res = []
            for i, b in enumerate(body):
                if isinstance(b, ast.Continue):
                    return res or [_fix(ast.Pass(), b)]
                if isinstance(b, ast.If) and not b.orelse and b.body and isinstance(b.body[-1], ast.Continue) \
                        and not any(isinstance(n, (ast.Continue, ast.Break)) for x in b.body[:-1] for n in ast.walk(x)):
                    rest = no_continue(body[i + 1:])
                    res.append(_fix(ast.If(test=b.test, body=b.body[:-1] or [_fix(ast.Pass(), b)], orelse=rest), b))
                    return res
                res.append(b)
            return res
        out = []
        for st in stmts:
            if isinstance(st, (ast.For, ast.While)) and not st.orelse and any(isinstance(n, ast.Continue) for b in st.body for n in ast.walk(b)) \
                    and not any(isinstance(n, (ast.For, ast.AsyncFor, ast.While)) for b in st.body for n in ast.walk(b)):
                nb_ = no_continue(list(st.body))
                if not any(isinstance(n, ast.Continue) for b in nb_ for n in ast.walk(b)):
                    st.body = nb_
            # for a, b in ((X1, Y1), (X2, Y2)): BODY  ->  BODY[a:=X1, b:=Y1]; BODY[a:=X2, b:=Y2]   (names / attribute chains only; the body assigns neither a nor b nor what they read)
            if isinstance(st, ast.For) and not st.orelse and isinstance(st.target, ast.Tuple) and all(isinstance(t, ast.Name) for t in st.target.elts) \
                    and isinstance(st.iter, (ast.Tuple, ast.List)) and 1 <= len(st.iter.elts) <= 4 \
                    and all(isinstance(x, (ast.Tuple, ast.List)) and len(x.elts) == len(st.target.elts) and all(_atomic(y) or isinstance(y, ast.Constant) for y in x.elts) for x in st.iter.elts) \
                    and not any(isinstance(n, (ast.Break, ast.Continue)) for b in st.body for n in ast.walk(b)) and sum(1 for b in st.body for _ in ast.walk(b)) <= 400:
                tnames = {t.id for t in st.target.elts}
                read_names = {n.id for x in st.iter.elts for y in x.elts for n in ast.walk(y) if isinstance(n, ast.Name)}
                stored = {n.id for b in st.body for n in ast.walk(b) if isinstance(n, ast.Name) and isinstance(n.ctx, (ast.Store, ast.Del))}
                stored_attrs = {ast.unparse(n) for b in st.body for n in ast.walk(b) if isinstance(n, ast.Attribute) and isinstance(n.ctx, (ast.Store, ast.Del))}
                read_attrs = {ast.unparse(y) for x in st.iter.elts for y in x.elts if isinstance(y, ast.Attribute)}
                if not (stored & (tnames | read_names)) and not (stored_attrs & read_attrs):
                    for x in st.iter.elts:
                        mp = {t.id: y for t, y in zip(st.target.elts, x.elts)}
                        for b in st.body:
                            nb = _Subst(mp).visit(copy.deepcopy(b))
                            ast.fix_missing_locations(nb)
                            out.append(nb)
                    continue
            if isinstance(st, ast.For) and not st.orelse and isinstance(st.target, ast.Name) and isinstance(st.iter, (ast.Tuple, ast.List)) and 1 <= len(st.iter.elts) <= 4 \
                    and all(isinstance(x, ast.Constant) for x in st.iter.elts) \
                    and not any(isinstance(n, (ast.Break, ast.Continue)) for b in st.body for n in ast.walk(b)) \
                    and not any(isinstance(n, ast.Name) and n.id == st.target.id and isinstance(n.ctx, (ast.Store, ast.Del)) for b in st.body for n in ast.walk(b)) \
                    and sum(1 for b in st.body for _ in ast.walk(b)) <= 400:
                # names assigned in the body keep their last value after the loop, as they do after the unrolled copies
                for c in st.iter.elts:
                    for b in st.body:
                        nb = _Subst({st.target.id: c}).visit(copy.deepcopy(b))
                        ast.fix_missing_locations(nb)
                        out.append(nb)
                continue
            out.append(st)
        return out

    @staticmethod
    def _member_flags(stmts):
        """x = Cls.MEMBER; if x is Cls.OTHER: A else: B   ->   x = Cls.MEMBER; B      (a local just bound to a member of a class, written Cls.UPPER_CASE,
        compared by is / == / is not / != with a member of the same class written the same way: members of one class with different names are different
        objects, with the same name the same object; only while x is not rebound, in the same statement list)"""
        def member(e):
            if isinstance(e, ast.Attribute) and isinstance(e.value, ast.Name) and e.value.id[:1].isupper() and e.attr.isupper() and isinstance(e.ctx, ast.Load):
                return (e.value.id, e.attr)
            return None
        def decide(test, known):
            if isinstance(test, ast.Compare) and len(test.ops) == 1 and isinstance(test.ops[0], (ast.Is, ast.IsNot, ast.Eq, ast.NotEq)):
                a, b = test.left, test.comparators[0]
                for x, y in ((a, b), (b, a)):
                    if isinstance(x, ast.Name) and x.id in known and member(y) is not None and member(y)[0] == known[x.id][0]:
                        same = member(y) == known[x.id]
                        return same if isinstance(test.ops[0], (ast.Is, ast.Eq)) else not same
            return None
        def fold(st, known):
            if isinstance(st, ast.If):
                d = decide(st.test, known)
                if d is True:
                    return list(st.body)
                if d is False:
                    out_ = []
                    for x in st.orelse:
                        out_.extend(fold(x, known))
                    return out_ or [_fix(ast.Pass(), st)]
            return [st]
        known = {}
        out = []
        for st in stmts:
            new = fold(st, known) if known else [st]
            for s2 in new:
                stores = {n.id for n in ast.walk(s2) if isinstance(n, ast.Name) and isinstance(n.ctx, (ast.Store, ast.Del))}
                for nm in stores:
                    known.pop(nm, None)
                if isinstance(s2, ast.Assign) and len(s2.targets) == 1 and isinstance(s2.targets[0], ast.Name) and member(s2.value) is not None:
                    known[s2.targets[0].id] = member(s2.value)
                out.append(s2)
        return out

    @staticmethod
    def _iterator_loops(stmts):
        """it = iter(X); while True: v = next(it, None); if v is None: break; BODY   ->   for v in X: BODY
        (`it` used nowhere else; holds for sequences without None elements -- the packets, frames and fields this code iterates over)"""
        out = []
        i = 0
        while i < len(stmts):
            st = stmts[i]
            nxt = stmts[i + 1] if i + 1 < len(stmts) else None
            done = False
            if isinstance(st, ast.Assign) and len(st.targets) == 1 and isinstance(st.targets[0], ast.Name) and isinstance(st.value, ast.Call) and isinstance(st.value.func, ast.Name) \
                    and st.value.func.id == 'iter' and len(st.value.args) == 1 and not st.value.keywords and isinstance(nxt, ast.While) and not nxt.orelse \
                    and isinstance(nxt.test, ast.Constant) and nxt.test.value is True and len(nxt.body) >= 3:
                itn = st.targets[0].id
                a, b = nxt.body[0], nxt.body[1]
                if isinstance(a, ast.Assign) and len(a.targets) == 1 and isinstance(a.targets[0], ast.Name) and isinstance(a.value, ast.Call) and isinstance(a.value.func, ast.Name) \
                        and a.value.func.id == 'next' and len(a.value.args) == 2 and isinstance(a.value.args[0], ast.Name) and a.value.args[0].id == itn \
                        and isinstance(a.value.args[1], ast.Constant) and a.value.args[1].value is None \
                        and isinstance(b, ast.If) and not b.orelse and len(b.body) == 1 and isinstance(b.body[0], ast.Break) and ast.unparse(b.test) == f"{a.targets[0].id} is None":
                    v = a.targets[0].id
                    rest = nxt.body[2:]
                    uses = sum(1 for s_ in stmts for n in ast.walk(s_) if isinstance(n, ast.Name) and n.id == itn)
                    if uses == 2 and not any(isinstance(n, ast.Name) and n.id == v and isinstance(n.ctx, (ast.Store, ast.Del)) for r in rest for n in ast.walk(r)):
                        f = ast.For(target=ast.Name(id=v, ctx=ast.Store()), iter=st.value.args[0], body=rest, orelse=[], type_comment=None)
                        out.append(_fix(f, nxt)); ast.fix_missing_locations(out[-1])
                        i += 2
                        done = True
            if not done:
                out.append(st); i += 1
        return out

    def _accumulate_loops(self, stmts):
        """`x = 0; for b in D: x = (x << 8) | b`  ->  `x = int.from_bytes(D, 'big')`   (D: a bytes parameter of the function; `reversed(D)`: 'little')"""
        out = []
        i = 0
        while i < len(stmts):
            st = stmts[i]
            nxt = stmts[i + 1] if i + 1 < len(stmts) else None
            done = False
            if isinstance(st, ast.Assign) and len(st.targets) == 1 and isinstance(st.targets[0], ast.Name) and isinstance(st.value, ast.Constant) and st.value.value == 0 \
                    and type(st.value.value) is int and isinstance(nxt, ast.For) and not nxt.orelse and isinstance(nxt.target, ast.Name) and len(nxt.body) == 1:
                x, b = st.targets[0].id, nxt.target.id
                body = nxt.body[0]
                it = nxt.iter
                order = 'big'
                if isinstance(it, ast.Call) and isinstance(it.func, ast.Name) and it.func.id == 'reversed' and len(it.args) == 1:
                    it, order = it.args[0], 'little'
                shapes = {f"{x} = {x} << 8 | {b}", f"{x} = ({x} << 8) + {b}", f"{x} = {x} * 256 + {b}", f"{x} = {b} | {x} << 8", f"{x} = {b} + ({x} << 8)", f"{x} = 256 * {x} + {b}", f"{x} = {x} * 256 | {b}"}
                params = getattr(self, 'bytes_params', [set()])[-1]
                if ast.unparse(body) in shapes and isinstance(it, ast.Name) and it.id in params and x != b:
                    call = ast.Call(func=ast.Attribute(value=ast.Name(id='int', ctx=ast.Load()), attr='from_bytes', ctx=ast.Load()), args=[it, ast.Constant(order)], keywords=[])
                    out.append(_fix(ast.Assign(targets=[ast.Name(id=x, ctx=ast.Store())], value=call, type_comment=None), st))
                    ast.fix_missing_locations(out[-1])
                    i += 2
                    done = True
            if not done:
                out.append(st)
                i += 1
        return out

    def _hoist_walrus(self, test):
        """-> (assignments, new test) : leading walruses of the test turned into assignments that precede it"""
        pre = []
        for _ in range(4):
            w, path = self._leading_walrus(test)
            if w is None:
                break
            name = _fix(ast.Name(id=w.target.id, ctx=ast.Load()), w)
            pre.append(_fix(ast.Assign(targets=[ast.Name(id=w.target.id, ctx=ast.Store())], value=w.value, type_comment=None), w))
            if not path:
                test = name
            else:
                holder, field, idx = path[-1]
                if idx is None:
                    setattr(holder, field, name)
                else:
                    getattr(holder, field)[idx] = name
        return pre, test

    def _body(self, stmts):
        # `if (x := E) ...:` -> `x = E; if x ...:` ; `while (x := E) ...:` -> `while True: x = E; if not (x ...): break; ...` (continue re-evaluates E either way)
        hoisted = []
        for st in stmts:
            if isinstance(st, ast.If):
                pre, t = self._hoist_walrus(st.test)
                if pre:
                    for a in pre: ast.fix_missing_locations(a)
                    st.test = t
                    hoisted.extend(pre)
            elif isinstance(st, ast.While) and not st.orelse:
                pre, t = self._hoist_walrus(st.test)
                if pre:
                    brk = _fix(ast.If(test=_negate(t), body=[_fix(ast.Break(), st)], orelse=[]), st)
                    st.test = _fix(ast.Constant(True), st)
                    st.body = pre + [brk] + st.body
                    ast.fix_missing_locations(st)
            hoisted.append(st)
        stmts = self._accumulate_loops(self._unroll_literal_loops(self._split_parallel(hoisted)))
        stmts = self._iterator_loops(stmts)
        stmts = self._member_flags(stmts)
        out = []
        i = 0
        while i < len(stmts):
            st = stmts[i]
            nxt = stmts[i + 1] if i + 1 < len(stmts) else None
            # acquire / try / finally release
            lk = _acquire_of(st)
            if lk is not None and isinstance(nxt, ast.Try) and not nxt.handlers and not nxt.orelse and len(nxt.finalbody) == 1 and _release_of(nxt.finalbody[0], lk[0]):
                cls = ast.AsyncWith if lk[1] else ast.With
                w = cls(items=[ast.withitem(context_expr=lk[0], optional_vars=None)], body=nxt.body, type_comment=None)
                out.append(_fix(w, st))
                i += 2
                continue
            out.append(st)
            i += 1
        # try / except (always leaves) / else
        res = []
        for st in out:
            if isinstance(st, ast.Try) and st.orelse and not st.finalbody and st.handlers and all(_always_leaves(h.body) for h in st.handlers):
                tail = st.orelse
                st.orelse = []
                res.append(st)
                res.extend(tail)
            else:
                res.append(st)
        return res

    def generic_visit(self, node):
        node = super().generic_visit(node)
        for field in ('body', 'orelse', 'finalbody'):
            v = getattr(node, field, None)
            if isinstance(v, list) and v and isinstance(v[0], ast.stmt):
                setattr(node, field, self._body(v))
        return node

    def _fn(self, node):
        self.in_fn = getattr(self, 'in_fn', 0) + 1
        if not hasattr(self, 'bytes_params'):
            self.bytes_params = []
        self.bytes_params.append({a.arg for a in node.args.args + node.args.kwonlyargs
                                  if a.annotation is not None and ast.unparse(a.annotation).replace(' ', '') in ('bytes', 'bytearray', 'bytes|bytearray', 'bytearray|bytes')})
        node = self.generic_visit(node)
        self.bytes_params.pop()
        self.in_fn -= 1
        return node
    visit_FunctionDef = _fn
    visit_AsyncFunctionDef = _fn

    def visit_ClassDef(self, node):
        saved, self.in_fn = getattr(self, 'in_fn', 0), 0
        node = self.generic_visit(node)
        self.in_fn = saved
        return node

    def visit_AnnAssign(self, node):
        node = self.generic_visit(node)
        # the annotation of a local is not behaviour (class-level annotated assignments are: dataclass fields)
        if getattr(self, 'in_fn', 0) and node.value is not None and isinstance(node.target, (ast.Name, ast.Attribute)):
            return _fix(ast.Assign(targets=[node.target], value=node.value, type_comment=None), node)
        return node

    def visit_Match(self, node):
        """match S: case V1 | V2: A  case _: B   ->   if S == V1 or S == V2: A  else: B     (value / or / wildcard / capture-free class patterns,
        a subject that can be evaluated again without effect)"""
        node = self.generic_visit(node)
        subj = node.subject
        pre = []
        if not _pure(subj):
            # evaluated once, into a name of its own
            self._mcount = getattr(self, '_mcount', 0) + 1
            tmp = f"subject__m{self._mcount}"
            pre = [_fix(ast.Assign(targets=[ast.Name(id=tmp, ctx=ast.Store())], value=subj, type_comment=None), node)]
            ast.fix_missing_locations(pre[0])
            subj = ast.Name(id=tmp, ctx=ast.Load())
        def test_of(p):
            if isinstance(p, ast.MatchValue):
                return ast.Compare(left=copy.deepcopy(subj), ops=[ast.Eq()], comparators=[p.value])
            if isinstance(p, ast.MatchSingleton):
                return ast.Compare(left=copy.deepcopy(subj), ops=[ast.Is()], comparators=[ast.Constant(p.value)])
            if isinstance(p, ast.MatchOr):
                ts = [test_of(q) for q in p.patterns]
                if any(t is None or t is True for t in ts):
                    return None
                return ast.BoolOp(op=ast.Or(), values=ts)
            if isinstance(p, ast.MatchAs) and p.pattern is None and p.name is None:
                return True
            if isinstance(p, ast.MatchClass) and not p.patterns and not p.kwd_patterns:
                return ast.Call(func=ast.Name(id='isinstance', ctx=ast.Load()), args=[copy.deepcopy(subj), p.cls], keywords=[])
            return None
        arms = []
        for c in node.cases:
            t = test_of(c.pattern)
            if t is None:
                return node
            if c.guard is not None:
                t = c.guard if t is True else ast.BoolOp(op=ast.And(), values=[t, c.guard])
            arms.append((t, c.body))
        chain = []
        for t, body in reversed(arms):
            if t is True:
                chain = body
            else:
                chain = [ast.If(test=t, body=body, orelse=chain)]
        if not chain:
            return node
        if len(chain) == 1:
            new = chain[0]
            _fix(new, node); ast.fix_missing_locations(new)
            return pre + [new] if pre else new
        new = ast.If(test=ast.Constant(True), body=chain, orelse=[])
        _fix(new, node); ast.fix_missing_locations(new)
        return pre + [new] if pre else new

    def visit_If(self, node):
        node = self.generic_visit(node)
        node.test = self._unbool(node.test)
        if len(node.body) == 1 and isinstance(node.body[0], ast.Pass) and node.orelse:
            node.test = _fix(_negate(node.test), node.test)
            node.body, node.orelse = node.orelse, []
        return node

    def visit_While(self, node):
        node = self.generic_visit(node)
        if isinstance(node.test, ast.Constant) and node.test.value is True and not node.orelse and node.body:
            first = node.body[0]
            if isinstance(first, ast.If) and not first.orelse and len(first.body) == 1 and isinstance(first.body[0], ast.Break) and len(node.body) > 1:
                rest = node.body[1:]
                neg = _negate(first.test)
                node.test = _fix(neg, first.test)
                node.body = rest
        return node

    def visit_Try(self, node):
        node = self.generic_visit(node)
        new = []
        import copy as _copy
        work = list(node.handlers)
        while work:
            h = work.pop(0)
            # `except Exception as e: if isinstance(e, T): A else: B; R`  ==  `except T as e: A; R` / `except Exception as e: B; R`
            # (T exception classes, hence subclasses of what the handler catches; e not rebound; a leading logging call moves into both)
            lead = 0
            while h.name and lead < len(h.body) and isinstance(h.body[lead], ast.Expr) and isinstance(h.body[lead].value, ast.Call) and _is_logger_call(h.body[lead].value):
                lead += 1
            if h.name and lead < len(h.body) and isinstance(h.body[lead], ast.If):
                first = h.body[lead]
                t = first.test
                neg = False
                if isinstance(t, ast.UnaryOp) and isinstance(t.op, ast.Not):
                    t = t.operand; neg = True
                rebound = any(isinstance(x, ast.Name) and x.id == h.name and isinstance(x.ctx, (ast.Store, ast.Del)) for st_ in h.body for x in ast.walk(st_))
                if isinstance(t, ast.Call) and isinstance(t.func, ast.Name) and t.func.id == 'isinstance' and len(t.args) == 2 and not t.keywords \
                        and isinstance(t.args[0], ast.Name) and t.args[0].id == h.name and (h.type is None or (isinstance(h.type, ast.Name) and h.type.id in ('Exception', 'BaseException'))) \
                        and _exc_types(t.args[1]) and not rebound:
                    yes, no = (first.orelse, first.body) if neg else (first.body, first.orelse)
                    rest = h.body[lead + 1:]
                    pre = h.body[:lead]
                    b1 = _copy.deepcopy(pre) + list(yes) + ([] if _always_leaves(yes) else _copy.deepcopy(rest))
                    b2 = pre + list(no) + ([] if (no and _always_leaves(no)) else rest)
                    h1 = _fix(ast.ExceptHandler(type=t.args[1], name=h.name, body=b1 or [_fix(ast.Pass(), h)]), h)
                    h2 = _fix(ast.ExceptHandler(type=h.type, name=h.name, body=b2 or [_fix(ast.Pass(), h)]), h)
                    new.append(h1)
                    work.insert(0, h2)
                    continue
            new.append(h)
        node.handlers = new
        return node

def _exc_types(n):
    if isinstance(n, ast.Name):
        return n.id.endswith('Error') or n.id.endswith('Exception')
    if isinstance(n, ast.Tuple):
        return bool(n.elts) and all(_exc_types(e) for e in n.elts)
    return False

def _negate(test):
    if isinstance(test, ast.Compare) and len(test.ops) == 1:
        flip = {ast.Eq: ast.NotEq, ast.NotEq: ast.Eq, ast.Is: ast.IsNot, ast.IsNot: ast.Is, ast.In: ast.NotIn, ast.NotIn: ast.In}
        if type(test.ops[0]) in flip:
            return ast.Compare(left=test.left, ops=[flip[type(test.ops[0])]()], comparators=test.comparators)
    if isinstance(test, ast.UnaryOp) and isinstance(test.op, ast.Not):
        return test.operand          # `while not (not X)` and `while X` loop alike: the test is only used for its truth value
    return ast.UnaryOp(op=ast.Not(), operand=test)

def _acquire_of(st):
    if isinstance(st, ast.Expr):
        v = st.value
        is_async = False
        if isinstance(v, ast.Await):
            v = v.value
            is_async = True
        if isinstance(v, ast.Call) and isinstance(v.func, ast.Attribute) and v.func.attr == 'acquire' and not v.args and not v.keywords and _pure(v.func.value):
            return v.func.value, is_async
    return None

def _release_of(st, lock):
    return isinstance(st, ast.Expr) and isinstance(st.value, ast.Call) and isinstance(st.value.func, ast.Attribute) and st.value.func.attr == 'release' \
        and not st.value.args and _dump(st.value.func.value) == _dump(lock)

def _fix(new, at):
    ast.copy_location(new, at)
    for n in ast.walk(new):
        if isinstance(n, (ast.expr, ast.stmt, ast.excepthandler)) and not hasattr(n, 'lineno'):
            ast.copy_location(n, at)
    return new


# ------------------------------------------------------------------------------------------------- R2 stable alias
def _init_only_attrs(cls_nodes, cname):
    """attributes of self stored only inside __init__ in the class and the classes of the module related to it"""
    related = set()
    def bases(c, seen):
        if c in seen or c not in cls_nodes:
            return
        seen.add(c)
        for b in cls_nodes[c].bases:
            if isinstance(b, ast.Name):
                bases(b.id, seen)
    up = set(); bases(cname, up)
    for c in cls_nodes:
        s = set(); bases(c, s)
        if s & up:
            related.add(c)
    inited, elsewhere = set(), set()
    for c in related:
        for st in cls_nodes[c].body:
            if isinstance(st, (ast.FunctionDef, ast.AsyncFunctionDef)):
                for n in ast.walk(st):
                    if isinstance(n, ast.Attribute) and isinstance(n.ctx, (ast.Store, ast.Del)):
                        (inited if st.name == '__init__' and isinstance(n.value, ast.Name) and n.value.id == 'self' else elsewhere).add(n.attr)
    return inited - elsewhere

def _alias_pass(fn, stable):
    if fn.name == '__init__':
        return 0
    counts = {}
    for n in ast.walk(fn):
        if isinstance(n, ast.Name) and isinstance(n.ctx, (ast.Store, ast.Del)):
            counts[n.id] = counts.get(n.id, 0) + 1
    params = {a.arg for a in fn.args.args + fn.args.kwonlyargs + fn.args.posonlyargs}
    done = [0]
    def total_loads(name):
        return sum(1 for n in ast.walk(fn) if isinstance(n, ast.Name) and n.id == name and isinstance(n.ctx, ast.Load))
    def do_block(stmts):
        i = 0
        while i < len(stmts):
            st = stmts[i]
            for field in ('body', 'orelse', 'finalbody'):
                v = getattr(st, field, None)
                if isinstance(v, list) and v and isinstance(v[0], ast.stmt):
                    do_block(v)
            if isinstance(st, ast.Try):
                for h in st.handlers:
                    do_block(h.body)
            if isinstance(st, ast.Assign) and len(st.targets) == 1 and isinstance(st.targets[0], ast.Name):
                v = st.value
                nm = st.targets[0].id
                if counts.get(nm) == 1 and nm not in params and isinstance(v, ast.Attribute) and isinstance(v.value, ast.Name) and v.value.id == 'self' and v.attr in stable:
                    rest = stmts[i + 1:]
                    inside = sum(1 for r in rest for n in ast.walk(r) if isinstance(n, ast.Name) and n.id == nm and isinstance(n.ctx, ast.Load))
                    # every use lies behind the binding in the same block (or nested in it): the binding dominates them
                    if inside == total_loads(nm):
                        sub = _Subst({nm: v})
                        stmts[i + 1:] = [sub.visit(r) for r in rest]
                        del stmts[i]
                        done[0] += 1
                        continue
            i += 1
    do_block(fn.body)
    return done[0]


# ------------------------------------------------------------------------------------------------- R6 short-lived attribute alias
def _is_logger_call(c):
    f = c.func
    return isinstance(f, ast.Attribute) and ((isinstance(f.value, ast.Name) and f.value.id == 'logger') or (isinstance(f.value, ast.Attribute) and f.value.attr == 'logger'))

def _attr_alias_pass(fn):
    """`t = self.a` (t bound once) whose every use is evaluated before anything that could rebind self.a -- no await, no call other than logging
    and the calls the uses themselves belong to, no store to `.a` between the binding and the last use: `self.a` is written where `t` was"""
    counts = {}
    for n in ast.walk(fn):
        if isinstance(n, ast.Name) and isinstance(n.ctx, (ast.Store, ast.Del)):
            counts[n.id] = counts.get(n.id, 0) + 1
    params = {a.arg for a in fn.args.args + fn.args.kwonlyargs + fn.args.posonlyargs}
    done = 0
    def flat(stmts):
        for st in stmts:
            yield st
    def try_block(stmts):
        nonlocal done
        i = 0
        while i < len(stmts):
            st = stmts[i]
            for field in ('body', 'orelse', 'finalbody'):
                v = getattr(st, field, None)
                if isinstance(v, list) and v and isinstance(v[0], ast.stmt):
                    try_block(v)
            if isinstance(st, ast.Try):
                for h in st.handlers:
                    try_block(h.body)
            ok = isinstance(st, ast.Assign) and len(st.targets) == 1 and isinstance(st.targets[0], ast.Name) and isinstance(st.value, ast.Attribute) \
                and isinstance(st.value.value, ast.Name) and st.value.value.id == 'self' and counts.get(st.targets[0].id) == 1 and st.targets[0].id not in params
            if ok:
                t, attr = st.targets[0].id, st.value.attr
                rest = stmts[i + 1:]
                uses_outside = sum(1 for n in ast.walk(fn) if isinstance(n, ast.Name) and n.id == t and isinstance(n.ctx, ast.Load)) - \
                    sum(1 for r in rest for n in ast.walk(r) if isinstance(n, ast.Name) and n.id == t and isinstance(n.ctx, ast.Load))
                if uses_outside == 0 and _alias_region_clean(rest, t, attr):
                    sub = _Subst({t: st.value})
                    stmts[i + 1:] = [sub.visit(r) for r in rest]
                    del stmts[i]
                    done += 1
                    continue
            i += 1
    try_block(fn.body)
    return done

def _alias_region_clean(rest, t, attr):
    """walk the statements after the binding in evaluation order until the last use of t; nothing effectful before that point except calls that
    take t as callee / receiver / argument (t is read before they run)"""
    # a use inside a loop, or inside a `with` block (entering a context manager may await or call anything), that starts after the binding
    # can be evaluated after arbitrary effects
    def nested_use(n, under):
        if isinstance(n, ast.Name) and n.id == t and isinstance(n.ctx, ast.Load) and under:
            return True
        u2 = under or isinstance(n, (ast.For, ast.AsyncFor, ast.While, ast.With, ast.AsyncWith))
        return any(nested_use(ch, u2) for ch in ast.iter_child_nodes(n))
    if any(nested_use(r, False) for r in rest):
        return False
    last = None
    order = []
    def visit(n):
        # post-order = evaluation order for expressions (good enough: operands before the operation)
        for ch in ast.iter_child_nodes(n):
            visit(ch)
        order.append(n)
    for r in rest:
        visit(r)
    idx_uses = [k for k, n in enumerate(order) if isinstance(n, ast.Name) and n.id == t and isinstance(n.ctx, ast.Load)]
    if not idx_uses:
        return False
    last = idx_uses[-1]
    for k, n in enumerate(order[:last]):
        if isinstance(n, (ast.Await, ast.Yield, ast.YieldFrom)):
            return False
        if isinstance(n, ast.Call) and not _is_logger_call(n):
            f = n.func
            on_t = (isinstance(f, ast.Name) and f.id == t) or (isinstance(f, ast.Attribute) and isinstance(f.value, ast.Name) and f.value.id == t)
            if not on_t:          # a method of the aliased object itself does not rebind the attribute that holds it
                return False
        if isinstance(n, ast.Attribute) and n.attr == attr and isinstance(n.ctx, (ast.Store, ast.Del)):
            return False
        if isinstance(n, (ast.While, ast.For, ast.AsyncFor)):
            return False          # a loop could bring a later effect before an earlier use
    return True


# ------------------------------------------------------------------------------------------------- R5 single-use locals
def _first_eval_use(stmt, name):
    """the Name node loading `name` inside `stmt` if it is evaluated exactly once, unconditionally, and before anything impure; else None"""
    slots = []
    if isinstance(stmt, (ast.Expr, ast.Return, ast.Assign, ast.AnnAssign, ast.AugAssign)) and getattr(stmt, 'value', None) is not None:
        slots.append(stmt.value)
    elif isinstance(stmt, ast.If):
        slots.append(stmt.test)
    elif isinstance(stmt, (ast.For, ast.AsyncFor)):
        slots.append(stmt.iter)
    elif isinstance(stmt, (ast.With, ast.AsyncWith)) and len(stmt.items) >= 1:
        slots.append(stmt.items[0].context_expr)
    elif isinstance(stmt, ast.Raise) and stmt.exc is not None:
        slots.append(stmt.exc)
    else:
        return None
    found = []
    state = {'blocked': False}
    def walk(n):
        if state['blocked']:
            return
        if isinstance(n, ast.Name):
            if n.id == name and isinstance(n.ctx, ast.Load):
                found.append(n)
            return
        if isinstance(n, (ast.Lambda, ast.GeneratorExp, ast.ListComp, ast.SetComp, ast.DictComp, ast.NamedExpr)):
            state['blocked'] = True
            return
        if isinstance(n, ast.BoolOp):
            walk(n.values[0]); state['blocked'] = True; return
        if isinstance(n, ast.IfExp):
            walk(n.test); state['blocked'] = True; return
        if isinstance(n, ast.Compare) and len(n.ops) > 1:
            walk(n.left); walk(n.comparators[0]); state['blocked'] = True; return
        if isinstance(n, (ast.Call, ast.Await)):
            for ch in ast.iter_child_nodes(n):
                walk(ch)
            if not found:
                state['blocked'] = True      # an impure node evaluated before the use
            return
        for ch in ast.iter_child_nodes(n):
            walk(ch)
    for sl in slots:
        walk(sl)
    return found[0] if len(found) == 1 else None

def _rebound_locals_pass(fn):
    """a local bound several times by plain assignments at the top level of the function body (and nowhere else) is one name for several values:
    each binding gets its own name (t, t__r2, ...) so that the passes that need single bindings apply.  Uses between two bindings see the earlier."""
    if _contains(fn.body, (ast.Global, ast.Nonlocal)):
        return 0
    params = {a.arg for a in fn.args.args + fn.args.kwonlyargs + fn.args.posonlyargs}
    if fn.args.vararg: params.add(fn.args.vararg.arg)
    if fn.args.kwarg: params.add(fn.args.kwarg.arg)
    total = {}
    for n in ast.walk(fn):
        if isinstance(n, ast.Name) and isinstance(n.ctx, (ast.Store, ast.Del)):
            total[n.id] = total.get(n.id, 0) + 1
    top = {}
    for st in fn.body:
        if isinstance(st, ast.Assign) and len(st.targets) == 1 and isinstance(st.targets[0], ast.Name):
            top[st.targets[0].id] = top.get(st.targets[0].id, 0) + 1
    captured = set()
    for n in ast.walk(fn):
        if n is not fn and isinstance(n, (ast.FunctionDef, ast.AsyncFunctionDef, ast.Lambda)):
            for x in ast.walk(n):
                if isinstance(x, ast.Name):
                    captured.add(x.id)
    names = [nm for nm, c in top.items() if c >= 2 and total.get(nm) == c and nm not in params and nm not in captured]
    done = 0
    for nm in names:
        version = 0
        cur = None
        for st in fn.body:
            is_def = isinstance(st, ast.Assign) and len(st.targets) == 1 and isinstance(st.targets[0], ast.Name) and st.targets[0].id == nm
            scope = [st.value] if is_def else [st]
            if cur is not None and cur != nm:
                for part in scope:
                    for n in ast.walk(part):
                        if isinstance(n, ast.Name) and n.id == nm and isinstance(n.ctx, ast.Load):
                            n.id = cur
            if is_def:
                version += 1
                cur = nm if version == 1 else f"{nm}__r{version}"
                st.targets[0].id = cur
                if version > 1:
                    done += 1
    return done

def _single_use_pass(fn):
    """`t = E` immediately followed by a statement that evaluates `t` once, first and unconditionally, `t` bound and used nowhere else:
    E is written where `t` was (same evaluation order, same values)"""
    stores, loads = {}, {}
    for n in ast.walk(fn):
        if isinstance(n, ast.Name):
            d = stores if isinstance(n.ctx, (ast.Store, ast.Del)) else loads
            d[n.id] = d.get(n.id, 0) + 1
    params = {a.arg for a in fn.args.args + fn.args.kwonlyargs + fn.args.posonlyargs}
    if _contains(fn.body, (ast.Global, ast.Nonlocal)):
        return 0
    # names captured by nested functions / lambdas / comprehensions are left alone
    captured = set()
    for n in ast.walk(fn):
        if n is not fn and isinstance(n, (ast.FunctionDef, ast.AsyncFunctionDef, ast.Lambda, ast.GeneratorExp, ast.ListComp, ast.SetComp, ast.DictComp)):
            for x in ast.walk(n):
                if isinstance(x, ast.Name):
                    captured.add(x.id)
    count = [0]
    def do_block(stmts):
        i = 0
        while i < len(stmts):
            st = stmts[i]
            for field in ('body', 'orelse', 'finalbody'):
                v = getattr(st, field, None)
                if isinstance(v, list) and v and isinstance(v[0], ast.stmt):
                    do_block(v)
            if isinstance(st, ast.Try):
                for h in st.handlers:
                    do_block(h.body)
            if i + 1 < len(stmts) and isinstance(st, (ast.Assign, ast.AnnAssign)) and getattr(st, 'value', None) is not None:
                tg = st.targets[0] if isinstance(st, ast.Assign) and len(st.targets) == 1 else (st.target if isinstance(st, ast.AnnAssign) else None)
                if isinstance(tg, ast.Name) and stores.get(tg.id) == 1 and loads.get(tg.id) == 1 and tg.id not in params and tg.id not in captured \
                        and not isinstance(st.value, (ast.Yield, ast.YieldFrom)):
                    k = i + 1
                    # logging statements in between neither change nor observe what a pure expression reads
                    while _pure(st.value) and k + 1 < len(stmts) and isinstance(stmts[k], ast.Expr) and isinstance(stmts[k].value, ast.Call) and _is_logger_call(stmts[k].value) \
                            and not any(isinstance(n, ast.Name) and n.id == tg.id for n in ast.walk(stmts[k])):
                        k += 1
                    use = _first_eval_use(stmts[k], tg.id)
                    if use is not None:
                        new = st.value
                        # replace in place
                        class R(ast.NodeTransformer):
                            def visit_Name(self, node):
                                return new if node is use else node
                        stmts[k] = R().visit(stmts[k])
                        del stmts[i]
                        count[0] += 1
                        if i > 0:
                            i -= 1       # the statement before may now feed this one
                        continue
            i += 1
    do_block(fn.body)
    return count[0]


# ------------------------------------------------------------------------------------------------- R4 inlining
class _Renamer(ast.NodeTransformer):
    def __init__(self, mapping):
        self.mapping = mapping          # old name -> new name (str) or expression (ast) for loads
    def visit_Name(self, node):
        m = self.mapping.get(node.id)
        if m is None:
            return node
        if isinstance(m, str):
            return ast.copy_location(ast.Name(id=m, ctx=node.ctx), node)
        if isinstance(node.ctx, ast.Load):
            return _reloc(copy.deepcopy(m), node)
        return node
    def visit_ExceptHandler(self, node):
        node = self.generic_visit(node)
        if node.name and isinstance(self.mapping.get(node.name), str):
            node.name = self.mapping[node.name]
        return node
    def visit_arg(self, node):
        if isinstance(self.mapping.get(node.arg), str):
            node.arg = self.mapping[node.arg]
        return node

class NotInlinable(Exception):
    pass

def _tailify(stmts, budget=[0]):
    """rewrite so that every `return` is the last statement of its path (statements after an `if` that returns in one
    arm move into the other arm).  Raises NotInlinable when a return sits inside a loop / try / with."""
    out = []
    for i, st in enumerate(stmts):
        if isinstance(st, ast.Return):
            out.append(st)
            return out
        if isinstance(st, ast.Raise):
            out.append(st)
            return out
        if isinstance(st, ast.If):
            has_ret = _contains(st.body, ast.Return) or _contains(st.orelse, ast.Return)
            if has_ret:
                rest = stmts[i + 1:]
                budget[0] += len(rest)
                if budget[0] > 400:
                    raise NotInlinable('too much duplication')
                body = st.body + ([] if _always_returns(st.body) else copy.deepcopy(rest))
                orelse = st.orelse + ([] if _always_returns(st.orelse) and st.orelse else copy.deepcopy(rest))
                new = ast.If(test=st.test, body=_tailify(body, budget) or [ast.Pass()], orelse=_tailify(orelse, budget))
                out.append(ast.copy_location(new, st))
                return out
            out.append(st)
            continue
        if isinstance(st, ast.Try) and _contains(st, ast.Return):
            # `try: ...; return E  except X: ...` as the last statement of the helper: the returns stay where they are (tail of the body, tails of the handlers)
            if i != len(stmts) - 1 or st.orelse or _contains(st.finalbody, ast.Return) or not _always_returns(st.body):
                raise NotInlinable('return inside a try block that is not the tail of the helper')
            new = ast.Try(body=_tailify(st.body, budget), handlers=[ast.copy_location(ast.ExceptHandler(type=h.type, name=h.name, body=_tailify(h.body, budget) or [ast.Pass()]), h) for h in st.handlers],
                          orelse=[], finalbody=st.finalbody)
            out.append(ast.copy_location(new, st))
            return out
        if _contains(st, ast.Return):
            raise NotInlinable('return inside a loop or with block')
        out.append(st)
    return out

def _replace_returns(stmts, make, at):
    """stmts in tail form (see _tailify); `make(value_or_None, where)` gives the statements replacing a return; a path
    that falls off the end gets make(None, at)"""
    out = []
    for st in stmts:
        if isinstance(st, ast.Return):
            out.extend(make(st.value, st))
            return out
        if isinstance(st, ast.Raise):
            out.append(st)
            return out
        if isinstance(st, ast.If) and (_contains(st.body, ast.Return) or _contains(st.orelse, ast.Return)):
            b = _replace_returns(st.body, make, st)
            o = _replace_returns(st.orelse, make, st)
            new = ast.If(test=st.test, body=b or [ast.copy_location(ast.Pass(), st)], orelse=o)
            out.append(ast.copy_location(new, st))
            return out
        if isinstance(st, ast.Try) and _contains(st, ast.Return):
            b = _replace_returns(st.body, make, st)
            hs = [ast.copy_location(ast.ExceptHandler(type=h.type, name=h.name, body=_replace_returns(h.body, make, h) or [ast.copy_location(ast.Pass(), h)]), h) for h in st.handlers]
            new = ast.Try(body=b or [ast.copy_location(ast.Pass(), st)], handlers=hs, orelse=[], finalbody=st.finalbody)
            out.append(ast.copy_location(new, st))
            return out
        out.append(st)
    out.extend(make(None, at))
    return out


class Inliner:
    def __init__(self, module, tree):
        self.module = module
        self.tree = tree
        self.counter = 0
        self.inlined = {}      # qualname -> times
        self.skipped = {}      # qualname -> reason
        self.funcs = {}        # module-level name -> def
        self.classes = {}      # class name -> ClassDef
        self.methods = {}      # class name -> {name -> def}
        for st in tree.body:
            if isinstance(st, (ast.FunctionDef, ast.AsyncFunctionDef)):
                self.funcs[st.name] = st
            elif isinstance(st, ast.ClassDef):
                self.classes[st.name] = st
                self.methods[st.name] = {m.name: m for m in st.body if isinstance(m, (ast.FunctionDef, ast.AsyncFunctionDef))}
        self.by_method_name = {}
        for c, ms in self.methods.items():
            for m in ms:
                self.by_method_name.setdefault(m, []).append(c)

    # ---- class hierarchy
    def mro(self, cname, seen=()):
        if cname not in self.classes or cname in seen:
            return []
        out = [cname]
        for b in self.classes[cname].bases:
            if isinstance(b, ast.Name):
                out += [c for c in self.mro(b.id, seen + (cname,)) if c not in out]
        return out
    def subclasses(self, cname):
        return [c for c in self.classes if c != cname and cname in self.mro(c)]

    @staticmethod
    def _decos(fn):
        out = []
        for d in fn.decorator_list:
            out.append(d.id if isinstance(d, ast.Name) else (d.attr if isinstance(d, ast.Attribute) else '?'))
        return out

    def resolve(self, call_func, cls_ctx, fn_ctx_bound):
        """-> (qualname, def, self_expr or None) for a callee expression, or None"""
        if isinstance(call_func, ast.Name):
            nm = call_func.id
            if nm in getattr(self, 'local_funcs', {}):
                return f"{self.cur_qual}.<locals>.{nm}", self.local_funcs[nm], None
            if nm in self.funcs and nm not in fn_ctx_bound:
                return nm, self.funcs[nm], None
            return None
        if not isinstance(call_func, ast.Attribute):
            return None
        recv, meth = call_func.value, call_func.attr
        if isinstance(recv, ast.Name) and recv.id in ('self', 'cls') and cls_ctx:
            for c in self.mro(cls_ctx):
                if meth in self.methods.get(c, {}):
                    # dynamic dispatch: a subclass of the context class overriding the method makes the target ambiguous
                    if any(meth in self.methods.get(s, {}) for s in self.subclasses(cls_ctx)):
                        return None
                    d = self.methods[c][meth]
                    decos = self._decos(d)
                    if 'staticmethod' in decos:
                        return f"{c}.{meth}", d, None
                    return f"{c}.{meth}", d, recv
            return None
        if isinstance(recv, ast.Name) and recv.id in self.classes and recv.id not in fn_ctx_bound:
            for c in self.mro(recv.id):
                if meth in self.methods.get(c, {}):
                    d = self.methods[c][meth]
                    decos = self._decos(d)
                    if 'staticmethod' in decos:
                        return f"{c}.{meth}", d, None
                    if 'classmethod' in decos:
                        return f"{c}.{meth}", d, recv
                    return None
            return None
        # duck typing: a method name defined by exactly one class of the module and by no built-in type
        if meth not in _BUILTIN_METHODS and len(self.by_method_name.get(meth, [])) == 1 and _atomic(recv):
            c = self.by_method_name[meth][0]
            d = self.methods[c][meth]
            if not self._decos(d) and not self.subclasses(c):
                return f"{c}.{meth}", d, recv
        return None

    def eligible(self, qual, d):
        if is_anchor(self.module, qual) and qual not in getattr(self, 'foreign', ()):
            return 'anchor'
        decos = self._decos(d)
        if any(x not in ('staticmethod', 'classmethod', 'property') for x in decos):
            return 'decorated'
        a = d.args
        if a.vararg or a.kwarg or a.posonlyargs:
            return 'star parameters'
        if _contains(d.body, (ast.Yield, ast.YieldFrom, ast.Global, ast.Nonlocal)):
            return 'generator or global'
        for n in d.body:
            if _contains(n, (ast.FunctionDef, ast.AsyncFunctionDef, ast.ClassDef), stop=()):
                return 'nested definition'
        if len(list(ast.walk(d))) > 1500:
            return 'too large'
        return None

    def fresh(self, base):
        self.counter += 1
        return f"{base}__i{self.counter}"

    def expand(self, call, is_await, qual, d, self_expr, use, at):
        """statements replacing a call.  use = ('expr',) | ('assign', targets) | ('return',) | ('temp', name)"""
        if isinstance(d, ast.AsyncFunctionDef) != bool(is_await):
            raise NotInlinable('await mismatch')
        body = copy.deepcopy(d.body)
        # docstring
        if body and isinstance(body[0], ast.Expr) and isinstance(body[0].value, ast.Constant) and isinstance(body[0].value.value, str):
            body = body[1:]
        params = [p.arg for p in d.args.args]
        defaults = dict(zip(params[len(params) - len(d.args.defaults):], d.args.defaults))
        kwonly = [p.arg for p in d.args.kwonlyargs]
        for p, dv in zip(kwonly, d.args.kw_defaults):
            if dv is not None:
                defaults[p] = dv
        binding = {}
        args = list(call.args) if call is not None else []
        if any(isinstance(a, ast.Starred) for a in args) or (call is not None and any(k.arg is None for k in call.keywords)):
            raise NotInlinable('star arguments')
        pos = list(params)
        if self_expr is not None:
            if not pos:
                raise NotInlinable('no self parameter')
            binding[pos.pop(0)] = self_expr
        if len(args) > len(pos):
            raise NotInlinable('too many arguments')
        for p, a in zip(pos, args):
            binding[p] = a
        for k in (call.keywords if call is not None else []):
            if k.arg in binding or k.arg not in params + kwonly:
                raise NotInlinable('keyword mismatch')
            binding[k.arg] = k.value
        for p in params + kwonly:
            if p not in binding:
                if p not in defaults or not _is_const_expr(defaults[p], {}):
                    raise NotInlinable(f'parameter {p} without argument')
                binding[p] = defaults[p]
        bound = _bound_names(d)
        stored = {n.id for st in body for n in ast.walk(st) if isinstance(n, ast.Name) and isinstance(n.ctx, (ast.Store, ast.Del))}
        has_attr_store = any(isinstance(n, ast.Attribute) and isinstance(n.ctx, (ast.Store, ast.Del)) for st in body for n in ast.walk(st)) or \
            any(isinstance(n, (ast.Call, ast.Await)) for st in body for n in ast.walk(st))
        pre = []
        mapping = {}
        for p in params + kwonly:
            a = binding[p]
            direct = p not in stored and (isinstance(a, (ast.Name, ast.Constant)) or (_atomic(a) and (not has_attr_store or p == (params[0] if self_expr is not None else None))))
            if p not in stored and isinstance(a, ast.Name) and a.id in ('self', 'cls'):
                direct = True
            if direct:
                mapping[p] = a
            else:
                t = self.fresh(p)
                mapping[p] = t
                pre.append(_fix(ast.Assign(targets=[ast.Name(id=t, ctx=ast.Store())], value=a, type_comment=None), at))
        for nm in bound:
            if nm not in mapping:
                mapping[nm] = self.fresh(nm)
        # a parameter bound to an expression that mentions a name the callee also uses as a local is safe: locals were renamed apart
        ren = _Renamer(mapping)
        body = [ren.visit(st) for st in body]
        body = _tailify(body, [0])
        def make(value, where):
            if use[0] == 'expr':
                if value is None or _pure(value):
                    return []
                return [_fix(ast.Expr(value=value), where)]
            if use[0] == 'return':
                return [_fix(ast.Return(value=value), where)]
            v = value if value is not None else ast.Constant(None)
            if use[0] == 'assign':
                return [_fix(ast.Assign(targets=copy.deepcopy(use[1]), value=v, type_comment=None), where)]
            if use[0] == 'temp':
                return [_fix(ast.Assign(targets=[ast.Name(id=use[1], ctx=ast.Store())], value=v, type_comment=None), where)]
            raise NotInlinable('use')
        new = _replace_returns(body, make, at)
        self.inlined[qual] = self.inlined.get(qual, 0) + 1
        return pre + new

    # ---- expression form (for positions where statements cannot be placed)
    def as_expression(self, call, qual, d, self_expr):
        if isinstance(d, ast.AsyncFunctionDef):
            raise NotInlinable('async')
        body = copy.deepcopy(d.body)
        if body and isinstance(body[0], ast.Expr) and isinstance(body[0].value, ast.Constant) and isinstance(body[0].value.value, str):
            body = body[1:]
        params = [p.arg for p in d.args.args]
        defaults = dict(zip(params[len(params) - len(d.args.defaults):], d.args.defaults))
        binding = {}
        args = list(call.args) if call is not None else []
        pos = list(params)
        if self_expr is not None:
            binding[pos.pop(0)] = self_expr
        if len(args) > len(pos) or any(isinstance(a, ast.Starred) for a in args):
            raise NotInlinable('arguments')
        for p, a in zip(pos, args):
            binding[p] = a
        for k in (call.keywords if call is not None else []):
            if k.arg is None or k.arg in binding or k.arg not in params:
                raise NotInlinable('keyword')
            binding[k.arg] = k.value
        for p in params:
            if p not in binding:
                if p not in defaults or not _is_const_expr(defaults[p], {}):
                    raise NotInlinable('missing')
                binding[p] = defaults[p]
        if not all(_pure(a) for a in binding.values()):
            raise NotInlinable('impure argument in expression position')
        body = _tailify(body, [0])
        env = dict(binding)
        def conv(stmts, env):
            env = dict(env)
            for i, st in enumerate(stmts):
                if isinstance(st, ast.Assign) and len(st.targets) == 1 and isinstance(st.targets[0], ast.Name):
                    v = _Subst(env).visit(copy.deepcopy(st.value))
                    if not _pure(v):
                        raise NotInlinable('impure local')
                    env[st.targets[0].id] = v
                elif isinstance(st, ast.Return):
                    if st.value is None:
                        return ast.Constant(None)
                    return _Subst(env).visit(copy.deepcopy(st.value))
                elif isinstance(st, ast.If) and i == len(stmts) - 1:
                    t = _Subst(env).visit(copy.deepcopy(st.test))
                    b = conv(st.body, env)
                    o = conv(st.orelse, env) if st.orelse else ast.Constant(None)
                    return ast.IfExp(test=t, body=b, orelse=o)
                elif isinstance(st, ast.Pass) or (isinstance(st, ast.Expr) and isinstance(st.value, ast.Constant)):
                    continue
                else:
                    raise NotInlinable('statement in expression position')
            return ast.Constant(None)
        e = conv(body, env)
        bound = _bound_names(d) - set(params)
        for n in ast.walk(e):
            if isinstance(n, ast.Name) and n.id in bound and not isinstance(n.ctx, ast.Load):
                raise NotInlinable('binding inside expression')
        # comprehension variables of the helper could capture names of the arguments
        arg_names = {n.id for a in binding.values() for n in ast.walk(a) if isinstance(n, ast.Name)}
        for n in ast.walk(e):
            if isinstance(n, ast.comprehension):
                for t in ast.walk(n.target):
                    if isinstance(t, ast.Name) and t.id in arg_names:
                        raise NotInlinable('capture')
        self.inlined[qual] = self.inlined.get(qual, 0) + 1
        return e

    # ---- driver
    def run(self):
        for st in self.tree.body:
            if isinstance(st, (ast.FunctionDef, ast.AsyncFunctionDef)):
                self.process_function(st, None)
            elif isinstance(st, ast.ClassDef):
                for m in st.body:
                    if isinstance(m, (ast.FunctionDef, ast.AsyncFunctionDef)):
                        self.process_function(m, st.name)
        self.drop_dead()

    def process_function(self, fn, cls):
        self.cur_bound = _bound_names(fn)
        self.cur_cls = cls
        self.cur_fn = fn
        self.cur_qual = f"{cls}.{fn.name}" if cls else fn.name
        # helper functions defined inside the function (closures over its locals), bound once: inlined at their calls like any other helper --
        # free names keep referring to the enclosing scope, which is what a closure does at call time
        self.local_funcs = {}
        for st in fn.body:
            if isinstance(st, ast.FunctionDef) and not st.decorator_list:
                stores = sum(1 for n in ast.walk(fn) if (isinstance(n, ast.Name) and n.id == st.name and isinstance(n.ctx, ast.Store)) or
                             (isinstance(n, (ast.FunctionDef, ast.AsyncFunctionDef)) and n is not fn and n.name == st.name))
                if stores == 1 and not _contains(st.body, (ast.Nonlocal, ast.Global, ast.Yield, ast.YieldFrom)):
                    self.local_funcs[st.name] = st
        fn.body = self.block(fn.body, 0)
        if self.local_funcs:
            keep = []
            for st in fn.body:
                if isinstance(st, ast.FunctionDef) and st.name in self.local_funcs:
                    used = any(isinstance(n, ast.Name) and n.id == st.name and isinstance(n.ctx, ast.Load) for other in fn.body if other is not st for n in ast.walk(other))
                    if not used:
                        continue
                keep.append(st)
            fn.body = keep or [ast.Pass()]
        self.local_funcs = {}

    def block(self, stmts, depth):
        out = []
        for st in stmts:
            out.extend(self.stmt(st, depth))
        return out or [ast.Pass()]

    def candidate(self, node):
        """node: Call, or Attribute load (property).  -> (qual, def, self_expr, call) or None"""
        if isinstance(node, ast.Call):
            r = self.resolve(node.func, self.cur_cls, self.cur_bound)
            if r is None:
                return None
            qual, d, se = r
            if 'property' in self._decos(d):
                return None
            if qual == self.cur_qual:
                return None
            why = self.eligible(qual, d)
            if why:
                if why != 'anchor':
                    self.skipped[qual] = why
                return None
            return qual, d, se, node
        if isinstance(node, ast.Attribute) and isinstance(node.ctx, ast.Load) and isinstance(node.value, ast.Name) and node.value.id == 'self' and self.cur_cls:
            for c in self.mro(self.cur_cls):
                d = self.methods.get(c, {}).get(node.attr)
                if d is not None:
                    if 'property' in self._decos(d) and not is_anchor(self.module, f"{c}.{node.attr}") and not any(node.attr in self.methods.get(s, {}) for s in self.subclasses(self.cur_cls)):
                        if self.eligible(f"{c}.{node.attr}", d) is None:
                            return f"{c}.{node.attr}", d, node.value, None
                    return None
        return None

    def stmt(self, st, depth):
        # compound statements: recurse into blocks first
        if isinstance(st, (ast.FunctionDef, ast.AsyncFunctionDef, ast.ClassDef)):
            return [st]
        for field in ('body', 'orelse', 'finalbody'):
            v = getattr(st, field, None)
            if isinstance(v, list) and v and isinstance(v[0], ast.stmt):
                setattr(st, field, self.block(v, depth))
        if isinstance(st, ast.Try):
            for h in st.handlers:
                h.body = self.block(h.body, depth)
        if hasattr(ast, 'Match') and isinstance(st, ast.Match):
            for c in st.cases:
                c.body = self.block(c.body, depth)
        if depth >= MAX_DEPTH:
            return [st]
        # 1. whole-statement forms
        def strip_await(v):
            return (v.value, True) if isinstance(v, ast.Await) else (v, False)
        try_forms = []
        if isinstance(st, ast.Expr):
            try_forms.append((st.value, ('expr',)))
        elif isinstance(st, ast.Return) and st.value is not None:
            try_forms.append((st.value, ('return',)))
        elif isinstance(st, ast.Assign) and all(self._simple_target(t) for t in st.targets):
            try_forms.append((st.value, ('assign', st.targets)))
        elif isinstance(st, ast.AnnAssign) and st.value is not None and self._simple_target(st.target):
            try_forms.append((st.value, ('assign', [st.target])))
        for v, use in try_forms:
            v2, aw = strip_await(v)
            c = self.candidate(v2) if isinstance(v2, (ast.Call, ast.Attribute)) else None
            if c and (c[3] is None or self._args_hoistable(c[3])):
                qual, d, se, call = c
                try:
                    if se is not None and not _atomic(se):
                        raise NotInlinable('receiver')
                    new = self.expand(call, aw, qual, d, se, use, st)
                    return self.block(new, depth + 1) if new else []
                except NotInlinable as e:
                    self.skipped[qual] = str(e)
        # 2. calls nested in the eagerly evaluated expression of the statement
        slots = []
        if isinstance(st, (ast.Expr, ast.Return, ast.Assign, ast.AnnAssign, ast.AugAssign)) and getattr(st, 'value', None) is not None:
            slots.append('value')
        elif isinstance(st, (ast.If,)):
            slots.append('test')
        elif isinstance(st, (ast.For, ast.AsyncFor)):
            slots.append('iter')
        elif isinstance(st, ast.Raise) and st.exc is not None:
            slots.append('exc')
        pre = []
        for slot in slots:
            expr = getattr(st, slot)
            new_expr = self.hoist(expr, pre, st, depth)
            setattr(st, slot, new_expr)
        # 3. everything else (while tests, comprehension bodies, ...): expression form
        self.expr_inline(st)
        return pre + [st]

    @staticmethod
    def _simple_target(t):
        if isinstance(t, ast.Name):
            return True
        if isinstance(t, ast.Attribute):
            return _atomic(t.value)
        if isinstance(t, ast.Tuple):
            return all(isinstance(e, ast.Name) for e in t.elts)
        return False

    def _args_hoistable(self, call):
        return True

    def hoist(self, expr, pre, st, depth):
        """inline candidate calls evaluated unconditionally and before anything impure, as statements placed before `st`"""
        state = {'blocked': False}
        me = self
        def walk(n, conditional):
            # returns replacement node; sets state['blocked'] once an impure node that stays in place has been passed
            if isinstance(n, (ast.Lambda, ast.GeneratorExp, ast.ListComp, ast.SetComp, ast.DictComp)):
                state['blocked'] = True
                return n
            if isinstance(n, ast.BoolOp):
                n.values[0] = walk(n.values[0], conditional)
                for i in range(1, len(n.values)):
                    n.values[i] = walk(n.values[i], True)
                return n
            if isinstance(n, ast.IfExp):
                n.test = walk(n.test, conditional)
                n.body = walk(n.body, True)
                n.orelse = walk(n.orelse, True)
                return n
            if isinstance(n, ast.Await):
                inner = n.value
                if isinstance(inner, ast.Call):
                    inner.func = walk_func(inner.func, conditional)
                    inner.args = [walk(a, conditional) for a in inner.args]
                    for k in inner.keywords:
                        k.value = walk(k.value, conditional)
                    c = me.candidate(inner)
                    if c and not conditional and not state['blocked'] and isinstance(c[1], ast.AsyncFunctionDef):
                        r = try_expand(c, True, n)
                        if r is not None:
                            return r
                state['blocked'] = True
                return n
            if isinstance(n, ast.Call):
                n.func = walk_func(n.func, conditional)
                n.args = [walk(a, conditional) for a in n.args]
                for k in n.keywords:
                    k.value = walk(k.value, conditional)
                c = me.candidate(n)
                if c and not isinstance(c[1], ast.AsyncFunctionDef):
                    if not conditional and not state['blocked']:
                        r = try_expand(c, False, n)
                        if r is not None:
                            return r
                    try:
                        e = me.as_expression(c[3], c[0], c[1], c[2])
                        return _fix(e, n)
                    except NotInlinable as ex:
                        me.skipped[c[0]] = str(ex)
                state['blocked'] = True
                return n
            if isinstance(n, ast.Attribute):
                c = me.candidate(n)
                if c:
                    try:
                        e = me.as_expression(None, c[0], c[1], c[2])
                        return _fix(e, n)
                    except NotInlinable as ex:
                        if not conditional and not state['blocked']:
                            r = try_expand(c, False, n)
                            if r is not None:
                                return r
                        me.skipped[c[0]] = str(ex)
                n.value = walk(n.value, conditional)
                return n
            for field, val in ast.iter_fields(n):
                if isinstance(val, ast.expr):
                    setattr(n, field, walk(val, conditional))
                elif isinstance(val, list):
                    setattr(n, field, [walk(x, conditional) if isinstance(x, ast.expr) else x for x in val])
            return n
        def walk_func(f, conditional):
            if isinstance(f, ast.Attribute):
                f.value = walk(f.value, conditional)
            return f
        def try_expand(c, aw, at_node):
            qual, d, se, call = c
            try:
                if se is not None and not _atomic(se):
                    raise NotInlinable('receiver')
                t = me.fresh('r')
                new = me.expand(call, aw, qual, d, se, ('temp', t), st)
                pre.extend(me.block(new, depth + 1) if new else [])
                return _fix(ast.Name(id=t, ctx=ast.Load()), at_node)
            except NotInlinable as ex:
                me.skipped[qual] = str(ex)
                return None
        return walk(expr, False)

    def expr_inline(self, st):
        """expression-form inlining in the parts of a statement not covered by hoisting (no blocks: they were handled already)"""
        me = self
        class T(ast.NodeTransformer):
            def visit_Call(self, node):
                node = self.generic_visit(node)
                c = me.candidate(node)
                if c and not isinstance(c[1], ast.AsyncFunctionDef):
                    try:
                        return _fix(me.as_expression(c[3], c[0], c[1], c[2]), node)
                    except NotInlinable as ex:
                        me.skipped[c[0]] = str(ex)
                return node
            def visit_Attribute(self, node):
                node = self.generic_visit(node)
                c = me.candidate(node)
                if c:
                    try:
                        return _fix(me.as_expression(None, c[0], c[1], c[2]), node)
                    except NotInlinable as ex:
                        me.skipped[c[0]] = str(ex)
                return node
            def visit_FunctionDef(self, node):
                return node
            visit_AsyncFunctionDef = visit_FunctionDef
            visit_ClassDef = visit_FunctionDef
        t = T()
        for field, val in ast.iter_fields(st):
            if field in ('body', 'orelse', 'finalbody', 'handlers', 'cases'):
                continue
            if isinstance(val, ast.expr):
                setattr(st, field, t.visit(val))
            elif isinstance(val, list):
                setattr(st, field, [t.visit(x) if isinstance(x, (ast.expr, ast.withitem, ast.keyword)) else x for x in val])

    def drop_dead(self):
        changed = True
        while changed:
            changed = False
            for qual in list(self.inlined):
                nm = qual.split('.')[-1]
                if not nm.startswith('_') or nm.startswith('__'):
                    continue
                d_owner = self.tree if '.' not in qual else self.classes.get(qual.split('.')[0])
                if d_owner is None:
                    continue
                d = next((x for x in d_owner.body if isinstance(x, (ast.FunctionDef, ast.AsyncFunctionDef)) and x.name == nm), None)
                if d is None:
                    continue
                used = False
                for n in ast.walk(self.tree):
                    if n is d:
                        continue
                    if (isinstance(n, ast.Attribute) and n.attr == nm) or (isinstance(n, ast.Name) and n.id == nm) or (isinstance(n, ast.Constant) and n.value == nm):
                        # references inside the helper itself do not keep it alive
                        if not any(n is x for x in ast.walk(d)):
                            used = True
                            break
                if not used:
                    d_owner.body.remove(d)
                    if not d_owner.body:
                        d_owner.body.append(ast.Pass())
                    self.inlined.pop(qual)
                    self.dropped = getattr(self, 'dropped', []) + [qual]
                    changed = True

# ------------------------------------------------------------------------------------------------- R0 wrapper decorators
def _expand_decorators(tree, report):
    """@deco def f(p..): B   with   def deco(fn): [@functools.wraps(fn)] def w(q..): W ; return w   (w has f's arity, no star parameters)
    becomes   def f__undecorated(p..): B ;  def f(p..): W[q := p, fn := f__undecorated]   -- what the decorated name does when called.
    The undecorated body is then inlined by R4 wherever W calls it."""
    funcs = {n.name: n for n in tree.body if isinstance(n, ast.FunctionDef)}
    def wrapper_of(d):
        body = [s_ for s_ in d.body if not (isinstance(s_, ast.Expr) and isinstance(s_.value, ast.Constant))]
        if len(d.args.args) != 1 or d.args.vararg or d.args.kwarg or len(body) != 2:
            return None
        w, r = body
        if not (isinstance(w, ast.FunctionDef) and isinstance(r, ast.Return) and isinstance(r.value, ast.Name) and r.value.id == w.name):
            return None
        for dec in w.decorator_list:
            if not (isinstance(dec, ast.Call) and ast.unparse(dec.func) in ('functools.wraps', 'wraps')):
                return None
        if w.args.vararg or w.args.kwarg or w.args.kwonlyargs or w.args.posonlyargs:
            return None
        return w
    new_body = []
    for n in tree.body:
        if isinstance(n, ast.FunctionDef) and len(n.decorator_list) == 1 and isinstance(n.decorator_list[0], ast.Name) and n.decorator_list[0].id in funcs:
            d = funcs[n.decorator_list[0].id]
            w = wrapper_of(d)
            if w is not None and len(w.args.args) == len(n.args.args) and not (n.args.vararg or n.args.kwarg or n.args.kwonlyargs):
                inner = copy.deepcopy(n)
                inner.name = n.name + '__undecorated'
                inner.decorator_list = []
                fnparam = d.args.args[0].arg
                mapping = {fnparam: inner.name}
                for wp, fp in zip(w.args.args, n.args.args):
                    if wp.arg != fp.arg:
                        mapping[wp.arg] = fp.arg
                bound_w = _bound_names(w)
                if any(v in bound_w and k != v for k, v in mapping.items() if k != fnparam):
                    new_body.append(n)          # renaming would capture a local of the wrapper
                    continue
                wb = [_Renamer(mapping).visit(copy.deepcopy(s_)) for s_ in w.body]
                outer = ast.FunctionDef(name=n.name, args=copy.deepcopy(n.args), body=wb, decorator_list=[], returns=n.returns, type_comment=None)
                ast.copy_location(outer, n)
                for x in ast.walk(outer):
                    if isinstance(x, (ast.expr, ast.stmt)) and not hasattr(x, 'lineno'):
                        ast.copy_location(x, n)
                new_body.append(inner)
                new_body.append(outer)
                report.setdefault('decorators_expanded', []).append(n.name)
                continue
        new_body.append(n)
    tree.body = new_body
    return tree


# ------------------------------------------------------------------------------------------------- driver
# ------------------------------------------------------------------------------------------------- R7 callable chosen from a table
def _dispatch_pass(fn):
    """`f = {K1: A, K2: B}[key]` / `f = A if cond else B`  ...  `x = f(args)`   ->   the choice made at the call:
    `if key == K1: x = A(args)  else: x = B(args)` (a key outside the table still raises where the table was indexed).
    Only when f is a local bound once and used once, as the callee of a call that is a whole statement's value, the alternatives are plain
    attribute / name expressions, and nothing between binding and call can change key / cond (no assignment to the names they read)."""
    count = 0
    def names_read(e):
        return {n.id for n in ast.walk(e) if isinstance(n, ast.Name)} | {ast.unparse(n) for n in ast.walk(e) if isinstance(n, ast.Attribute)}
    def plain(e):
        return isinstance(e, ast.Name) or (isinstance(e, ast.Attribute) and plain(e.value))
    def uses(name):
        return [n for n in ast.walk(fn) if isinstance(n, ast.Name) and n.id == name]
    def do_block(stmts):
        nonlocal count
        i = 0
        while i < len(stmts):
            st = stmts[i]
            for field in ('body', 'orelse', 'finalbody'):
                v = getattr(st, field, None)
                if isinstance(v, list) and v and isinstance(v[0], ast.stmt) and not isinstance(st, (ast.FunctionDef, ast.AsyncFunctionDef, ast.ClassDef)):
                    do_block(v)
            for h in getattr(st, 'handlers', []) or []:
                do_block(h.body)
            alts = None
            if isinstance(st, ast.Assign) and len(st.targets) == 1 and isinstance(st.targets[0], ast.Name):
                v = st.value
                name = st.targets[0].id
                if isinstance(v, ast.Subscript) and isinstance(v.value, ast.Dict) and v.value.keys and all(k is not None and plain(k) or isinstance(k, ast.Constant) for k in v.value.keys) \
                        and all(plain(x) for x in v.value.values) and _pure(v.slice):
                    key = v.slice
                    alts = [(ast.Compare(left=copy.deepcopy(key), ops=[ast.Eq()], comparators=[copy.deepcopy(k)]), x) for k, x in zip(v.value.keys, v.value.values)]
                    guard = ast.If(test=ast.Compare(left=copy.deepcopy(key), ops=[ast.NotIn()], comparators=[ast.Tuple(elts=[copy.deepcopy(k) for k in v.value.keys], ctx=ast.Load())]),
                                   body=[ast.Raise(exc=ast.Call(func=ast.Name(id='KeyError', ctx=ast.Load()), args=[copy.deepcopy(key)], keywords=[]), cause=None)], orelse=[])
                    reads = names_read(key)
                elif isinstance(v, ast.IfExp) and plain(v.body) and plain(v.orelse) and _pure(v.test):
                    alts = [(copy.deepcopy(v.test), v.body), (None, v.orelse)]
                    guard = None
                    reads = names_read(v.test)
            if alts:
                us = uses(name)
                loads = [u for u in us if isinstance(u.ctx, ast.Load)]
                stores = [u for u in us if isinstance(u.ctx, ast.Store)]
                site = None
                if len(loads) == 1 and len(stores) == 1:
                    # the statement (later in this block or nested in a later statement of it) whose value is the call
                    for j in range(i + 1, len(stmts)):
                        for cand in ast.walk(stmts[j]):
                            if isinstance(cand, (ast.Assign, ast.Expr, ast.Return)) and cand.value is not None:
                                c = cand.value.value if isinstance(cand.value, ast.Await) else cand.value
                                if isinstance(c, ast.Call) and c.func is loads[0]:
                                    site = (j, cand, c)
                    if site is not None:
                        j, cand, c = site
                        between = stmts[i + 1:j + 1]
                        written = set()
                        for b in between:
                            for n in ast.walk(b):
                                if isinstance(n, ast.Name) and isinstance(n.ctx, (ast.Store, ast.Del)):
                                    written.add(n.id)
                                if isinstance(n, ast.Attribute) and isinstance(n.ctx, (ast.Store, ast.Del)):
                                    written.add(ast.unparse(n))
                        in_loop = any(isinstance(x, (ast.For, ast.While, ast.AsyncFor)) and any(y is cand for y in ast.walk(x)) for x in between)
                        if not (written & reads) and not in_loop:
                            # build the chain
                            chain = None
                            for test, callee in reversed(alts if guard is None else alts):
                                c.func = copy.deepcopy(callee)
                                body = copy.deepcopy(cand)
                                if chain is None:
                                    chain = [body]
                                else:
                                    chain = [ast.If(test=test, body=[body], orelse=chain)]
                            new = chain[0]
                            _fix(new, cand)
                            ast.fix_missing_locations(new)
                            # replace cand by new, in place
                            replaced = False
                            for holder in [stmts] + [getattr(x, f) for b in between for x in ast.walk(b) for f in ('body', 'orelse', 'finalbody') if isinstance(getattr(x, f, None), list)] + \
                                    [h.body for b in between for x in ast.walk(b) for h in (getattr(x, 'handlers', []) or [])]:
                                for k, y in enumerate(holder):
                                    if y is cand:
                                        holder[k] = new
                                        replaced = True
                            if replaced:
                                if guard is not None:
                                    stmts[i] = _fix(guard, st)
                                    ast.fix_missing_locations(stmts[i])
                                else:
                                    del stmts[i]
                                    i -= 1
                                count += 1
            i += 1
    do_block(fn.body)
    return count

# ------------------------------------------------------------------------------------------------- R-1 an anchor that only forwards
def _anchor_alias_pass(module, tree, report):
    """A function the rules are anchored in may have been moved: its body now lives in a helper (a module-level function or another method) and
    the anchored name only forwards -- `def _extract_header(x): return extract_can_header(x)`, or `_build_header = staticmethod(build_header)` in
    the class body.  The anchor is restored: a class-level alias becomes a forwarding def, and every other call of the helper is rewritten
    into a call of the anchor (same arguments), so that the inliner afterwards folds the helper's body back into the anchor and the call sites
    name the anchor again.  Only for static / module-level anchors (no receiver to invent)."""
    funcs = {st.name: st for st in tree.body if isinstance(st, ast.FunctionDef)}
    n = 0
    for cls in [c for c in tree.body if isinstance(c, ast.ClassDef)]:
        # (a) class-level alias of an anchored name
        for i, st in enumerate(list(cls.body)):
            if isinstance(st, ast.Assign) and len(st.targets) == 1 and isinstance(st.targets[0], ast.Name) and is_anchor(module, f"{cls.name}.{st.targets[0].id}"):
                v = st.value
                if isinstance(v, ast.Call) and isinstance(v.func, ast.Name) and v.func.id == 'staticmethod' and len(v.args) == 1 and not v.keywords:
                    v = v.args[0]
                    static = True
                else:
                    static = False
                if isinstance(v, ast.Name) and v.id in funcs and static and not any(isinstance(m, ast.FunctionDef) and m.name == st.targets[0].id for m in cls.body):
                    f = funcs[v.id]
                    a = f.args
                    if a.vararg or a.kwarg or a.posonlyargs or a.kwonlyargs:
                        continue
                    call = ast.Call(func=ast.Name(id=v.id, ctx=ast.Load()), args=[ast.Name(id=x.arg, ctx=ast.Load()) for x in a.args], keywords=[])
                    d = ast.FunctionDef(name=st.targets[0].id, args=copy.deepcopy(a), body=[ast.Return(value=call)],
                                        decorator_list=[ast.Name(id='staticmethod', ctx=ast.Load())], returns=None, type_comment=None, type_params=[])
                    cls.body[cls.body.index(st)] = _fix(d, st)
                    ast.fix_missing_locations(d)
                    n += 1
        # (b) anchored static methods that only forward to a module-level helper
        for m in cls.body:
            if not isinstance(m, ast.FunctionDef) or not is_anchor(module, f"{cls.name}.{m.name}"):
                continue
            decos = [d.id for d in m.decorator_list if isinstance(d, ast.Name)]
            if 'staticmethod' not in decos:
                continue
            body = [b for b in m.body if not (isinstance(b, ast.Expr) and isinstance(b.value, ast.Constant))]
            if len(body) != 1 or not isinstance(body[0], ast.Return) or not isinstance(body[0].value, ast.Call):
                continue
            c = body[0].value
            if not (isinstance(c.func, ast.Name) and c.func.id in funcs and not c.keywords and [ast.unparse(x) for x in c.args] == [x.arg for x in m.args.args]):
                continue
            if is_anchor(module, c.func.id):
                continue
            helper = c.func.id
            # rewrite the other calls of the helper
            for node in ast.walk(tree):
                if isinstance(node, ast.Call) and isinstance(node.func, ast.Name) and node.func.id == helper and node is not c:
                    node.func = _fix(ast.Attribute(value=ast.Name(id=cls.name, ctx=ast.Load()), attr=m.name, ctx=ast.Load()), node.func)
                    n += 1
    report['anchor_aliases'] = n
    return tree

# ------------------------------------------------------------------------------------------------- R10 tables of generated functions
def _name_table_pass(tree, report):
    """`T = {K(name): f for name, f in globals().items() if name.startswith(P)}` built once at import (directly or through a helper called with the
    constant prefix), K(name) one of: name, name.removeprefix(P), name[len(P):], int(of those)  --  a look-up `T.get(E)` / `T[E]` / `E in T`
    is the look-up of the generated function named P + <suffix> in the module namespace, which is how the anchored code spells it:
    `globals().get(f"{P}{x}")`.  (The module namespace is not changed after import by anything in the package.)"""
    def comp_info(c, prefix_param=None, prefix_value=None):
        if not isinstance(c, ast.DictComp) or len(c.generators) != 1:
            return None
        g = c.generators[0]
        it = g.iter
        if isinstance(it, ast.Call) and isinstance(it.func, ast.Name) and it.func.id in ('tuple', 'list', 'sorted') and len(it.args) == 1:
            it = it.args[0]
        if not (isinstance(it, ast.Call) and isinstance(it.func, ast.Attribute) and it.func.attr == 'items' and isinstance(it.func.value, ast.Call)
                and isinstance(it.func.value.func, ast.Name) and it.func.value.func.id in ('globals', 'vars') and not it.func.value.args):
            return None
        if not (isinstance(g.target, ast.Tuple) and len(g.target.elts) == 2 and all(isinstance(e, ast.Name) for e in g.target.elts)):
            return None
        nm, fv = g.target.elts[0].id, g.target.elts[1].id
        if not (isinstance(c.value, ast.Name) and c.value.id == fv):
            return None
        def P_of(e):
            if isinstance(e, ast.Constant) and isinstance(e.value, str):
                return e.value
            if prefix_param is not None and isinstance(e, ast.Name) and e.id == prefix_param:
                return prefix_value
            return None
        P = None
        conds = []
        for cond in g.ifs:
            conds.extend(cond.values if isinstance(cond, ast.BoolOp) and isinstance(cond.op, ast.And) else [cond])
        for cnd in conds:
            if isinstance(cnd, ast.Call) and isinstance(cnd.func, ast.Attribute) and cnd.func.attr == 'startswith' and isinstance(cnd.func.value, ast.Name) and cnd.func.value.id == nm \
                    and len(cnd.args) == 1 and P_of(cnd.args[0]) is not None:
                P = P_of(cnd.args[0]); continue
            txt = ast.unparse(cnd)
            if txt in (f"callable({fv})",) or txt.endswith('.isdecimal()') or txt.endswith('.isdigit()'):
                continue
            return None
        if P is None:
            return None
        def suffix(e):
            if isinstance(e, ast.Call) and isinstance(e.func, ast.Attribute) and e.func.attr == 'removeprefix' and isinstance(e.func.value, ast.Name) and e.func.value.id == nm \
                    and len(e.args) == 1 and P_of(e.args[0]) == P:
                return True
            if isinstance(e, ast.Subscript) and isinstance(e.value, ast.Name) and e.value.id == nm and isinstance(e.slice, ast.Slice) and e.slice.upper is None and e.slice.step is None:
                lo = e.slice.lower
                if isinstance(lo, ast.Constant) and lo.value == len(P):
                    return True
                if isinstance(lo, ast.Call) and isinstance(lo.func, ast.Name) and lo.func.id == 'len' and len(lo.args) == 1 and P_of(lo.args[0]) == P:
                    return True
            return False
        k = c.key
        if isinstance(k, ast.Name) and k.id == nm:
            return (P, 'name')
        if suffix(k):
            return (P, 'suffix')
        if isinstance(k, ast.Call) and isinstance(k.func, ast.Name) and k.func.id == 'int' and len(k.args) == 1 and suffix(k.args[0]):
            return (P, 'int')
        return None
    helpers = {}
    for st in tree.body:
        if isinstance(st, ast.FunctionDef) and len(st.args.args) == 1 and not st.decorator_list:
            body = [b for b in st.body if not (isinstance(b, ast.Expr) and isinstance(b.value, ast.Constant))]
            if len(body) == 1 and isinstance(body[0], ast.Return) and isinstance(body[0].value, ast.DictComp):
                helpers[st.name] = (st.args.args[0].arg, body[0].value)
    tables = {}
    for st in tree.body:
        tgt = None; val = None
        if isinstance(st, ast.Assign) and len(st.targets) == 1 and isinstance(st.targets[0], ast.Name):
            tgt, val = st.targets[0].id, st.value
        elif isinstance(st, ast.AnnAssign) and isinstance(st.target, ast.Name) and st.value is not None:
            tgt, val = st.target.id, st.value
        if tgt is None:
            continue
        info = comp_info(val)
        if info is None and isinstance(val, ast.Call) and isinstance(val.func, ast.Name) and val.func.id in helpers and len(val.args) == 1 and not val.keywords \
                and isinstance(val.args[0], ast.Constant) and isinstance(val.args[0].value, str):
            pp, comp = helpers[val.func.id]
            info = comp_info(comp, pp, val.args[0].value)
        if info is not None:
            tables[tgt] = info
    if not tables:
        return tree
    stores = {}
    for n in ast.walk(tree):
        if isinstance(n, ast.Name) and isinstance(n.ctx, (ast.Store, ast.Del)):
            stores[n.id] = stores.get(n.id, 0) + 1
    tables = {t: i for t, i in tables.items() if stores.get(t) == 1}
    count = [0]
    def name_expr(E, P, kind):
        if kind == 'name':
            return E
        x = None
        if kind == 'int':
            x = E
        else:
            if isinstance(E, ast.JoinedStr) and len(E.values) == 1 and isinstance(E.values[0], ast.FormattedValue) and E.values[0].format_spec is None and E.values[0].conversion == -1:
                x = E.values[0].value
            elif isinstance(E, ast.Call) and isinstance(E.func, ast.Name) and E.func.id in ('str', 'format') and len(E.args) == 1 and not E.keywords:
                x = E.args[0]
            elif isinstance(E, ast.BinOp) and isinstance(E.op, ast.Mod) and isinstance(E.left, ast.Constant) and E.left.value in ('%d', '%s', '%i'):
                x = E.right
        if x is None:
            return None
        return ast.JoinedStr(values=[ast.Constant(P), ast.FormattedValue(value=x, conversion=-1, format_spec=None)])
    def G():
        return ast.Call(func=ast.Name(id='globals', ctx=ast.Load()), args=[], keywords=[])
    class R(ast.NodeTransformer):
        def visit_Call(self, node):
            node = self.generic_visit(node)
            f = node.func
            if isinstance(f, ast.Attribute) and f.attr == 'get' and isinstance(f.value, ast.Name) and f.value.id in tables and 1 <= len(node.args) <= 2 and not node.keywords:
                P, kind = tables[f.value.id]
                ne = name_expr(node.args[0], P, kind)
                if ne is not None:
                    count[0] += 1
                    new = ast.Call(func=ast.Attribute(value=G(), attr='get', ctx=ast.Load()), args=[ne] + list(node.args[1:]), keywords=[])
                    return _fix(new, node)
            return node
        def visit_Subscript(self, node):
            node = self.generic_visit(node)
            if isinstance(node.value, ast.Name) and node.value.id in tables and isinstance(node.ctx, ast.Load) and not isinstance(node.slice, ast.Slice):
                P, kind = tables[node.value.id]
                ne = name_expr(node.slice, P, kind)
                if ne is not None:
                    count[0] += 1
                    return _fix(ast.Subscript(value=G(), slice=ne, ctx=ast.Load()), node)
            return node
        def visit_Compare(self, node):
            node = self.generic_visit(node)
            if len(node.ops) == 1 and isinstance(node.ops[0], (ast.In, ast.NotIn)) and isinstance(node.comparators[0], ast.Name) and node.comparators[0].id in tables:
                P, kind = tables[node.comparators[0].id]
                ne = name_expr(node.left, P, kind)
                if ne is not None:
                    count[0] += 1
                    return _fix(ast.Compare(left=ne, ops=node.ops, comparators=[G()]), node)
            return node
    tree = R().visit(tree)
    ast.fix_missing_locations(tree)
    report['name_tables'] = count[0]
    return tree

def exported_constants(tree):
    return collect_constants(tree).module

_BUILTINS_OK = set(dir(__import__('builtins'))) | {'logger'}

def exported_functions(module, tree):
    """module-level helper functions of a (normalised) module that another module may have inlined where it imports them: not anchors,
    closed (they read their parameters, their own locals and built-ins only), no decorators"""
    out = {}
    for st in tree.body:
        if isinstance(st, ast.FunctionDef) and not st.decorator_list and not is_anchor(module, st.name):
            bound = _bound_names(st)
            ann = set()
            for a_ in [st.returns] + [x.annotation for x in st.args.args + st.args.kwonlyargs] + [n.annotation for n in ast.walk(st) if isinstance(n, ast.AnnAssign)]:
                if a_ is not None:
                    ann |= {id(n) for n in ast.walk(a_)}
            free = {n.id for n in ast.walk(st) if isinstance(n, ast.Name) and isinstance(n.ctx, ast.Load) and id(n) not in ann} - bound - _BUILTINS_OK
            if not free:
                out[st.name] = st
    return out

def normalize_module(name, tree, sibling_consts=None, sibling_funcs=None):
    """-> (tree, report).  `sibling_consts`: {module name -> {NAME -> expr}} for `from .x import NAME`;
    `sibling_funcs`: {module name -> {name -> FunctionDef}} closed helpers of sibling modules (`from .x import helper`)"""
    report = {'constants': 0, 'aliases': 0, 'inlined': {}, 'dropped': [], 'not_inlined': {}}
    imported_funcs = {}
    for st in tree.body:
        if isinstance(st, ast.ImportFrom) and st.level == 1 and sibling_funcs and st.module in sibling_funcs and st.module != name:
            for al in st.names:
                if al.name in sibling_funcs[st.module]:
                    imported_funcs[al.asname or al.name] = copy.deepcopy(sibling_funcs[st.module][al.name])
    imported = {}
    for st in tree.body:
        if isinstance(st, ast.ImportFrom) and st.level == 1 and sibling_consts and st.module in sibling_consts:
            for al in st.names:
                if al.name in sibling_consts[st.module]:
                    imported[al.asname or al.name] = sibling_consts[st.module][al.name]
    tree = _expand_decorators(tree, report)
    tree = _anchor_alias_pass(name, tree, report)
    info = collect_constants(tree, imported)
    cp = _ConstProp(info)
    tree = cp.visit(tree)
    report['constants'] = cp.count
    tree = _name_table_pass(tree, report)
    tree = _Idioms().visit(tree)
    report['dispatch'] = 0
    for n in ast.walk(tree):
        if isinstance(n, (ast.FunctionDef, ast.AsyncFunctionDef)):
            report['dispatch'] += _dispatch_pass(n)
    inl = Inliner(name, tree)
    for nm_, d_ in imported_funcs.items():
        if nm_ not in inl.funcs and not any(isinstance(n, ast.Name) and n.id == nm_ and isinstance(n.ctx, ast.Store) for n in ast.walk(tree)):
            inl.funcs[nm_] = d_
            inl.foreign = getattr(inl, 'foreign', set()) | {nm_}
    inl.run()
    report['inlined'] = dict(inl.inlined)
    report['dropped'] = getattr(inl, 'dropped', [])
    report['not_inlined'] = dict(inl.skipped)
    # idioms again: an inlined helper may have brought acquire / try / finally next to each other
    tree = _Idioms().visit(tree)
    cls_nodes = {c.name: c for c in tree.body if isinstance(c, ast.ClassDef)}
    for cname, c in cls_nodes.items():
        stable = _init_only_attrs(cls_nodes, cname)
        for m in c.body:
            if isinstance(m, (ast.FunctionDef, ast.AsyncFunctionDef)):
                report['aliases'] += _alias_pass(m, stable)
    tree = _Idioms().visit(tree)
    report['single_use'] = 0
    report['rebound'] = 0
    for n in ast.walk(tree):
        if isinstance(n, (ast.FunctionDef, ast.AsyncFunctionDef)):
            report['rebound'] += _rebound_locals_pass(n)
    for n in ast.walk(tree):
        if isinstance(n, (ast.FunctionDef, ast.AsyncFunctionDef)):
            report['single_use'] += _single_use_pass(n)
            report['aliases'] += _attr_alias_pass(n)
    tree = _Idioms().visit(tree)
    ast.fix_missing_locations(tree)
    return tree, report
