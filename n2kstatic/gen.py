"""gen.py -- the generated module as tables.

Input: the per-statement summaries produced by model.summarise_generated
(sym.py events per function, literal dictionaries).  Output: for each
generated decoder a DecoderTable (message constructor, field constructor calls
with every argument resolved back to the producing helper call, raises,
asserts, stores), for each encoder an EncoderTable (OR-pieces with mask/shift
and producer term), dispatcher arms, is_fast values.
"""
from __future__ import annotations

import re

from . import sym
from .sym import C, NONE

class Generated:
    def __init__(self, summaries, nlines, program):
        self.summaries = summaries
        self.nlines = nlines
        self.program = program
        self.funcs = {}
        self.shadowed = []
        self.tables = {}
        self.assign_terms = {}
        self.imports = []
        self.other = []
        for s in summaries:
            k = s['kind']
            if k == 'def':
                if s['name'] in self.funcs:
                    self.shadowed.append(self.funcs[s['name']])
                self.funcs[s['name']] = s
            elif k == 'assign':
                if 'dict' in s and s['dict'] is not None:
                    self.tables[s['name']] = s
                else:
                    self.assign_terms[s['name']] = s
            elif k == 'import':
                self.imports.append(s)
            else:
                self.other.append(s)

    def names(self, prefix):
        return [n for n in self.funcs if n.startswith(prefix)]

    def loc(self, s_or_line):
        line = s_or_line['line'] if isinstance(s_or_line, dict) else s_or_line
        return f"nmea2000/pgns.py:{line}"

# ---------------------------------------------------------------------------
# canonical forms
# ---------------------------------------------------------------------------
def _sum_leaves(t):
    if t[0] == 'binop' and t[1] == '+':
        return _sum_leaves(t[2]) + _sum_leaves(t[3])
    return [t]

def canon(t):
    """bottom-up canonicalisation used on both the found and expected side:
       * integer sums with tuple-index leaves  -> ('off', const, sorted syms)
       * d.get(k, None)                        -> d.get(k)
       * ('off', k, ()) -> const
    """
    if not isinstance(t, tuple) or not t or not isinstance(t[0], str):
        return t
    k = t[0]
    if k == 'const' or k in ('name', 'param', 'compvar', 'undef', 'missing', 'placeholder'):
        return t
    if k == 'call':
        f = canon(t[1])
        args = tuple(canon(a) for a in t[2])
        kws = tuple((n, canon(v)) for n, v in t[3])
        if f[0] == 'attr' and f[2] == 'get' and len(args) == 2 and args[1] == NONE and not kws:
            args = args[:1]
        return ('call', f, args, kws)
    if k == 'binop' and t[1] == '+':
        leaves = [canon(x) for x in _sum_leaves(t)]
        consts = [x for x in leaves if sym.is_const(x) and isinstance(x[1], int) and not isinstance(x[1], bool)]
        offs = [x for x in leaves if x[0] == 'off']
        syms = [x for x in leaves if x[0] == 'tupidx']
        if len(consts) + len(syms) + len(offs) == len(leaves) and (syms or offs):
            total = sum(x[1] for x in consts) + sum(x[1] for x in offs)
            allsyms = list(syms)
            for o in offs:
                allsyms.extend(o[2])
            return ('off', total, tuple(sorted(allsyms, key=repr)))
        return ('binop', '+', canon(t[2]), canon(t[3]))
    out = [k]
    for x in t[1:]:
        if isinstance(x, tuple):
            if x and isinstance(x[0], str):
                out.append(canon(x))
            else:
                out.append(tuple(canon(y) if isinstance(y, tuple) and y and isinstance(y[0], str) else
                                 (tuple(canon(z) if isinstance(z, tuple) and z and isinstance(z[0], str) else z for z in y) if isinstance(y, tuple) else y)
                                 for y in x))
        else:
            out.append(x)
    return tuple(out)

def bind_ctor(callterm, order):
    """positional + keyword arguments of a constructor call -> {field: term};
    returns (mapping, problems)"""
    out = {}
    probs = []
    args, kws = callterm[2], callterm[3]
    if len(args) > len(order):
        probs.append(f"{len(args)} positional arguments for {len(order)} fields")
    for n, a in zip(order, args):
        out[n] = a
    for n, v in kws:
        if n in out:
            probs.append(f"duplicate argument {n}")
        if n is None or n not in order:
            probs.append(f"unknown keyword {n}")
            continue
        out[n] = v
    return out, probs

def is_call_to(t, fname):
    return isinstance(t, tuple) and t[0] == 'call' and t[1] == ('name', fname)

class DecoderTable:
    """what one generated decoder does, in order"""
    def __init__(self, summary, msg_fields_order, field_order):
        self.s = summary
        self.name = summary['name']
        self.problems = []
        self.msg = None            # ctor term of the message
        self.msg_args = {}
        self.rows = []             # dict(ctor_term, args{slot:term}, line, guard)
        self.stores = []           # (target, value, line, after_row_index)
        self.raises = []           # (guard, term, line, after_row_index)
        self.asserts = []          # (term, line, after_row_index)
        self.ret = None
        self.other = []
        self.param = summary['params'][0] if summary.get('params') else None
        if 'unsupported' in summary:
            self.problems.append(summary['unsupported'])
        for ev in summary['events']:
            kind, guard = ev[0], ev[1]
            line = ev[-1]
            if kind == 'expr' and ev[2][0] == 'call' and ev[2][1][0] == 'attr' and ev[2][1][2] == 'extend' and ev[2][1][1][0] == 'attr' and ev[2][1][1][2] == 'fields' \
                    and len(ev[2][2]) == 1 and ev[2][2][0][0] in ('list', 'tuple') and all(is_call_to(x, 'NMEA2000Field') for x in ev[2][2][0][1]):
                # fields.extend([F1, F2, ..]) is fields.append(F1); fields.append(F2); ..
                t = ev[2]
                owner = t[1][1][1]
                if self.msg is None and is_call_to(owner, 'NMEA2000Message'):
                    self.msg = owner
                elif owner != self.msg:
                    self.problems.append(f"line {line}: fields appended to something that is not the message under construction")
                for x in t[2][0][1]:
                    args, probs = bind_ctor(x, field_order)
                    self.problems.extend(f"line {line}: {p}" for p in probs)
                    self.rows.append({'ctor': x, 'args': {k: canon(v) for k, v in args.items()}, 'line': line, 'guard': guard})
            elif kind == 'expr':
                t = ev[2]
                if (t[0] == 'call' and t[1][0] == 'attr' and t[1][2] == 'append' and t[1][1][0] == 'attr' and t[1][1][2] == 'fields'
                        and len(t[2]) == 1 and is_call_to(t[2][0], 'NMEA2000Field')):
                    owner = t[1][1][1]
                    if self.msg is None and is_call_to(owner, 'NMEA2000Message'):
                        self.msg = owner
                    elif owner != self.msg:
                        self.problems.append(f"line {line}: field appended to something that is not the message under construction")
                    args, probs = bind_ctor(t[2][0], field_order)
                    self.problems.extend(f"line {line}: {p}" for p in probs)
                    self.rows.append({'ctor': t[2][0], 'args': {k: canon(v) for k, v in args.items()}, 'line': line, 'guard': guard})
                else:
                    self.other.append((t, line))
            elif kind == 'store':
                self.stores.append((canon(ev[2]), canon(ev[3]), line, len(self.rows)))
            elif kind == 'raise':
                self.raises.append((guard, ev[2], line, len(self.rows)))
            elif kind == 'assert':
                self.asserts.append((ev[2], line, len(self.rows)))
            elif kind == 'return':
                self.ret = (guard, ev[2], line)
                if self.msg is None and is_call_to(ev[2], 'NMEA2000Message'):
                    self.msg = ev[2]
            else:
                self.other.append((ev, line))
        if self.msg is not None:
            self.msg_args, probs = bind_ctor(self.msg, msg_fields_order)
            self.problems.extend(probs)
            # NMEA2000Message(..., fields=[NMEA2000Field(..), ..]): the list is the field sequence at construction; appends (if any) follow it
            fl = self.msg_args.get('fields')
            if fl is not None and fl[0] in ('list', 'tuple') and all(is_call_to(x, 'NMEA2000Field') for x in fl[1]):
                pre = []
                mline = self.ret[2] if self.ret else summary['line']
                for x in fl[1]:
                    args, probs = bind_ctor(x, field_order)
                    self.problems.extend(f"line {mline}: {p}" for p in probs)
                    pre.append({'ctor': x, 'args': {k: canon(v) for k, v in args.items()}, 'line': mline, 'guard': ()})
                n_pre = len(pre)
                self.rows = pre + self.rows
                # positions recorded against the append sequence move behind the constructor's fields
                self.stores = [(a, b, l, k + n_pre) for (a, b, l, k) in self.stores]
                self.raises = [(g_, t_, l, k + n_pre) for (g_, t_, l, k) in self.raises]
                self.asserts = [(t_, l, k + n_pre) for (t_, l, k) in self.asserts]
                del self.msg_args['fields']
                # the appended rows were checked against the constructor term including the list: compare owners without it
                self.msg_has_ctor_fields = True

class EncoderTable:
    """pieces OR-ed into the payload integer, in order"""
    def __init__(self, summary):
        self.s = summary
        self.name = summary['name']
        self.problems = []
        self.param = summary['params'][0] if summary.get('params') else None
        self.raises = []
        self.asserts = []
        self.ret = None
        self.pieces = []     # (value_term, mask, shift, raw_piece_term)
        self.other = []
        if 'unsupported' in summary:
            self.problems.append(summary['unsupported'])
        for ev in summary['events']:
            kind, guard, line = ev[0], ev[1], ev[-1]
            if kind == 'raise':
                self.raises.append((guard, ev[2], line))
            elif kind == 'assert':
                self.asserts.append((guard, ev[2], line))
            elif kind == 'return':
                self.ret = (guard, ev[2], line)
            else:
                self.other.append((ev, line))
        self.unconditional_raise = any(not g for g, _, _ in self.raises)

def dataclass_defaults(cls_node):
    """{field: default term} for the fields of a @dataclass that have a constant / enum-member default"""
    import ast
    out = {}
    ex = sym.SymExec(ast.parse('def _f(): pass').body[0])
    for n in cls_node.body:
        if isinstance(n, ast.AnnAssign) and isinstance(n.target, ast.Name) and n.value is not None:
            if isinstance(n.value, (ast.Constant, ast.Attribute)):
                out[n.target.id] = ex.expr(n.value)
    return out

def dataclass_fields(cls_node):
    """field order of a @dataclass: annotated assignments in class body order"""
    import ast
    out = []
    for n in cls_node.body:
        if isinstance(n, ast.AnnAssign) and isinstance(n.target, ast.Name):
            ann = ast.unparse(n.annotation)
            if ann.startswith('ClassVar'):
                continue
            out.append(n.target.id)
    return out
