"""wire.py -- the four wire-format writers and five readers interpreted over the provenance domain.

One CAN frame is abstract: a 29-bit identifier whose bits are ('id',k) and n data bytes whose bits are
(('frame',i),k).  encode_* of encoder.py is interpreted (absint.py) with `self._encode` replaced by
"one frame of n abstract bytes" and `_build_header` by "the abstract identifier"; decode_* of decoder.py is
interpreted on the resulting abstract packet with `_extract_header` and `_decode` replaced by recorders.
What the reader hands to the shared decode path can then be compared bit by bit with what the writer was
given -- for every identifier and every byte content at once, per data length n.
"""
from __future__ import annotations

import ast

from . import absint as A, bitprov as B
from .model import AnalysisError

ID_BITS = [('id', k) for k in range(29)]

def frame_bytes(n, src='frame'):
    return A.ABytes([A.sym_byte(src, i) for i in range(n)])

def is_logger(call):
    f = call.func
    return isinstance(f, ast.Attribute) and isinstance(f.value, ast.Name) and f.value.id == 'logger' or \
        (isinstance(f, ast.Attribute) and isinstance(f.value, ast.Attribute) and f.value.attr == 'logger')

class Recorder:
    def __init__(self):
        self.header_arg = None
        self.header_calls = 0
        self.decode_args = None
        self.decode_kwargs = None
        self.checksum_args = []
        self.warnings = []

def checksum_summary(program):
    """utils.calculate_canbus_checksum as (lo, hi, mask): sum(data[lo:hi]) & mask"""
    fn = program.fn('utils', 'calculate_canbus_checksum')
    p = [a.arg for a in fn.args.args][0]
    lo = hi = mask = None
    plain_sum = False
    for n in ast.walk(fn):
        if isinstance(n, ast.Call) and isinstance(n.func, ast.Name) and n.func.id == 'sum' and n.args:
            a = n.args[0]
            if isinstance(a, ast.Subscript) and isinstance(a.value, ast.Name) and a.value.id == p and isinstance(a.slice, ast.Slice):
                def k(x):
                    return x.value if isinstance(x, ast.Constant) else None
                lo, hi = k(a.slice.lower) if a.slice.lower else 0, k(a.slice.upper) if a.slice.upper else None
                plain_sum = len(n.args) == 1
        if isinstance(n, ast.BinOp) and isinstance(n.op, (ast.BitAnd, ast.Mod)):
            for side in (n.right, n.left):
                if isinstance(side, ast.Constant) and isinstance(side.value, int):
                    mask = side.value if isinstance(n.op, ast.BitAnd) else side.value - 1
    return {'lo': lo, 'hi': hi, 'mask': mask, 'plain_sum': plain_sum, 'line': fn.lineno}

def checksum_semantics(program, n=20):
    """utils.calculate_canbus_checksum interpreted on a packet of n symbolic bytes -> {'covered': {position: coefficient}, 'const', 'mod'} or None
    when the function is not a linear combination of whole bytes (or not interpretable)"""
    fn = program.fn('utils', 'calculate_canbus_checksum')
    pk = A.ABytes([A.sym_byte('pk', i) for i in range(n)])
    try:
        r = A.Interp(skip=is_logger).call_function(fn, [pk])
    except (A.Unknown, A.RaiseSignal):
        return None
    l = A.as_lin(r) if isinstance(r, (A.AInt, A.ALin)) else None
    if l is None:
        return None
    return {'covered': {k[1]: v for k, v in l.coeffs.items() if isinstance(k, tuple) and k[0] == 'pk'}, 'const': l.const, 'mod': l.mod, 'line': fn.lineno}

def checksum_is_plain_sum_2_19(program):
    """the property's checksum: (sum of bytes 2..18) mod 256 -- decided on the interpreted function, on 19- and 20-byte arguments; falls back to the
    syntactic summary when the function is not interpretable.  -> (ok, found)"""
    found = {}
    for n in (19, 20):
        sem = checksum_semantics(program, n)
        if sem is None:
            cs = checksum_summary(program)
            ok = cs['lo'] == 2 and cs['hi'] == 19 and cs['mask'] == 0xff and cs['plain_sum']
            return (ok if ok else None), {'slice': [cs['lo'], cs['hi']], 'mask': cs['mask'], 'plain_sum': cs['plain_sum'], 'interpretable': False}
        found[n] = {'covered': sorted(sem['covered']), 'coefficients': sorted(set(sem['covered'].values())), 'const': sem['const'], 'mod': sem['mod']}
        if not (sorted(sem['covered']) == list(range(2, 19)) and set(sem['covered'].values()) == {1} and sem['const'] == 0 and sem['mod'] == 256):
            return False, found
    return True, found

def fresh_encoder(program, seq=0):
    """the encoder object as NMEA2000Encoder() with default arguments leaves it (constructor interpreted: options a later version adds carry their
    defaults), with the sequence counter set to `seq`; the minimal object when the constructor is not interpretable"""
    cls = program.cls('encoder', 'NMEA2000Encoder')
    methods = {n.name: n for n in cls.body if isinstance(n, (ast.FunctionDef, ast.AsyncFunctionDef))}
    o = A.AObj()
    try:
        o.attrs.update(A.class_constants(None, cls))
        if '__init__' in methods:
            A.Interp(methods=methods, skip=is_logger, module=A.ModuleEnv(program.mod('encoder').tree)).call_function(methods['__init__'], [o])
    except (A.Unknown, A.RaiseSignal, A.PyError, KeyError, AttributeError, TypeError, RecursionError):
        o = A.AObj()
        o.attrs.update(A.class_constants(None, cls))
    if 'sequence_counter' not in o.attrs and len(o.attrs) > len(A.class_constants(None, cls)):
        o.attrs['__counter_elsewhere__'] = True          # the constructor ran and keeps the counter somewhere else (a property, a helper object)
    o.attrs['sequence_counter'] = seq if isinstance(seq, A.AInt) else A.AInt(seq)
    return o

def fresh_decoder(program):
    """the decoder object as NMEA2000Decoder() with default arguments leaves it (constructor interpreted); the empty object when the constructor
    is not interpretable"""
    cls = program.cls('decoder', 'NMEA2000Decoder')
    methods = {n.name: n for n in cls.body if isinstance(n, (ast.FunctionDef, ast.AsyncFunctionDef))}
    dec = A.AObj()
    try:
        dec.attrs.update(A.class_constants(None, cls))
        def hook(it, call, env):
            name = ast.unparse(call.func)
            if name in ('datetime.now', 'datetime.utcnow', 'time.time', 'time.monotonic'):
                return A.AInt(5)
            if name == 'open' or name.startswith('os.'):
                return A.AOpaque(name)
            return NotImplemented
        mod = program.mod('decoder')
        it = A.Interp(hook=hook, skip=is_logger, methods=methods, module=A.ModuleEnv(mod.tree), classes={c: mod.classes[c] for c in mod.classes if c != 'NMEA2000Decoder'})
        it.call_function(methods['__init__'], [dec])
        return dec
    except (A.Unknown, A.RaiseSignal, A.PyError, KeyError, AttributeError, TypeError, RecursionError):
        return A.AObj()

def usb_reader_semantics(program, n=8, head=(0xaa, 0x55), length=20):
    """NMEA2000Decoder.decode_usb interpreted on a 20-byte packet whose marker and length byte are concrete and whose other bytes are symbols,
    with utils.calculate_canbus_checksum interpreted too (linear-sum domain).  The comparison of the computed with the stored checksum cannot be
    decided by the domain: it is answered both ways.  -> {'asked': [(lhs key, rhs key)], 'decoded_when_equal': bool, 'decoded_when_different': bool,
    'computed_ok': bool, 'stored_ok': bool}; raises A.Unknown when not interpretable"""
    fn = program.fn('decoder', 'NMEA2000Decoder.decode_usb')
    utils = {q: f for q, f in program.mod('utils').defs.items() if '.' not in q}
    dec_methods = {q.split('.', 1)[1]: f for q, f in program.mod('decoder').defs.items() if q.startswith('NMEA2000Decoder.') and q.count('.') == 1}
    pk = A.ABytes(([('c', head[0]), ('c', head[1])] + [A.sym_byte('pk', i) for i in range(2, 9)] + [('c', n)] + [A.sym_byte('pk', i) for i in range(10, max(20, length))])[:length])
    it0 = A.Interp()
    want = A.ALin({}, 0)
    for i in range(2, min(19, len(pk.items))):
        want = it0.binop(ast.Add(), want, it0.byte_to_int(pk.items[i]))
    want = it0.binop(ast.Mod(), want, A.AInt(256))
    stored = A.as_lin(it0.byte_to_int(pk.items[19])) if len(pk.items) > 19 else A.ALin({}, 0)
    out = {'asked': []}
    for mode in ('equal', 'different'):
        reached = []
        asked = []
        def oracle(op, a, b, node, mode=mode, asked=asked):
            asked.append((a, b))
            eq = mode == 'equal'
            return eq if isinstance(op, ast.Eq) else not eq
        def hook(it, call, env):
            name = ast.unparse(call.func)
            if name.endswith('._extract_header'):
                return header_standin(it, call, env)
            if name == 'self._decode':
                args_ = [it.expr(a, env) for a in call.args[:4]]
                if any(isinstance(a_, A.AOpaque) for a_ in args_):
                    # what reaches _decode was produced by something the interpreter did not follow (which may as well have rejected the packet)
                    raise A.Unknown(f"_decode reached with arguments that were not followed: {args_!r}"[:200])
                reached.append(True)
                return A.AOpaque('message')
            if name in ('datetime.now', 'datetime.strptime', 'timedelta', 'binascii.hexlify'):
                return A.AOpaque(name)
            return NotImplemented
        it = A.Interp(hook=hook, skip=is_logger, functions=utils, cmp_oracle=oracle, module=A.ModuleEnv(program.mod('decoder').tree), methods=dec_methods)
        dec = fresh_decoder(program)
        for _ in range(2):          # the same packet twice on one decoder object: what the first one leaves behind must not let the second one through
            try:
                it.call_function(fn, [dec, pk])
            except A.RaiseSignal:
                pass
        out['decoded_when_' + mode] = bool(reached)
        out['asked'] = asked or out['asked']
        out['asked_' + mode] = len(asked)
    def norm(l):
        return l.key() if l.mod is not None else A.ALin({k: v % 256 for k, v in l.coeffs.items()}, l.const % 256, 256).key()
    sides = [(norm(a), norm(b)) for a, b in out['asked']]
    w, st = norm(want), norm(stored)
    out['compares_sum_2_18_with_byte_19'] = any({x, y} == {w, st} for x, y in sides)
    out['described'] = [f"{a!r} vs {b!r}" for a, b in out['asked']][:3]
    return out

def make_message():
    return A.AObj(PGN=A.sym_int('pgn', 18), source=A.sym_int('src', 8), destination=A.sym_int('dst', 8), priority=A.sym_int('prio', 3),
                  id=A.AOpaque('id'), fields=A.AOpaque('fields'))

def encode_with(program, method, frames, payload=None, message=None):
    """interpret NMEA2000Encoder.<method>(message) with the frame list given. -> (result, recorder)"""
    fn = program.fn('encoder', f"NMEA2000Encoder.{method}")
    rec = Recorder()
    cs = checksum_summary(program)
    enc_methods = {q.split('.', 1)[1]: f for q, f in program.mod('encoder').defs.items() if q.startswith('NMEA2000Encoder.')}
    def hook(it, call, env):
        f = call.func
        name = ast.unparse(f)
        if name == 'self._encode':
            return A.AList(list(frames))
        if name == 'self._call_encode_function':
            return payload if payload is not None else frames[0]
        if name.endswith('._build_header'):
            args = [it.expr(a, env) for a in call.args]
            rec.header_arg = args
            rec.header_calls += 1
            return A.AInt(None, list(ID_BITS))
        if name == 'calculate_canbus_checksum':
            arg = it.expr(call.args[0], env)
            if isinstance(arg, A.ABytes):
                arg = A.ABytes(list(arg.items))          # as it is now: a bytearray may be extended afterwards
            rec.checksum_args.append(arg)
            return A.AInt(None, [('csum', k) for k in range(8)])
        return NotImplemented
    it = A.Interp(methods=enc_methods, hook=hook, skip=is_logger)
    selfo = fresh_encoder(program, 0)
    msg = message if message is not None else make_message()
    res = it.call_function(fn, [selfo, msg])
    if not isinstance(res, (A.AStr, A.ABytes)) and (not isinstance(res, A.AList) or not res.items or not all(isinstance(x, (A.ABytes, A.AStr)) for x in res.items)):
        raise A.Unknown(f"{method}: the packets returned were not followed ({res!r})"[:160])
    return res, rec

def header_standin(it, call, env):
    """what the hooks return for _extract_header(..): four symbolic integers in the positions (pgn, source, destination, priority) -- C05 ID-PARSE
    decides that these are the positions -- in the container the real function returns: a plain tuple, or the named tuple it builds (found by
    interpreting the real function once on a symbolic identifier; when that is not possible the plain tuple is used)"""
    vals = (A.sym_int('H.pgn', 18), A.sym_int('H.src', 8), A.sym_int('H.dst', 8), A.sym_int('H.prio', 3))
    hook_, it.hook = it.hook, None
    try:
        try:
            c_ = ast.Call(func=call.func, args=[ast.Constant(value=0x09F80103)], keywords=[])
            ast.copy_location(c_, call); ast.fix_missing_locations(c_)
            shape = it.call(c_, env)
        except (A.Unknown, A.PyError, A.RaiseSignal, RecursionError):
            shape = None
    finally:
        it.hook = hook_
    if isinstance(shape, A.AObj) and len(shape.attrs.get('__fields__', ())) == 4:
        o = A.AObj(**shape.attrs)
        for k, v in zip(shape.attrs['__fields__'], vals):
            o.attrs[k] = v
        return o
    return vals

def decode_with(program, method, packet, extra_args=()):
    """interpret NMEA2000Decoder.<method>(packet) ; -> recorder (header argument, arguments handed to _decode)"""
    fn = program.fn('decoder', f"NMEA2000Decoder.{method}")
    rec = Recorder()
    def hook(it, call, env):
        f = call.func
        name = ast.unparse(f)
        if name.endswith('._extract_header'):
            rec.header_arg = it.expr(call.args[0], env)
            return header_standin(it, call, env)
        if name == 'calculate_canbus_checksum':
            arg = it.expr(call.args[0], env)
            if isinstance(arg, A.ABytes):
                arg = A.ABytes(list(arg.items))          # as it is now: a bytearray may be extended afterwards
            rec.checksum_args.append(arg)
            return A.AInt(None, [('csum', k) for k in range(8)])
        if name == 'self._decode':
            rec.decode_args = [it.expr(a, env) for a in call.args]
            rec.decode_kwargs = {k.arg: it.expr(k.value, env) for k in call.keywords}
            return A.AOpaque('message')
        if name in ('datetime.now', 'datetime.strptime', 'timedelta', 'binascii.hexlify'):
            return A.AOpaque(name)
        return NotImplemented
    dec_methods = {q.split('.', 1)[1]: f for q, f in program.mod('decoder').defs.items() if q.startswith('NMEA2000Decoder.') and q.count('.') == 1}
    utils = {q: f for q, f in program.mod('utils').defs.items() if '.' not in q and q != 'calculate_canbus_checksum'}
    it = A.Interp(hook=hook, skip=is_logger, module=A.ModuleEnv(program.mod('decoder').tree), methods=dec_methods, functions=utils)
    selfo = A.AObj()
    try:
        it.call_function(fn, [selfo, packet] + list(extra_args))
    except A.RaiseSignal as r:
        rec.warnings.append(f"raise at line {r.node.lineno}: {ast.unparse(r.node)[:80]}")
    return rec

def bytes_of_text(s):
    """AStr produced by a text writer -> the AStr itself (text formats are compared at token level)"""
    return s

def describe_items(items):
    out = []
    for it in items:
        if it[0] == 'c':
            out.append(f"{it[1]:02x}")
        elif it[0] == 'b':
            out.append(B.show_vec(it[1]))
        else:
            out.append('?')
    return out

def followed(x):
    """the interpreter produced a value it actually computed (not its "don't know": an opaque value, an integer without provenance, nothing)"""
    if x is None or isinstance(x, A.AOpaque):
        return False
    if isinstance(x, A.AInt) and x.v is None and x.vec() is None:
        return False
    return True

def judge_int(chk, x, expected_bits, rule, inst, **kw):
    """compare provenance with the expected vector; a value the interpreter could not follow is a refusal, never an alarm"""
    if not followed(x):
        chk.unknown(rule, inst, f"the value was not followed by the interpreter: {x!r}", kw.get('file', ''), kw.get('line', 0))
        return None
    return chk.check(int_matches(x, expected_bits), rule, inst, **kw)

def int_matches(x, expected_bits):
    """AInt carries exactly the expected provenance vector"""
    if not isinstance(x, A.AInt):
        return False
    v = x.vec()
    if v is None:
        return False
    return B.trim(v) == B.trim(expected_bits)
