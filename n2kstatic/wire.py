"""wire.py -- the four wire-format writers and five readers interpreted over the provenance domain.

One CAN frame is abstract: a 29-bit identifier whose bits are ('id',k) and n data bytes whose bits are
(('frame',i),k).  encode_* of encoder.py is interpreted (absint.py) with `self._encode` replaced by
"one frame of n abstract bytes" and `_build_header` by "the abstract identifier"; decode_* of decoder.py is
interpreted on the resulting abstract packet with `_extract_header` and `_decode` replaced by recorders.
What the reader hands to the shared decode path can then be compared bit by bit with what the writer was
given -- for every identifier and every byte content at once, per data length n.
"""
from __future__ import annotations

import ast

from . import absint as A, bitprov as B
from .model import AnalysisError

ID_BITS = [('id', k) for k in range(29)]

def frame_bytes(n, src='frame'):
    return A.ABytes([A.sym_byte(src, i) for i in range(n)])

def is_logger(call):
    f = call.func
    return isinstance(f, ast.Attribute) and isinstance(f.value, ast.Name) and f.value.id == 'logger' or \
        (isinstance(f, ast.Attribute) and isinstance(f.value, ast.Attribute) and f.value.attr == 'logger')

class Recorder:
    def __init__(self):
        self.header_arg = None
        self.decode_args = None
        self.decode_kwargs = None
        self.checksum_args = []
        self.warnings = []

def checksum_summary(program):
    """utils.calculate_canbus_checksum as (lo, hi, mask): sum(data[lo:hi]) & mask"""
    fn = program.fn('utils', 'calculate_canbus_checksum')
    p = [a.arg for a in fn.args.args][0]
    lo = hi = mask = None
    plain_sum = False
    for n in ast.walk(fn):
        if isinstance(n, ast.Call) and isinstance(n.func, ast.Name) and n.func.id == 'sum' and n.args:
            a = n.args[0]
            if isinstance(a, ast.Subscript) and isinstance(a.value, ast.Name) and a.value.id == p and isinstance(a.slice, ast.Slice):
                def k(x):
                    return x.value if isinstance(x, ast.Constant) else None
                lo, hi = k(a.slice.lower) if a.slice.lower else 0, k(a.slice.upper) if a.slice.upper else None
                plain_sum = len(n.args) == 1
        if isinstance(n, ast.BinOp) and isinstance(n.op, (ast.BitAnd, ast.Mod)):
            for side in (n.right, n.left):
                if isinstance(side, ast.Constant) and isinstance(side.value, int):
                    mask = side.value if isinstance(n.op, ast.BitAnd) else side.value - 1
    return {'lo': lo, 'hi': hi, 'mask': mask, 'plain_sum': plain_sum, 'line': fn.lineno}

def make_message():
    return A.AObj(PGN=A.sym_int('pgn', 18), source=A.sym_int('src', 8), destination=A.sym_int('dst', 8), priority=A.sym_int('prio', 3),
                  id=A.AOpaque('id'), fields=A.AOpaque('fields'))

def encode_with(program, method, frames, payload=None):
    """interpret NMEA2000Encoder.<method>(message) with the frame list given. -> (result, recorder)"""
    fn = program.fn('encoder', f"NMEA2000Encoder.{method}")
    rec = Recorder()
    cs = checksum_summary(program)
    enc_methods = {q.split('.', 1)[1]: f for q, f in program.mod('encoder').defs.items() if q.startswith('NMEA2000Encoder.')}
    def hook(it, call, env):
        f = call.func
        name = ast.unparse(f)
        if name == 'self._encode':
            return A.AList(list(frames))
        if name == 'self._call_encode_function':
            return payload if payload is not None else frames[0]
        if name.endswith('._build_header'):
            args = [it.expr(a, env) for a in call.args]
            rec.header_arg = args
            return A.AInt(None, list(ID_BITS))
        if name == 'calculate_canbus_checksum':
            arg = it.expr(call.args[0], env)
            rec.checksum_args.append(arg)
            return A.AInt(None, [('csum', k) for k in range(8)])
        return NotImplemented
    it = A.Interp(methods=enc_methods, hook=hook, skip=is_logger)
    selfo = A.AObj(sequence_counter=A.AInt(0))
    msg = make_message()
    res = it.call_function(fn, [selfo, msg])
    return res, rec

def decode_with(program, method, packet, extra_args=()):
    """interpret NMEA2000Decoder.<method>(packet) ; -> recorder (header argument, arguments handed to _decode)"""
    fn = program.fn('decoder', f"NMEA2000Decoder.{method}")
    rec = Recorder()
    def hook(it, call, env):
        f = call.func
        name = ast.unparse(f)
        if name.endswith('._extract_header'):
            rec.header_arg = it.expr(call.args[0], env)
            return (A.sym_int('H.pgn', 18), A.sym_int('H.src', 8), A.sym_int('H.dst', 8), A.sym_int('H.prio', 3))
        if name == 'calculate_canbus_checksum':
            arg = it.expr(call.args[0], env)
            rec.checksum_args.append(arg)
            return A.AInt(None, [('csum', k) for k in range(8)])
        if name == 'self._decode':
            rec.decode_args = [it.expr(a, env) for a in call.args]
            rec.decode_kwargs = {k.arg: it.expr(k.value, env) for k in call.keywords}
            return A.AOpaque('message')
        if name in ('datetime.now', 'datetime.strptime', 'timedelta', 'binascii.hexlify'):
            return A.AOpaque(name)
        return NotImplemented
    it = A.Interp(hook=hook, skip=is_logger)
    selfo = A.AObj()
    try:
        it.call_function(fn, [selfo, packet] + list(extra_args))
    except A.RaiseSignal as r:
        rec.warnings.append(f"raise at line {r.node.lineno}: {ast.unparse(r.node)[:80]}")
    return rec

def bytes_of_text(s):
    """AStr produced by a text writer -> the AStr itself (text formats are compared at token level)"""
    return s

def describe_items(items):
    out = []
    for it in items:
        if it[0] == 'c':
            out.append(f"{it[1]:02x}")
        elif it[0] == 'b':
            out.append(B.show_vec(it[1]))
        else:
            out.append('?')
    return out

def int_matches(x, expected_bits):
    """AInt carries exactly the expected provenance vector"""
    if not isinstance(x, A.AInt):
        return False
    v = x.vec()
    if v is None:
        return False
    return B.trim(v) == B.trim(expected_bits)
