"""CLI:  python -m n2kstatic check <ID> [--tier quick|thorough] [--repo /repo]
         python -m n2kstatic replay <path>
         python -m n2kstatic all [--tier ..]
Exit codes: 0 ok, 1 violation (a VIOLATION line was printed), 2 analysis error.
"""
from __future__ import annotations

import argparse
import importlib
import json
import os
import sys
import time
import traceback

from .model import Program, AnalysisError
from .runner import Check, write_error_evidence

PROPS = [f"C{i:02d}" for i in range(1, 21)]

def run_one(pid, tier, repo, seed, jobs=None):
    try:
        mod = importlib.import_module(f".props.{pid.lower()}", __package__)
    except ModuleNotFoundError:
        print(f"ANALYSIS-ERROR property={pid} no check is built for this property")
        return 2
    level = mod.LEVEL
    chk = None
    try:
        program = Program(repo, jobs=jobs)
        chk = Check(pid, tier, seed, level, program)
        try:
            mod.run(chk, program, tier)
        except AnalysisError as e:
            # keep what was decided before the analysis gave up: recognised violations stand, the rest is an analysis error
            chk.errors.append(str(e))
            return chk.finish(mod.EXPLANATION, mod.ASSUMPTIONS)
        if tier == 'thorough' and not os.environ.get('N2K_NO_WITNESS'):
            from . import witness
            witness.run(chk, mod, program, pid, seed)
        return chk.finish(mod.EXPLANATION, mod.ASSUMPTIONS)
    except AnalysisError as e:
        print(f"ANALYSIS-ERROR property={pid} {e}")
        write_error_evidence(pid, tier, seed, level, str(e))
        return 2
    except Exception as e:  # a traceback must never look like a violation
        traceback.print_exc()
        print(f"ANALYSIS-ERROR property={pid} internal error: {type(e).__name__}: {e}")
        write_error_evidence(pid, tier, seed, level, f"{type(e).__name__}: {e}")
        return 2

def main(argv=None):
    ap = argparse.ArgumentParser(prog='n2kstatic')
    sub = ap.add_subparsers(dest='cmd', required=True)
    c = sub.add_parser('check')
    c.add_argument('pid')
    c.add_argument('--tier', default=os.environ.get('VERIF_TIER', 'quick'), choices=['quick', 'thorough'])
    c.add_argument('--repo', default=os.environ.get('N2K_REPO', '/repo'))
    c.add_argument('--jobs', type=int, default=None)
    r = sub.add_parser('replay')
    r.add_argument('path')
    r.add_argument('--repo', default=None)
    a = sub.add_parser('all')
    a.add_argument('--tier', default='quick', choices=['quick', 'thorough'])
    a.add_argument('--repo', default=os.environ.get('N2K_REPO', '/repo'))
    ns = ap.parse_args(argv)
    seed = int(os.environ.get('VERIF_SEED', '0') or 0)
    if ns.cmd == 'check':
        return run_one(ns.pid.upper(), ns.tier, ns.repo, seed, ns.jobs)
    if ns.cmd == 'replay':
        d = json.load(open(ns.path))
        pid = d['property']
        want = d['obligation']['rule'] + '::' + d['obligation']['instance']
        print(f"replaying {want} of {pid} on {ns.repo or d.get('repo') or '/repo'}")
        rc = run_one(pid, 'quick', ns.repo or d.get('repo') or '/repo', seed)
        return rc
    if ns.cmd == 'all':
        worst = 0
        for pid in PROPS:
            rc = run_one(pid, ns.tier, ns.repo, seed)
            worst = max(worst, rc)
        return worst
    return 2

if __name__ == '__main__':
    sys.exit(main())
