"""rules_reasm.py -- fast-packet reassembly decided on NMEA2000Decoder._decode_fast_message interpreted over the provenance domain.

The structural rules of rules_decoder.reassembly() recognise the reassembler's *spelling* (which test guards which
store).  They give an argument for all histories, but only for code written the way they expect; a refactoring
(helper methods, early returns, a different but equivalent concatenation) is not a violation.  So the alarms of
RA-* come from here instead: histories of fast-packet frames are built by the checker -- counters, lengths and
stream keys concrete, every payload byte a distinct symbol, padding bytes symbols of their own -- and fed, byte-
reversed as the front-ends do, to the function's syntax tree interpreted by absint.py with one persistent abstract
buffer map.  Nothing of the repository is executed.  For each history the property fixes what must come out:

  RA-ORDER   frame 0, then every permutation of the later frames        -> one delivery, at the last step, payload[0..L-1]
  RA-DUP     duplicates of later frames before completion               -> one delivery, when the last missing frame arrives
  RA-DONE    exact-fit lengths (6+7k) and padded lengths; stray duplicates of later frames after delivery -> nothing more
  RA-TRUNC   last frame padded to 8 bytes / not padded                  -> same payload, no padding symbol in it
  RA-COUNT   every length class                                         -> delivery exactly at the last frame
  RA-RESET   message A loses a later frame, then B (other counter)      -> exactly B, none of A's symbols
  RA-PRE     A's first frame lost (later frames alone), then B          -> exactly B; the stray frames change nothing
  RA-SEQ     a frame of another counter in the middle of A              -> ignored; A delivered intact
  RA-KEY     two streams differing in exactly one of pgn / src / dest, or only in how the numbers split
             ("1_23" / "12_3"), interleaved                              -> both delivered intact, each at its own last frame
  RA-SAFE    a frame of 0, 1 or 2 bytes in every record state            -> if it is rejected with an error, the record is unchanged

A history whose outcome differs is reported with the history itself: a definite witness in the interpreter's
semantics.  A construct the interpreter does not model is an ANALYSIS-ERROR, never a violation.
"""
from __future__ import annotations

import ast
import itertools

from . import absint as A
from .model import AnalysisError
from .wire import is_logger

DEC = 'nmea2000/decoder.py'
CLS = 'NMEA2000Decoder'


class Msg:
    def __init__(self, mid, key, seq, L, pad=True):
        self.mid, self.key, self.seq, self.L, self.pad = mid, key, seq, L, pad
        self.payload = [A.sym_byte(('pl', mid), i) for i in range(L)]
        chunks = [self.payload[:6]] + [self.payload[6 + 7 * k: 13 + 7 * k] for k in range(0 if L <= 6 else -(-(L - 6) // 7))]
        self.frames = []
        for i, ch in enumerate(chunks):
            f = [('c', (seq << 5) | i)] + ([('c', L)] if i == 0 else []) + list(ch)
            j = 0
            while pad and len(f) < 8:
                f.append(A.sym_byte(('pad', mid), 8 * i + j)); j += 1
            self.frames.append(f)

    @property
    def n(self):
        return len(self.frames)


class Runner:
    def __init__(self, program):
        self.program = program
        self.fn = program.fn('decoder', f"{CLS}._decode_fast_message")
        cls = program.cls('decoder', CLS)
        self.methods = {n.name: n for n in cls.body if isinstance(n, (ast.FunctionDef, ast.AsyncFunctionDef))}
        self.classes = {c: program.mod('decoder').classes[c] for c in program.mod('decoder').classes if c != CLS}
        self.params = [a.arg for a in self.fn.args.args]
        need = {'pgn', 'src', 'dest', 'can_data'}
        if not need <= set(self.params):
            raise AnalysisError(f"_decode_fast_message: parameters {sorted(need - set(self.params))} not found")
        self.steps = 0

    def new_decoder(self):
        """the decoder object as its constructor leaves it (interpreted with default arguments); a constructor the interpreter cannot follow
        leaves the minimal object: the buffer map and the class constants"""
        dec = A.AObj()
        dec.attrs.update(A.class_constants(None, self.program.cls('decoder', CLS)))
        if getattr(self, '_ctor_ok', True):
            try:
                init = self.methods.get('__init__')
                def hook(it, call, env):
                    name = ast.unparse(call.func)
                    if name in ('datetime.now', 'datetime.utcnow', 'time.time', 'time.monotonic'):
                        return A.AInt(5)
                    if name == 'open' or name.startswith('os.'):
                        return A.AOpaque(name)
                    return NotImplemented
                it = A.Interp(hook=hook, skip=is_logger, methods=self.methods, classes=self.classes, module=A.ModuleEnv(self.program.mod('decoder').tree))
                it.call_function(init, [dec])
                if isinstance(dec.attrs.get('data'), A.ADict):
                    return dec
            except (A.Unknown, A.RaiseSignal, AttributeError):
                pass
            self._ctor_ok = False
        dec = A.AObj(data=A.ADict())
        dec.attrs.update(A.class_constants(None, self.program.cls('decoder', CLS)))
        return dec

    def step(self, dec, key, frame_items):
        """-> ('none',) | ('delivered', [payload items in wire order]) | ('error', text)"""
        delivered = []
        def hook(it, call, env):
            name = ast.unparse(call.func)
            if name.endswith('._call_decode_function'):
                delivered.append([it.expr(a, env) for a in call.args] + [it.expr(k.value, env) for k in call.keywords])
                return None if getattr(self, 'decode_returns_none', False) else A.AObj(marker=True)
            return NotImplemented
        it = A.Interp(hook=hook, skip=is_logger, classes=self.classes, methods=self.methods, module=A.ModuleEnv(self.program.mod('decoder').tree))
        args = []
        for p in self.params:
            if p == 'self': args.append(dec)
            elif p == 'pgn': args.append(A.AInt(key[0]))
            elif p == 'src': args.append(A.AInt(key[1]))
            elif p == 'dest': args.append(A.AInt(key[2]))
            elif p == 'priority': args.append(A.AInt(3))
            elif p == 'can_data': args.append(A.ABytes(list(reversed(frame_items))))
            elif p == 'source_iso_name': args.append(None)
            else: args.append(A.AOpaque(p))
        self.steps += 1
        try:
            r = it.call_function(self.fn, args)
        except A.PyError as e:
            return ('error', e.kind)
        except A.RaiseSignal as e:
            return ('error', 'raise')
        if len(delivered) > 1:
            return ('delivered-many', len(delivered))
        if delivered:
            pl = [x for x in delivered[0] if isinstance(x, A.ABytes)]
            if len(pl) != 1:
                raise A.Unknown('payload argument of _call_decode_function not identified')
            return ('delivered', list(reversed(pl[0].items)))
        if r is not None and not getattr(self, 'decode_returns_none', False):
            return ('returned-without-decode', repr(r))
        return ('none',)


def snapshot(dec):
    def conv(v):
        if isinstance(v, A.AObj):
            return ('obj', tuple(sorted((k, conv(x)) for k, x in v.attrs.items() if not k.startswith('__'))))
        if isinstance(v, A.ADict):
            return ('dict', tuple(sorted(((repr(k), conv(x)) for k, x in v.items.items()))))
        if isinstance(v, A.ABytes):
            return ('bytes', tuple(v.items))
        if isinstance(v, A.AList):
            return ('list', tuple(conv(x) for x in v.items))
        if isinstance(v, A.AInt):
            return ('int', v.v, tuple(v.bits) if v.bits is not None else None)
        return repr(v)
    return conv(dec.attrs['data'])


def describe(history, msgs):
    out = []
    for h in history:
        if h[0] == 'raw':
            out.append(f"<{len(h[2])}-byte frame on {h[1]}>")
        else:
            m = msgs[h[0]]
            out.append(f"{h[0]}.{h[1]}")
    return ' '.join(out)


def scenarios(tier):
    """yield (rule, name, msgs{mid: Msg}, history[(mid, frame index) | ('raw', key, items)], expected[(step, mid)])"""
    K = (130000, 1, 255)
    thorough = tier == 'thorough'
    # RA-ORDER / RA-COUNT / RA-DONE / RA-TRUNC: one message, later frames permuted, padded and unpadded
    lens = [0, 1, 5, 6, 7, 12, 13, 14, 20, 27] + ([8, 19, 21, 26, 28, 34, 41, 223] if thorough else [])
    for L in lens:
        for pad in (True, False):
            for seq in ((0, 7) if L in (7, 13) else (3,)):
                m = Msg('A', K, seq, L, pad)
                later = list(range(1, m.n))
                perms = list(itertools.permutations(later)) if len(later) <= (4 if thorough else 3) else [tuple(later), tuple(reversed(later)), tuple(later[1:] + later[:1])]
                for pi, perm in enumerate(perms):
                    hist = [('A', 0)] + [('A', i) for i in perm]
                    rule = 'RA-ORDER' if pi else ('RA-TRUNC' if pad and L % 7 != 6 else ('RA-DONE' if L % 7 == 6 else 'RA-COUNT'))
                    yield rule, f"L={L},{'padded' if pad else 'exact'},seq={seq},order={'-'.join(map(str, (0,) + perm))}", {'A': m}, hist, [(len(hist) - 1, 'A')]
    # RA-DUP: duplicates of later frames (and of stored ones) before completion
    for L in (13, 20, 27):
        m = Msg('A', K, 2, L)
        later = list(range(1, m.n))
        for d in later[:-1] if len(later) > 1 else []:
            hist = [('A', 0)]
            for i in later:
                hist.append(('A', i))
                if i == d:
                    hist.append(('A', d))
                    hist.append(('A', d))
            yield 'RA-DUP', f"L={L},dup-frame={d}", {'A': m}, hist, [(len(hist) - 1, 'A')]
    for L in (20,):
        m = Msg('A', K, 2, L)
        hist = [('A', 0), ('A', 1), ('A', 1), ('A', 1), ('A', 2)]
        yield 'RA-DUP', f"L={L},dup-twice", {'A': m}, hist, [(4, 'A')]
    # RA-DONE: stray duplicates after delivery
    for L in (7, 13, 20):
        m = Msg('A', K, 4, L)
        base = [('A', i) for i in range(m.n)]
        for d in range(1, m.n):
            hist = base + [('A', d), ('A', d)]
            yield 'RA-DONE', f"L={L},stray-dup-after-delivery={d}", {'A': m}, hist, [(m.n - 1, 'A')]
    # RA-DONE: after a delivery nothing of the delivered message survives: the next message may even carry the same counter (8 messages later)
    for LA, LB in ((13, 13), (20, 7), (6, 20), (20, 20)):
        for sa, sb in ((4, 4), (4, 5), (0, 0), (7, 0)):
            a = Msg('A', K, sa, LA); b = Msg('B', K, sb, LB)
            hist = [('A', i) for i in range(a.n)] + [('B', i) for i in range(b.n)]
            yield 'RA-DONE', f"next-message-after-delivery,seq={sa}/{sb},L={LA}/{LB}", {'A': a, 'B': b}, hist, [(a.n - 1, 'A'), (len(hist) - 1, 'B')]
    # RA-RESET: A incomplete (a later frame lost), then B with another counter
    for LA, LB in ((20, 13), (27, 20), (13, 27), (20, 20), (27, 7), (20, 3)):
        for lost in range(1, Msg('A', K, 1, LA).n):
            a = Msg('A', K, 1, LA); b = Msg('B', K, 2, LB)
            hist = [('A', i) for i in range(a.n) if i != lost] + [('B', i) for i in range(b.n)]
            yield 'RA-RESET', f"LA={LA},lost={lost},LB={LB}", {'A': a, 'B': b}, hist, [(len(hist) - 1, 'B')]
    # every pair of distinct counters is a different message (a 2-bit comparison would confuse s and s+4)
    for sa in range(8):
        for sb in range(8):
            if sa != sb:
                a = Msg('A', K, sa, 20); b = Msg('B', K, sb, 20)
                hist = [('A', 0), ('A', 1)] + [('B', i) for i in range(b.n)]
                yield 'RA-SEQ', f"abandoned-counter={sa},next-counter={sb}", {'A': a, 'B': b}, hist, [(len(hist) - 1, 'B')]
    # RA-RESET: B restarts while A is in progress; A's tail arrives afterwards
    a = Msg('A', K, 1, 27); b = Msg('B', K, 2, 13)
    hist = [('A', 0), ('A', 1), ('B', 0), ('A', 2), ('B', 1), ('A', 3)]
    yield 'RA-RESET', "restart-then-old-tail", {'A': a, 'B': b}, hist, [(4, 'B')]
    # RA-PRE: first frame lost
    for LA, LB in ((20, 13), (27, 6), (13, 20)):
        a = Msg('A', K, 5, LA); b = Msg('B', K, 6, LB)
        hist = [('A', i) for i in range(1, a.n)] + [('B', i) for i in range(b.n)]
        yield 'RA-PRE', f"first-frame-lost,LA={LA},LB={LB}", {'A': a, 'B': b}, hist, [(len(hist) - 1, 'B')]
    # RA-PRE after a delivery: the record is gone, stray later frames of anything are ignored
    a = Msg('A', K, 5, 13); x = Msg('X', K, 5, 27); b = Msg('B', K, 6, 13)
    hist = [('A', 0), ('A', 1), ('X', 2), ('X', 3), ('B', 0), ('B', 1)]
    yield 'RA-PRE', "stray-after-delivery-then-next", {'A': a, 'X': x, 'B': b}, hist, [(1, 'A'), (5, 'B')]
    # RA-SEQ: a frame with another counter in the middle of A
    for L in (20, 27):
        a = Msg('A', K, 1, L); x = Msg('X', K, 6, 34)
        for pos in range(1, a.n):
            for xf in (1, 2):
                hist = [('A', i) for i in range(pos)] + [('X', xf)] + [('A', i) for i in range(pos, a.n)]
                yield 'RA-SEQ', f"L={L},foreign-frame-{xf}-at-{pos}", {'A': a, 'X': x}, hist, [(len(hist) - 1, 'A')]
    # RA-KEY: two streams differing in one component, interleaved; same and different counters
    others = [((130001, 1, 255), 'pgn'), ((130000, 2, 255), 'src'), ((130000, 1, 7), 'dest'), ((13000, 1, 255), 'pgn-prefix')]
    for (K2, what) in others + [(None, 'split')]:
        for (sa, sb) in ((1, 1), (1, 2)):
            if K2 is None:
                ka, kb = (1, 23, 255), (12, 3, 255)
            else:
                ka, kb = K, K2
            for LA, LB in ((20, 20), (13, 27)):
                a = Msg('A', ka, sa, LA); b = Msg('B', kb, sb, LB)
                hist = []
                exp = []
                for i in range(max(a.n, b.n)):
                    if i < a.n:
                        hist.append(('A', i))
                        if i == a.n - 1: exp.append((len(hist) - 1, 'A'))
                    if i < b.n:
                        hist.append(('B', i))
                        if i == b.n - 1: exp.append((len(hist) - 1, 'B'))
                yield 'RA-KEY', f"differ-in-{what},seq={sa}/{sb},L={LA}/{LB}", {'A': a, 'B': b}, hist, exp
    # RA-KEY: small numbers, every pair of streams of one PGN (and of two adjacent PGNs): arithmetic packings that collide
    keys = [(p, s_, d) for p in (126208, 126209) for s_ in (0, 1, 2, 4) for d in (0, 1, 2, 255)]
    for ka, kb in itertools.combinations(keys, 2):
        if ka[0] != kb[0] and (ka[1], ka[2]) != (kb[1], kb[2]) and not thorough:
            continue
        a = Msg('A', ka, 1, 13); b = Msg('B', kb, 2, 13)
        yield 'RA-KEY', f"streams {ka} / {kb}", {'A': a, 'B': b}, [('A', 0), ('B', 0), ('A', 1), ('B', 1)], [(2, 'A'), (3, 'B')]
    for ka, kb, what in (((11, 1, 255), (1, 11, 255), 'split-2'), ((1, 2, 55), (1, 25, 5), 'split-3')):
        a = Msg('A', ka, 1, 13); b = Msg('B', kb, 1, 13)
        yield 'RA-KEY', f"differ-in-{what}", {'A': a, 'B': b}, [('A', 0), ('B', 0), ('A', 1), ('B', 1)], [(2, 'A'), (3, 'B')]
    # RA-SAFE: truncated frames in every record state
    for n in (0, 1, 2):
        for state in ('empty', 'in-progress', 'after-delivery'):
            a = Msg('A', K, 1, 20)
            pre = {'empty': [], 'in-progress': [('A', 0), ('A', 1)], 'after-delivery': [('A', 0), ('A', 1), ('A', 2)]}[state]
            for first in ((2 << 5) | 0, (1 << 5) | 2, (1 << 5) | 0):
                items = [('c', first), ('c', 9)][:n]
                hist = pre + [('raw', K, items)]
                exp = [(2, 'A')] if state == 'after-delivery' else []
                yield 'RA-SAFE', f"{n}-byte-frame(first={first:#04x}),record-{state}", {'A': a}, hist, exp


def explore(chk, program, tier, rules=None):
    """run the scenario families; rules: the subset of RA-* names this property claims"""
    R = Runner(program)
    _explore(chk, program, tier, rules, R, decode_returns='message')
    # the same with a decode stage that returns None (the message is filtered out by id, or has no sub-decoder): the buffer bookkeeping must not depend on it
    R.decode_returns_none = True
    n2 = _explore(chk, program, tier, {'RA-DONE'} & set(rules if rules is not None else ['RA-DONE']), R, decode_returns='None', suffix='|decode-returns-None')
    R.decode_returns_none = False
    return chk.units.get('reassembly_histories', 0)

def _explore(chk, program, tier, rules, R, decode_returns='message', suffix=''):
    count = 0
    seen_unknown = set()
    for rule, name, msgs, hist, expected in scenarios(tier):
        if rules is not None and rule not in rules:
            continue
        dec = R.new_decoder()
        got = []
        problem = None
        try:
            for i, h in enumerate(hist):
                if h[0] == 'raw':
                    before = snapshot(dec)
                    out = R.step(dec, h[1], h[2])
                    if out[0] == 'error':
                        after = snapshot(dec)
                        # a record created empty for the stream is not a change later frames can observe
                        if after != before and not _only_fresh_record_added(before, after, R, h[1]):
                            problem = f"the {len(h[2])}-byte frame at step {i} raised after the record had been modified"
                            break
                    # a short frame that is accepted (a header without payload bytes) is a frame like any other
                    continue
                m = msgs[h[0]]
                out = R.step(dec, m.key, m.frames[h[1]])
                if out[0] == 'none':
                    continue
                if out[0] == 'delivered':
                    who = [mid for mid, mm in msgs.items() if out[1] == mm.payload]
                    got.append((i, who[0] if who else _describe_payload(out[1])))
                    continue
                problem = f"step {i} ({h[0]}.{h[1]}): {out[0]} {out[1] if len(out) > 1 else ''}"
                break
        except A.Unknown as u:
            key = str(u)
            if key not in seen_unknown:
                seen_unknown.add(key)
                chk.unknown(rule, name, f"not interpretable: {u}", DEC, R.fn.lineno)
            continue
        count += 1
        ok = problem is None and got == list(expected)
        found = 'as expected'
        if not ok:
            found = problem or ('delivered ' + (', '.join(f"{w} at step {s}" for s, w in got) or 'nothing'))
        chk.check(ok, rule, name + suffix, file=DEC, line=R.fn.lineno, func='_decode_fast_message',
                  expected='frames [' + describe(hist, msgs) + '] -> ' + (', '.join(f"{w} (payload[0..{msgs[w].L - 1}]) at step {s}" for s, w in expected) or 'nothing delivered'),
                  found=found, detail='' if ok else _why(rule))
    chk.unit('reassembly_histories', chk.units.get('reassembly_histories', 0) + count if suffix else count)
    chk.unit('reassembly_steps', R.steps)
    return count


def _only_fresh_record_added(before, after, R, key):
    """True when `after` is `before` plus one record equal to a freshly constructed one (the lookup-or-create prologue ran before the failing index)"""
    if before[0] != 'dict' or after[0] != 'dict':
        return False
    b = dict(before[1]); a = dict(after[1])
    extra = [k for k in a if k not in b]
    if len(extra) != 1 or any(a[k] != b[k] for k in b):
        return False
    fresh_dec = R.new_decoder()
    try:
        R.step(fresh_dec, key, [])
    except A.Unknown:
        return False
    f = snapshot(fresh_dec)
    fd = dict(f[1]) if f[0] == 'dict' else {}
    return len(fd) == 1 and list(fd.values())[0] == a[extra[0]]


def _describe_payload(items):
    srcs = []
    for it in items:
        if it[0] == 'b' and isinstance(it[1][0], tuple):
            s = it[1][0][0]
            tag = f"{s[0][1]}:{'pad' if s[0][0] == 'pad' else ''}{s[1]}"
        elif it[0] == 'c':
            tag = f"const {it[1]:#04x}"
        else:
            tag = '?'
        srcs.append(tag)
    return f"{len(items)} bytes [" + ' '.join(srcs[:12]) + (' ...' if len(srcs) > 12 else '') + ']'


def _why(rule):
    return {
        'RA-ORDER': 'frames that arrive out of order are concatenated in arrival order: a scrambled payload is returned',
        'RA-DUP': 'a duplicated frame is counted twice: the message completes early or with the wrong bytes',
        'RA-DONE': 'completion / deletion of the record: a message is returned late, never, or again for a stray duplicate',
        'RA-TRUNC': 'padding beyond the announced length becomes part of the payload',
        'RA-COUNT': 'what is counted towards completion is not what was stored',
        'RA-RESET': 'bytes or counters of an abandoned message leak into the next one',
        'RA-PRE': 'later frames without a first frame change the record',
        'RA-SEQ': 'frames of a message with another sequence counter are mixed in',
        'RA-KEY': 'two streams share one reassembly record',
        'RA-SAFE': 'a truncated frame leaves the record half-updated',
    }.get(rule, '')


class _ConfirmOnly:
    """the structural rules of rules_decoder.reassembly() may confirm (an argument for all histories, when the code is
    spelled the way they expect); what they do not recognise is not an alarm -- the exploration above decides"""
    def __init__(self, chk, keep):
        self.chk = chk; self.keep = keep
        self.obs = chk.obs
        self.errors = []
        self.unrecognised = []
    def check(self, cond, rule, instance, **k):
        if rule in self.keep:
            if cond:
                self.chk.ok(rule, 'structural::' + instance, **k)
            else:
                self.unrecognised.append(f"{rule}::{instance}")
        return cond
    def anchor(self, cond, rule, instance, **k):
        return self.check(cond, rule, instance, **k)
    def ok(self, rule, instance, **k):
        if rule in self.keep: self.chk.ok(rule, 'structural::' + instance, **k)
    def violation(self, rule, instance, **k):
        if rule in self.keep: self.unrecognised.append(f"{rule}::{instance}")
    def unknown(self, rule, instance, *a, **k):
        if rule in self.keep: self.unrecognised.append(f"{rule}::{instance}")
    def unit(self, *a, **k): pass
    def floor(self, *a, **k): pass
    def rule(self, *a, **k): pass


def decide(chk, program, tier, rules):
    """RA-* for one property: exploration decides, the structural rules add their universal argument where they apply"""
    n = explore(chk, program, tier, rules)
    chk.floor('reassembly_histories', n, 3 * len(rules))
    from . import rules_decoder as RD
    co = _ConfirmOnly(chk, set(rules))
    try:
        RD.reassembly(co, program)
    except AnalysisError as e:
        co.unrecognised.append(f"structural rules gave up: {e}")
    except Exception as e:
        co.unrecognised.append(f"structural rules gave up: {type(e).__name__}: {e}")
    chk.unit('structural_shapes_not_recognised', co.unrecognised)
    return n
