"""rules_serial.py -- the serial (Waveshare) receive path decided on its interpreted source.

The structural rules of rules_client (BUF-BOUND, BUF-PROGRESS, SER-DELIVER, SCAN-PROGRESS, SER-STATE) recognise one
spelling of the resynchronising scanner: `find` the marker, test `start + 20 > len`, cut, trim.  A scanner written with a
helper that returns the packet start, an in-place `del`, `buf[-1:] == marker[:1]` is not a violation.  So the alarms come
from here: the class's `_receive_impl` is interpreted (absint.py) with one persistent abstract client object, on byte
streams built by the checker and cut into reads in many ways.

The scanner consults its input only through (a) the positions of the two marker bytes, (b) lengths, (c) what the packet
decoder says about a 20-byte window.  The streams are therefore words over three classes of bytes -- AA, 55 and "any
byte that is neither" (a symbol of its own, never equal to a marker byte) -- and the decoder is replaced by an oracle that
accepts exactly the windows that are packets of the stream (a window cut anywhere else fails its checksum: C20's
CSUM-DOM / CSUM-COVER decide that on decode_usb itself) and otherwise answers None or raises, both ways.  What a run
shows for a word holds for every byte stream of that shape.

  SER-DELIVER    noise without the two-byte marker, any cut into reads  -> every packet delivered once, in order
  BUF-PROGRESS   noise that contains the marker                         -> at most the first packet after it is lost; nothing else is
                                                                           lost, duplicated, reordered or invented
  BUF-BOUND      after every read, the bytes held back                  -> at most 2 packet lengths, however long the noise
  SCAN-PROGRESS  every call returns                                     -> within the step budget (a scan loop that stops consuming spins)
  SER-STATE      the same stream under two different cuts               -> the same deliveries
  EOF            a read that returns b''                                -> raises (the loop then reports DISCONNECTED)

A construct the interpreter does not model is an ANALYSIS-ERROR, never a violation.
"""
from __future__ import annotations

import ast
import itertools

from . import absint as A
from .model import AnalysisError
from .wire import is_logger

IO = 'nmea2000/ioclient.py'
M0, M1 = ('c', 0xaa), ('c', 0x55)
PLEN = 20


def X(tag):
    return ('x', tag)          # a byte that is neither AA nor 55


class Stream:
    def __init__(self, blocks):
        """blocks: list of ('P',) | ('N', word) with word over 'a' (AA), 'u' (55), 'x'"""
        self.items = []
        self.packets = []       # (start index, items tuple)
        self.dirty_before = []  # per packet: does marker-bearing noise (or a damaged packet) precede it since the previous packet
        self.desc = []
        dirty = False
        k = 0
        for b in blocks:
            if b[0] == 'P':
                start = len(self.items)
                body = b[1] if len(b) > 1 else 'x' * (PLEN - 2)
                it = [M0, M1] + [M0 if ch == 'a' else M1 if ch == 'u' else X(('p', len(self.packets), i)) for i, ch in enumerate(body)]
                # the three bytes after the marker are what every Waveshare packet carries there (frame type 01, format 02, framework 01)
                for j_, c_ in ((2, 1), (3, 2), (4, 1)):
                    if it[j_][0] == 'x':
                        it[j_] = ('c', c_)
                self.items += it
                self.packets.append((start, tuple(it)))
                self.dirty_before.append(dirty)
                dirty = False
                self.desc.append('P' if len(b) == 1 else f"P({b[1].strip('x') or 'x'}@{len(b[1]) - len(b[1].lstrip('x'))})")
            else:
                w = b[1]
                for ch in w:
                    k += 1
                    self.items.append(M0 if ch == 'a' else M1 if ch == 'u' else X(('n', k)))
                if 'au' in w:
                    dirty = True
                self.desc.append(w if len(w) <= 8 else f"{w[:3]}..({len(w)})")
        # a marker formed across block borders also counts as dirty noise for the next packet: recompute from the flat word
        flat = ''.join('a' if x == M0 else 'u' if x == M1 else 'x' for x in self.items)
        starts = {s for s, _ in self.packets}
        inside = {s + k for s, _ in self.packets for k in range(1, PLEN)}       # a marker lying inside a packet, or made of its last byte and the next byte, is not in the noise
        pos = flat.find('au')
        self.true_marker_only = True
        while pos >= 0:
            if pos not in starts and pos not in inside:
                self.true_marker_only = False
                # mark the next packet after pos dirty
                for i, (s, _) in enumerate(self.packets):
                    if s > pos:
                        self.dirty_before[i] = True
                        break
            pos = flat.find('au', pos + 1)

    def describe(self):
        return ' '.join(self.desc)


def cuts_for(n, tier, marks=()):
    """ways of cutting a stream of n bytes into reads: lists of chunk sizes.  quick tier: the fixed sizes and every two-read cut within 2 bytes of
    a block border (`marks`); thorough tier: every two-read cut and a lattice of three-read cuts"""
    out = [[n]]
    for size in ((1, 3, 7, 10, 19, 20, 21, 41, 100) if tier != 'thorough' else (1, 2, 3, 7, 10, 19, 20, 21, 39, 41, 100)):
        if size < n and (tier == 'thorough' or n <= 140 or size >= 19):
            out.append([size] * (n // size) + ([n % size] if n % size else []))
    if tier == 'thorough':
        points = range(1, n)
    else:
        points = sorted({p for m_ in marks for p in range(m_ - 2, m_ + 3) if 0 < p < n})
    for p in points:
        out.append([p, n - p])
    if tier == 'thorough' and n <= 70:
        for p in range(1, n - 1, 5):
            for q in range(p + 1, n, 7):
                out.append([p, q - p, n - q])
    seen = []
    for c in out:
        if c not in seen:
            seen.append(c)
    return seen


def streams(tier):
    P = ('P',)
    N = lambda w: ('N', w)
    clean = ['x', 'xxx', 'a', 'xa', 'u', 'ux', 'ua', 'uxa', 'aa', 'x' * 19, 'x' * 20, 'x' * 21, 'x' * 45 + 'a', 'xax', 'axa', 'xuxa']
    dirty = ['au', 'aux', 'au' + 'x' * 5, 'au' + 'x' * 17, 'au' + 'x' * 18, 'au' + 'x' * 19, 'xau', 'auau', 'au' + 'x' * 8 + 'a']
    out = []
    out.append(('clean', [P]))
    out.append(('clean', [P, P]))
    out.append(('clean', [P, P, P]))
    for w in clean:
        out.append(('clean', [N(w), P]))
        out.append(('clean', [P, N(w), P]))
        out.append(('clean', [P, N(w)]))
    out.append(('clean', [N('xxa'), P, N('x' * 7), P, N('a'), P]))
    # packets whose payload contains marker bytes: the last byte AA, an inner AA 55, a leading 55
    Pa, Paa, Pm, Pu = ('P', 'x' * 17 + 'a'), ('P', 'x' * 16 + 'aa'), ('P', 'x' * 5 + 'au' + 'x' * 11), ('P', 'u' + 'x' * 17)
    for pk in (Pa, Paa, Pm, Pu):
        out.append(('clean', [pk]))
        out.append(('clean', [pk, P]))
        out.append(('clean', [P, pk, pk, P]))
        out.append(('clean', [N('xx'), pk, N('x'), P]))
    out.append(('clean', [Pa, N('x' * 30), P]))
    out.append(('clean', [Pm, Pa, Pu, P]))
    for w in ('u', 'ux', 'u' + 'x' * 10, 'u' + 'x' * 17, 'uxa'):
        out.append(('clean', [Pa, N(w), P, P]))
        out.append(('clean', [P, Paa, N(w), P]))
    out.append(('clean', [N('x' * 130)]))
    out.append(('clean', [N('x' * 130), P]))
    out.append(('clean', [N('x' * 260 + 'a'), P, P]))
    out.append(('clean', [N('x' * 700)]))
    out.append(('clean', [N('xxa' + 'x' * 400)]))            # one AA early in marker-free noise must not pin what follows it
    out.append(('clean', [N('a' + 'x' * 300 + 'a' + 'x' * 300), P]))
    out.append(('clean', [N('xu' + 'x' * 400), P]))
    out.append(('clean', [N(('x' * 9 + 'a') * 40)]))          # every 10-byte read ends in AA
    out.append(('clean', [N(('x' * 19 + 'a') * 25), P]))
    out.append(('dirty', [N(('au' + 'x' * 11) * 40), P, P]))
    for w in dirty:
        out.append(('dirty', [N(w), P, P]))
        out.append(('dirty', [P, N(w), P, P]))
    out.append(('dirty', [P, N('au' + 'x' * 3), P, N('au'), P, P]))
    # a truncated packet (its tail lost) followed by packets: the damaged one is noise that contains the marker
    for keep in (2, 3, 10, 19):
        out.append(('dirty', [P, N('au' + 'x' * (keep - 2)), P, P]))
    if tier == 'thorough':
        for a, b in itertools.product(clean[:8], repeat=2):
            out.append(('clean', [N(a), P, N(b), P]))
        for a, b in itertools.product(dirty[:5], clean[:5]):
            out.append(('dirty', [N(a), P, N(b), P, P]))
    return [(k, Stream(b)) for k, b in out]


class Runner:
    def __init__(self, program, q):
        self.program = program
        self.q = q
        self.fn = program.fn('ioclient', q)
        cname = q.split('.')[0]
        m = program.mod('ioclient')
        self.methods = {}
        for c in reversed(program.mro('ioclient', cname)):
            for n in m.classes[c].body:
                if isinstance(n, (ast.FunctionDef, ast.AsyncFunctionDef)):
                    self.methods[n.name] = n
        self.menv = A.ModuleEnv(m.tree)
        self.cname = cname
        self.buffer_attr = None
        self.steps = 0

    def new_client(self):
        """the client object as its constructors leave it, as far as the receive path is concerned: attributes that __init__ of the class
        chain binds to a fresh bytearray / bytes / list / None / number"""
        if getattr(self, '_template', None) is not None:
            o = A.AObj()
            for k, v in self._template.items():
                o.attrs[k] = A.ABytes(list(v.items), v.mutable) if isinstance(v, A.ABytes) else (A.AList(list(v.items)) if isinstance(v, A.AList) else v)
            o.attrs['reader'] = A.AObj(kind='reader')
            o.attrs['decoder'] = A.AObj(kind='decoder')
            o.attrs['queue'] = A.AObj(kind='queue')
            return o
        o = A.AObj()
        m = self.program.mod('ioclient')
        for c in reversed(self.program.mro('ioclient', self.cname)):
            o.attrs.update(A.class_constants(None, m.classes[c]))
            inits = [n for n in m.classes[c].body if isinstance(n, (ast.FunctionDef, ast.AsyncFunctionDef)) and n.name in ('__init__', '_connect_impl')]
            inits.sort(key=lambda n: n.name != '__init__')          # the state after a successful connect: what _connect_impl binds overrides __init__
            init_stmts = {id(i_): set(ast.walk(i_)) for i_ in inits}
            for st in [x for init in inits for x in ast.walk(init)]:
                if isinstance(st, (ast.Assign, ast.AnnAssign)):
                    tg = st.targets[0] if isinstance(st, ast.Assign) and len(st.targets) == 1 else (st.target if isinstance(st, ast.AnnAssign) else None)
                    v = st.value
                    if isinstance(tg, ast.Attribute) and isinstance(tg.value, ast.Name) and tg.value.id == 'self' and v is not None:
                        if isinstance(v, ast.Call) and isinstance(v.func, ast.Name) and v.func.id == 'bytearray' and not v.args:
                            o.attrs[tg.attr] = A.ABytes([], True)
                        elif isinstance(v, ast.Constant) and (v.value is None or isinstance(v.value, (int, bytes, str, bool))):
                            o.attrs[tg.attr] = A.Interp().expr(v, {})
                        elif isinstance(v, (ast.List,)) and not v.elts:
                            o.attrs[tg.attr] = A.AList([])
                        elif st in init_stmts.get(id(inits[0]) if inits and inits[0].name == '__init__' else None, ()) and tg.attr not in ('reader', 'writer', 'queue', 'decoder', 'lock', 'logger'):
                            # anything else __init__ binds (a dictionary of counters, an optional argument left at its default): evaluated with the
                            # parameters at their defaults; what cannot be evaluated stays unmodelled
                            try:
                                penv = {}
                                a_ = inits[0].args
                                pos = a_.args[len(a_.args) - len(a_.defaults):] if a_.defaults else []
                                for pa, dv in list(zip(pos, a_.defaults)) + [(pa, dv) for pa, dv in zip(a_.kwonlyargs, a_.kw_defaults) if dv is not None]:
                                    penv[pa.arg] = A.Interp(module=self.menv).expr(dv, {})
                                val_ = A.Interp(module=self.menv).expr(v, penv)
                                if val_ is None or isinstance(val_, (bool, A.AInt, A.AStr, A.ABytes, A.AList, A.ADict)):
                                    o.attrs[tg.attr] = val_
                            except (A.Unknown, A.PyError, A.RaiseSignal, KeyError, AttributeError, TypeError, RecursionError):
                                pass
        o.attrs['reader'] = A.AObj(kind='reader')
        o.attrs['decoder'] = A.AObj(kind='decoder')
        o.attrs['queue'] = A.AObj(kind='queue')
        o.attrs['logger'] = A.AOpaque('logger')
        o.attrs.setdefault('writer', A.AObj(kind='writer'))
        self._template = {k: (A.ABytes(list(v.items), v.mutable) if isinstance(v, A.ABytes) else (A.AList(list(v.items)) if isinstance(v, A.AList) else v))
                          for k, v in o.attrs.items() if k not in ('reader', 'decoder', 'queue')}
        return o

    def call(self, client, chunk, packets, mode, delivered, windows):
        served = []
        def hook(it, call, env):
            f = call.func
            if isinstance(f, ast.Attribute):
                try:
                    recv = it.expr(f.value, env) if isinstance(f.value, (ast.Name, ast.Attribute)) else None
                except A.Unknown:
                    recv = None
                if isinstance(recv, A.AObj) and recv.attrs.get('kind') == 'reader' and f.attr in ('read', 'readexactly', 'readline', 'readuntil'):
                    if f.attr != 'read':
                        raise A.Unknown(f"the serial path reads with {f.attr}()")
                    n = it.expr(call.args[0], env) if call.args else A.AInt(-1)
                    if not (isinstance(n, A.AInt) and n.v is not None):
                        raise A.Unknown('read size is abstract')
                    if served:
                        raise A.Unknown('more than one read per call of _receive_impl')
                    served.append(True)
                    self.read_size = n.v
                    if n.v >= 0 and n.v < len(chunk):
                        out_ = list(chunk[:n.v])
                        del chunk[:n.v]           # the transport keeps the rest for the next read
                        return A.ABytes(out_)
                    out_ = list(chunk)
                    del chunk[:]
                    return A.ABytes(out_)
                if isinstance(recv, A.AObj) and recv.attrs.get('kind') == 'decoder':
                    args = [it.expr(a, env) for a in call.args]
                    if f.attr != 'decode_usb' or len(args) != 1 or not isinstance(args[0], A.ABytes):
                        raise A.Unknown(f"decoder.{f.attr} on the serial path")
                    w = tuple(args[0].items)
                    windows.append(w)
                    for k, (_, pk) in enumerate(packets):
                        if w == pk:
                            return A.AObj(message=k)
                    if mode == 'raise':
                        raise A.PyError('ValueError', call.lineno)
                    return None
                if isinstance(recv, A.AObj) and recv.attrs.get('kind') == 'queue' and f.attr in ('put', 'put_nowait'):
                    v = it.expr(call.args[0], env)
                    delivered.append(v.attrs.get('message') if isinstance(v, A.AObj) else repr(v))
                    return None
            name = ast.unparse(f)
            if name.startswith('asyncio.'):
                return A.AOpaque(name)
            return NotImplemented
        it = A.Interp(hook=hook, skip=is_logger, methods=self.methods, module=self.menv, max_steps=20000)
        try:
            it.call_function(self.fn, [client])
        finally:
            self.steps += it.steps
        return it.steps


def held_back(client):
    """total length of the byte buffers the client object holds"""
    n = 0
    for k, v in client.attrs.items():
        if isinstance(v, A.ABytes) and v.mutable:
            n += len(v.items)
    return n


def run_stream(R, st, cut, mode):
    """-> dict(delivered=[packet index..], max_held=int, problem=str|None)"""
    client = R.new_client()
    delivered, windows = [], []
    pos = 0
    max_held = 0
    pending = []
    sizes = list(cut)
    guard = 0
    while sizes or pending:
        guard += 1
        if guard > 5000:
            raise A.Unknown('the transport model did not drain')
        if not pending:
            size = sizes.pop(0)
            pending = list(st.items[pos:pos + size])
            pos += size
        chunk = pending
        before_len = len(chunk)
        try:
            R.call(client, chunk, st.packets, mode, delivered, windows)
            if len(chunk) == before_len and before_len:
                raise A.Unknown('a call of _receive_impl read nothing')
        except A.RaiseSignal as r:
            return {'delivered': delivered, 'max_held': max_held, 'problem': f"raises {A.exc_kind(r)} on ordinary input (around offset {pos})"}
        except A.Unknown as u:
            if 'step budget' in str(u):
                return {'delivered': delivered, 'max_held': max_held, 'problem': None, 'spins': f"the call handling the read around offset {pos} does not return within the step budget"}
            raise
        max_held = max(max_held, held_back(client))
    return {'delivered': delivered, 'max_held': max_held, 'problem': None, 'client': client}


def explore(chk, program, tier, rules, q):
    R = Runner(program, q)
    fn = R.fn
    n_runs = 0
    reported = set()
    oks = {}
    def report(rule, inst, ok, expected, found, detail=''):
        if rule not in rules:
            return
        if ok:
            oks[(rule, inst)] = oks.get((rule, inst), 0) + 1
        elif (rule, inst) not in reported:
            reported.add((rule, inst))
            chk.violation(rule, inst, file=IO, line=fn.lineno, func=q, expected=expected, found=found, detail=detail)
    unknown = None
    for kind, st in streams(tier):
        if len(reported) >= 6:
            break          # enough witnesses; a broken scanner fails almost every stream
        n = len(st.items)
        base = None
        inst0 = f"{q}::{kind}::[{st.describe()}]"
        marks = [s_ for s_, _ in st.packets] + [s_ + PLEN for s_, _ in st.packets] + [s_ + 2 for s_, _ in st.packets]
        for cut in cuts_for(n, tier, marks):
            for mode in (('none', 'raise') if st.packets and not st.true_marker_only else ('none',)):
                try:
                    r = run_stream(R, st, cut, mode)
                except A.Unknown as u:
                    unknown = str(u)
                    break
                n_runs += 1
                cutd = '+'.join(map(str, cut)) if len(cut) <= 6 else f"{cut[0]}x{len(cut)}"
                if r.get('spins'):
                    report('SCAN-PROGRESS' if 'SCAN-PROGRESS' in rules else 'SER-DELIVER', inst0, False, 'every call of _receive_impl returns', f"reads {cutd}: {r['spins']}",
                           'the scan loop stops consuming bytes: nothing after that point is ever delivered and the event loop is starved')
                    continue
                if r['problem']:
                    report('SER-DELIVER', inst0, False, 'noise and damaged packets are skipped, not raised', f"reads {cutd}: {r['problem']}")
                    continue
                d = r['delivered']
                allp = list(range(len(st.packets)))
                if kind == 'clean' and st.true_marker_only:
                    ok = d == allp
                    report('SER-DELIVER', inst0, ok, f"packets {allp} delivered once each, in order", f"reads {cutd}: delivered {d}",
                           'noise that does not contain the start marker must not cost a packet')
                else:
                    may_lose = {i for i in allp if st.dirty_before[i]}
                    ok = all(isinstance(x, int) for x in d) and d == sorted(set(d)) and set(allp) - may_lose <= set(d)
                    report('BUF-PROGRESS', inst0, ok, f"in order, no duplicates, all of {sorted(set(allp) - may_lose)} (only the first packet after marker-bearing noise, {sorted(may_lose)}, may be lost)",
                           f"reads {cutd}, decoder {'raising' if mode == 'raise' else 'returning None'} on damaged windows: delivered {d}",
                           'after noise the scanner must be back in step by the second packet')
                bound = max(getattr(R, 'read_size', 100), 0) + 2 * PLEN
                report('BUF-BOUND', inst0, r['max_held'] <= bound, f"at most one read plus two packet lengths ({bound} bytes) held back after a read", f"reads {cutd}: {r['max_held']} bytes held back",
                       'bytes that can no longer start a packet must be dropped, however much noise arrives')
                if base is None:
                    base = (d, cutd)
                elif kind == 'clean' and st.true_marker_only and d != base[0]:
                    report('SER-STATE', inst0, False, 'the same deliveries for every way of cutting the stream into reads', f"reads {base[1]}: {base[0]}; reads {cutd}: {d}")
            if unknown or len(reported) >= 6:
                break
        if unknown:
            break
    if unknown is None:
        # end of stream
        st = Stream([('P',)])
        client = R.new_client()
        try:
            R.call(client, [], st.packets, 'none', [], [])
            eof = 'returns'
        except A.RaiseSignal as r:
            eof = 'raises'
        except A.Unknown as u:
            eof = None
            unknown = str(u)
        if eof is not None:
            report('EOF', f"{q}::read", eof == 'raises', "a read of b'' (end of stream) raises", eof)
    if unknown is not None:
        for rule in rules:
            if rule != 'EOF':
                chk.unknown(rule, q, f"serial receive path not interpretable: {unknown}", IO, fn.lineno)
    for (rule, inst), k in oks.items():
        if (rule, inst) not in reported:
            chk.ok(rule, inst, file=IO, line=fn.lineno, func=q, detail=f"{k} runs (cuts into reads x decoder answers)")
    chk.unit('serial_runs', n_runs)
    chk.unit('serial_interpreter_steps', R.steps)
    return n_runs, unknown


def serial_impl(program):
    """the _receive_impl that keeps a byte buffer between calls: the class whose __init__ chain creates a bytearray attribute"""
    m = program.mod('ioclient')
    out = []
    for cname, c in m.classes.items():
        own = [n for n in c.body if isinstance(n, (ast.FunctionDef, ast.AsyncFunctionDef)) and n.name == '_receive_impl']
        if not own:
            continue
        has_buf = False
        for cc in program.mro('ioclient', cname):
            for n in ast.walk(m.classes[cc]):
                if isinstance(n, ast.Call) and isinstance(n.func, ast.Name) and n.func.id == 'bytearray':
                    has_buf = True
        if has_buf:
            out.append(f"{cname}._receive_impl")
    return out


def decide(chk, program, tier, rules):
    """SER-* / BUF-* / SCAN-PROGRESS for one property: the exploration decides; the structural rules add their argument where they recognise the code"""
    impls = serial_impl(program)
    if len(impls) != 1:
        raise AnalysisError(f"expected one buffering _receive_impl (a class that creates a bytearray), found {impls}")
    n, unknown = explore(chk, program, tier, set(rules), impls[0])
    from .rules_reasm import _ConfirmOnly
    from . import rules_client as K
    co = _ConfirmOnly(chk, set(rules))
    res = None
    try:
        res = K.buf_rules(co, program)
    except AnalysisError as e:
        co.unrecognised.append(f"structural rules gave up: {e}")
    except Exception as e:
        co.unrecognised.append(f"structural rules gave up: {type(e).__name__}: {e}")
    chk.unit('serial_structural_shapes_not_recognised', co.unrecognised[:6])
    return res
