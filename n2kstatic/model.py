"""model.py -- the parsed program: every module of the package + canboat.json.

Everything is read from `--repo` (default /repo) on every run; nothing of
nmea2000 is imported or executed.  The generated module (59 k lines) is split
at column-0 statement starts, the chunks are parsed and summarised (sym.py) in
a process pool, and only the summaries travel back.  The split is fail-safe:
a chunk that is cut inside a bracket or string does not parse, and then the
whole file is parsed in one piece instead.
"""
from __future__ import annotations

import ast
import hashlib
import json
import os
import re
import sys
import time
from concurrent.futures import ProcessPoolExecutor

from . import sym

PKG = 'nmea2000'
HAND_MODULES = ['decoder', 'encoder', 'message', 'utils', 'ioclient', 'consts', 'cli', '__init__']

class AnalysisError(Exception):
    """the analyser cannot decide (vanished anchor, unrecognised idiom, count below floor)"""

def sha256_file(path):
    h = hashlib.sha256()
    with open(path, 'rb') as f:
        for b in iter(lambda: f.read(1 << 20), b''):
            h.update(b)
    return h.hexdigest()

# --------------------------------------------------------------------------
# generated module summary
# --------------------------------------------------------------------------
def _summarise_chunk(args):
    text, first_line, helper_src = args
    tree = ast.parse(text)
    if first_line > 1:
        ast.increment_lineno(tree, first_line - 1)
    return _summarise_body(tree.body, _parse_helpers(helper_src))

def _parse_helpers(helper_src):
    """hand-written helper functions of the generated module (anything that is not decode_pgn_* / encode_pgn_* / is_fast_pgn_*):
    walked in place where a generated function calls them"""
    out = {}
    for src, line in helper_src or ():
        try:
            t = ast.parse(src)
        except SyntaxError:
            continue
        ast.increment_lineno(t, line - 1)
        for n in t.body:
            if isinstance(n, ast.FunctionDef):
                out[n.name] = n
            elif isinstance(n, (ast.Assign, ast.AnnAssign)) and getattr(n, 'value', None) is not None:
                # a small literal table written by hand into the generated module: known to the walker as a constant
                tg = n.targets[0] if isinstance(n, ast.Assign) and len(n.targets) == 1 else (n.target if isinstance(n, ast.AnnAssign) else None)
                if isinstance(tg, ast.Name):
                    try:
                        ast.literal_eval(n.value)
                    except Exception:
                        continue
                    out.setdefault('__consts__', {})[tg.id] = sym.SymExec(ast.parse('def _f(): pass').body[0]).expr(n.value)
    return out

_GEN_PREFIXES = ('decode_pgn_', 'encode_pgn_', 'is_fast_pgn_', 'lookup_')

def _literal(node):
    try:
        return ast.literal_eval(node)
    except Exception:
        return None

def _dict_literal_with_dups(node):
    """{k: v} literal -> list of (key, value, line) keeping duplicates (a dict
    display silently lets the last duplicate win; the database comparison
    wants to see them)."""
    out = []
    for k, v in zip(node.keys, node.values):
        if k is None:
            return None
        kk = _literal(k)
        if isinstance(v, ast.Dict):
            vv = _dict_literal_with_dups(v)
        else:
            vv = _literal(v)
            if vv is None and not (isinstance(v, ast.Constant) and v.value is None):
                return None
        if vv is None and isinstance(v, ast.Dict):
            return None
        out.append((kk, vv, k.lineno))
    return out

def _effects(fn):
    """names assigned / globals declared / mutating calls on non-local names"""
    assigned = set(); globs = set(); muts = []
    params = {a.arg for a in fn.args.args + fn.args.posonlyargs + fn.args.kwonlyargs}
    for n in ast.walk(fn):
        if isinstance(n, ast.Global):
            globs.update(n.names)
        elif isinstance(n, ast.Name) and isinstance(n.ctx, (ast.Store, ast.Del)):
            assigned.add(n.id)
    MUT = {'append', 'extend', 'remove', 'clear', 'pop', 'update', 'add', 'discard', 'insert', 'sort', 'reverse', 'setdefault', 'popitem', '__setitem__', '__delitem__'}
    for n in ast.walk(fn):
        root = None; how = None
        if isinstance(n, ast.Call) and isinstance(n.func, ast.Attribute) and n.func.attr in MUT:
            root = n.func.value; how = n.func.attr
        elif isinstance(n, (ast.Subscript, ast.Attribute)) and isinstance(n.ctx, (ast.Store, ast.Del)):
            root = n.value; how = 'store'
        if root is None:
            continue
        while isinstance(root, (ast.Attribute, ast.Subscript)):
            root = root.value
        if isinstance(root, ast.Call):
            continue
        if isinstance(root, ast.Name):
            if root.id in globs or (root.id not in assigned and root.id not in params):
                muts.append((root.id, how, n.lineno))
    return {'assigned': sorted(assigned), 'globals': sorted(globs), 'global_mutations': muts}

def _summarise_body(body, helpers=None):
    out = []
    for node in body:
        if isinstance(node, (ast.FunctionDef, ast.AsyncFunctionDef)):
            s = {'kind': 'def', 'name': node.name, 'line': node.lineno, 'end': node.end_lineno,
                 'async': isinstance(node, ast.AsyncFunctionDef), 'decorators': len(node.decorator_list)}
            if helpers and not node.name.startswith(_GEN_PREFIXES) and node.name != '__consts__':
                s['helper'] = True
            hconsts = (helpers or {}).get('__consts__')
            ex = sym.SymExec(node, inline={k: v for k, v in (helpers or {}).items() if k != node.name and k != '__consts__'}, consts=hconsts)
            try:
                ex.run()
                s['events'] = ex.events
                s['params'] = ex.params
                s['fallthrough'] = not ex.state.dead
            except sym.Unsupported as u:
                # not walkable as written: the function alone is canonicalised (normalize.py: nested helper definitions inlined, match -> if,
                # walrus, callable tables ...) and walked again; what is still not walkable is reported as such
                ok2 = False
                if os.environ.get('N2K_NO_NORMALIZE') != '1':
                    try:
                        import copy as _copy
                        from . import normalize
                        t2, _rep = normalize.normalize_module('pgns', ast.Module(body=[_copy.deepcopy(node)], type_ignores=[]), {})
                        n2 = [x for x in t2.body if isinstance(x, (ast.FunctionDef, ast.AsyncFunctionDef)) and x.name == node.name]
                        if n2:
                            ex2 = sym.SymExec(n2[0], inline={k: v for k, v in (helpers or {}).items() if k != node.name and k != '__consts__'}, consts=hconsts)
                            ex2.run()
                            s['events'] = ex2.events
                            s['params'] = ex2.params
                            s['fallthrough'] = not ex2.state.dead
                            s['canonicalised'] = True
                            ok2 = True
                    except (sym.Unsupported, RecursionError):
                        ok2 = False
                if not ok2:
                    s['unsupported'] = str(u)
                    s['events'] = ex.events
                    s['params'] = ex.params
            s['effects'] = _effects(node)
            s['nstmts'] = sum(1 for _ in ast.walk(node) if isinstance(_, ast.stmt))
            out.append(s)
        elif isinstance(node, ast.Assign) and len(node.targets) == 1 and isinstance(node.targets[0], ast.Name):
            name = node.targets[0].id
            s = {'kind': 'assign', 'name': name, 'line': node.lineno, 'end': node.end_lineno}
            if isinstance(node.value, ast.Dict):
                s['dict'] = _dict_literal_with_dups(node.value)
                if s['dict'] is None:
                    s['nonliteral'] = True
                    s['nkeys'] = len(node.value.keys)
            else:
                s['term'] = sym.SymExec(ast.parse('def _f(): pass').body[0]).expr(node.value)
            out.append(s)
        elif isinstance(node, (ast.Import, ast.ImportFrom)):
            names = [(a.name, a.asname) for a in node.names]
            out.append({'kind': 'import', 'module': getattr(node, 'module', None), 'level': getattr(node, 'level', 0),
                        'names': names, 'line': node.lineno})
        elif isinstance(node, ast.Expr) and isinstance(node.value, ast.Constant):
            continue
        else:
            out.append({'kind': 'other', 'type': type(node).__name__, 'line': node.lineno,
                        'src': ast.unparse(node)[:200]})
    return out

_COL0 = re.compile(r'^[^\s#\)\]\}]')

def summarise_generated(path, jobs=None, extra_helpers=()):
    text = open(path, encoding='utf-8').read()
    lines = text.split('\n')
    # candidate split points: column-0 lines that start a statement
    starts = [i for i, l in enumerate(lines) if _COL0.match(l)]
    jobs = jobs or min(16, os.cpu_count() or 4)
    summaries = None
    # helper functions written by hand into the generated module
    helper_src = []
    for k, i in enumerate(starts):
        m = re.match(r'def (\w+)\(', lines[i])
        if m and not m.group(1).startswith(_GEN_PREFIXES):
            j = starts[k + 1] if k + 1 < len(starts) else len(lines)
            # a decorator line directly above belongs to it; decorated helpers are not inlined
            if i > 0 and lines[i - 1].startswith('@'):
                continue
            helper_src.append(('\n'.join(lines[i:j]) + '\n', i + 1))
    # small literal tables at module level (names the generator does not produce: it emits master_dict / lookup tables only)
    for k, i in enumerate(starts):
        m = re.match(r'([A-Za-z_][A-Za-z0-9_]*)\s*(:[^=]+)?=[^=]', lines[i])
        if m and m.group(1) not in ('master_dict',) and not m.group(1).startswith(('lookup_dict', 'LOOKUP_', 'master_')):
            j = starts[k + 1] if k + 1 < len(starts) else len(lines)
            src = '\n'.join(lines[i:j]) + '\n'
            if len(src) <= 6000:
                helper_src.append((src, i + 1))
    # helpers of utils.py that are not among the functions the rules are anchored in (wrappers a refactoring added): walked in place as well
    helper_src = tuple(helper_src) + tuple(extra_helpers)
    if len(starts) > 64 and jobs > 1:
        per = max(1, len(starts) // (jobs * 4))
        cuts = starts[::per]
        if cuts[0] != 0:
            cuts = [0] + cuts
        chunks = []
        for a, b in zip(cuts, cuts[1:] + [len(lines)]):
            chunks.append(('\n'.join(lines[a:b]) + '\n', a + 1, helper_src))
        try:
            with ProcessPoolExecutor(max_workers=jobs) as ex:
                parts = list(ex.map(_summarise_chunk, chunks))
            summaries = [s for p in parts for s in p]
        except SyntaxError:
            summaries = None
    if summaries is None:
        tree = ast.parse(text)
        summaries = _summarise_body(tree.body, _parse_helpers(helper_src))
    return summaries, len(lines)

# --------------------------------------------------------------------------
class Module:
    def __init__(self, name, path):
        self.name = name
        self.path = path
        self.src = open(path, encoding='utf-8').read()
        self.raw_tree = ast.parse(self.src)
        self.tree = self.raw_tree
        self.lines = self.src.split('\n')
        self.normalisation = None
        self.finish(None)

    def finish(self, sibling_consts, sibling_funcs=None):
        """(re)build the tree the rules see: the source tree canonicalised by normalize.py (see there), then indexed"""
        if sibling_consts is not None and os.environ.get('N2K_NO_NORMALIZE') != '1':
            from . import normalize
            self.tree, self.normalisation = normalize.normalize_module(self.name, ast.parse(self.src), sibling_consts, sibling_funcs)
        for parent in ast.walk(self.tree):
            for ch in ast.iter_child_nodes(parent):
                ch._parent = parent
        self.defs = {}      # qualname -> node (last def wins, as in Python)
        self.classes = {}
        self._index(self.tree.body, '')

    def _index(self, body, prefix):
        for n in body:
            if isinstance(n, (ast.FunctionDef, ast.AsyncFunctionDef)):
                self.defs[prefix + n.name] = n
                n._qualname = prefix + n.name
            elif isinstance(n, ast.ClassDef):
                self.classes[prefix + n.name] = n
                n._qualname = prefix + n.name
                self._index(n.body, prefix + n.name + '.')

    def rel(self):
        return f"{PKG}/{self.name}.py"

class Program:
    def __init__(self, repo='/repo', need_generated=True, jobs=None):
        self.repo = repo
        self.pkgdir = os.path.join(repo, PKG)
        self.digests = {}
        self.modules = {}
        t0 = time.time()
        if not os.path.isdir(self.pkgdir):
            raise AnalysisError(f"package directory {self.pkgdir} missing")
        for m in HAND_MODULES:
            p = os.path.join(self.pkgdir, m + '.py')
            if not os.path.exists(p):
                if m in ('cli', '__init__'):
                    continue
                raise AnalysisError(f"anchor module {PKG}/{m}.py vanished")
            try:
                self.modules[m] = Module(m, p)
            except SyntaxError as e:
                raise AnalysisError(f"{PKG}/{m}.py does not parse: {e}")
            self.digests[f"{PKG}/{m}.py"] = sha256_file(p)
        # any further module in the package that is not the generated one
        for fn in sorted(os.listdir(self.pkgdir)):
            if fn.endswith('.py') and fn[:-3] not in HAND_MODULES and fn != 'pgns.py':
                p = os.path.join(self.pkgdir, fn)
                try:
                    self.modules[fn[:-3]] = Module(fn[:-3], p)
                except SyntaxError as e:
                    raise AnalysisError(f"{PKG}/{fn} does not parse: {e}")
                self.digests[f"{PKG}/{fn}"] = sha256_file(p)
        from . import normalize
        exported = {}
        for nm, m in self.modules.items():
            try:
                exported[nm] = normalize.exported_constants(m.raw_tree)
            except Exception as e:      # the canonicaliser must never be the reason a check dies
                exported[nm] = {}
        for nm, m in self.modules.items():
            try:
                m.finish(exported)
            except RecursionError as e:
                raise AnalysisError(f"{PKG}/{nm}.py: canonicalisation failed: {e}")
        # closed helper functions a sibling module imports are inlined there as well (second pass for the importing modules only)
        if os.environ.get('N2K_NO_NORMALIZE') != '1':
            funcs = {}
            for nm, m in self.modules.items():
                try:
                    funcs[nm] = normalize.exported_functions(nm, m.tree)
                except Exception:
                    funcs[nm] = {}
            for nm, m in self.modules.items():
                uses = any(isinstance(st, ast.ImportFrom) and st.level == 1 and st.module in funcs and st.module != nm and any(al.name in funcs[st.module] for al in st.names)
                           for st in m.raw_tree.body)
                if uses:
                    try:
                        m.finish(exported, funcs)
                    except RecursionError as e:
                        raise AnalysisError(f"{PKG}/{nm}.py: canonicalisation failed: {e}")
        # the abstract interpreter follows `from .sibling import name` through this registry
        from . import absint as _A
        def _resolver(name, mods=self.modules):
            return mods[name].tree if name in mods else None
        for nm, m in self.modules.items():
            _A.TREE_OWNER[id(m.tree)] = (_resolver, nm)
        self.t_hand = time.time() - t0
        self._gen = None
        self._db = None
        self.jobs = jobs

    # ---- generated
    @property
    def gen(self):
        if self._gen is None:
            from .gen import Generated
            p = os.path.join(self.pkgdir, 'pgns.py')
            if not os.path.exists(p):
                raise AnalysisError("anchor module nmea2000/pgns.py vanished")
            t0 = time.time()
            try:
                extra = []
                try:
                    from . import normalize
                    um = self.modules.get('utils')
                    if um is not None:
                        for st in um.tree.body:
                            if isinstance(st, ast.FunctionDef) and not normalize.is_anchor('utils', st.name) and not st.decorator_list:
                                extra.append((ast.unparse(st) + '\n', 1))
                except Exception:
                    extra = []
                summ, nlines = summarise_generated(p, self.jobs, tuple(extra))
            except SyntaxError as e:
                raise AnalysisError(f"nmea2000/pgns.py does not parse: {e}")
            self.digests['nmea2000/pgns.py'] = sha256_file(p)
            self._gen = Generated(summ, nlines, self)
            self.t_gen = time.time() - t0
        return self._gen

    @property
    def db(self):
        if self._db is None:
            from .dbspec import Database
            p = os.path.join(self.repo, 'canboat.json')
            if not os.path.exists(p):
                raise AnalysisError("canboat.json vanished")
            self.digests['canboat.json'] = sha256_file(p)
            self._db = Database(json.load(open(p, encoding='utf-8')))
        return self._db

    # ---- lookups
    def mod(self, name):
        if name not in self.modules:
            raise AnalysisError(f"anchor module {PKG}/{name}.py vanished")
        return self.modules[name]

    def fn(self, module, qualname):
        m = self.mod(module)
        if qualname not in m.defs:
            raise AnalysisError(f"anchor {module}.{qualname} vanished")
        return m.defs[qualname]

    def cls(self, module, name):
        m = self.mod(module)
        if name not in m.classes:
            raise AnalysisError(f"anchor class {module}.{name} vanished")
        return m.classes[name]

    def loc(self, module, node):
        return f"{PKG}/{module}.py:{getattr(node, 'lineno', 0)}"

    # class hierarchy inside one module (ioclient): bases by simple name
    def mro(self, module, cname):
        m = self.mod(module)
        out = []
        seen = set()
        def rec(c):
            if c in seen or c not in m.classes:
                return
            seen.add(c)
            out.append(c)
            for b in m.classes[c].bases:
                if isinstance(b, ast.Name):
                    rec(b.id)
        rec(cname)
        return out

    def resolve_method(self, module, cname, meth):
        for c in self.mro(module, cname):
            q = f"{c}.{meth}"
            if q in self.mod(module).defs:
                return q
        return None

    def module_consts(self, module, _depth=0):
        """module-level NAME = <literal> bindings of a hand-written module, plus such names imported from sibling modules -> {name: ('const', v)}"""
        m = self.mod(module)
        out = {}
        for st in m.tree.body:
            if isinstance(st, ast.Assign) and len(st.targets) == 1 and isinstance(st.targets[0], ast.Name):
                try:
                    v = ast.literal_eval(st.value)
                except Exception:
                    continue
                if isinstance(v, (int, float, str, bytes, bool)) or v is None:
                    out[st.targets[0].id] = ('const', v)
            if isinstance(st, ast.ImportFrom) and st.level == 1 and st.module in self.modules and _depth < 2:
                other = self.module_consts(st.module, _depth + 1)
                for a in st.names:
                    if a.name in other:
                        out[a.asname or a.name] = other[a.name]
        return out

    def subclasses(self, module, base):
        m = self.mod(module)
        return [c for c in m.classes if base in self.mro(module, c)]
