"""witness.py -- thorough tier: the checker tested both ways on variants of the *current* tree.

Every entry of witness_corpus.CORPUS is one edit (exact text replaced once in one file).  `violate` entries are
realistic breaking edits that still compile; the property's rules must report a *new* violation of one of the
expected rules (an ANALYSIS-ERROR is counted separately as `refused`: fail-closed, acceptable, but not a
detection).  `benign` entries are behaviour-preserving rewrites; the rules must stay silent and must not give up.
A variant is a throw-away directory of symlinks to /repo's files plus the one rewritten file (created under the
system temp dir, removed at once); nothing of the repository is executed, the same static rules are run on it.
A missed violation or an alarm on a benign twin makes the run an ANALYSIS-ERROR (the checker is broken), never
a VIOLATION of the property.  An entry whose anchor text is not in the current tree is skipped and counted.
"""
from __future__ import annotations

import importlib
import os
import shutil
import tempfile
from concurrent.futures import ProcessPoolExecutor

from .model import Program, AnalysisError
from .runner import Check

def _variant_dir(repo, relfile, new_text):
    d = tempfile.mkdtemp(prefix='n2kwit-')
    os.makedirs(os.path.join(d, 'nmea2000'))
    for fn in os.listdir(os.path.join(repo, 'nmea2000')):
        if fn.endswith('.py'):
            src = os.path.join(repo, 'nmea2000', fn)
            dst = os.path.join(d, 'nmea2000', fn)
            if os.path.join('nmea2000', fn) == relfile:
                with open(dst, 'w', encoding='utf-8') as f:
                    f.write(new_text)
            else:
                os.symlink(src, dst)
    for fn in ('canboat.json',):
        if fn == relfile:
            with open(os.path.join(d, fn), 'w', encoding='utf-8') as f:
                f.write(new_text)
        else:
            os.symlink(os.path.join(repo, fn), os.path.join(d, fn))
    return d

def _apply(text, edits):
    """edits: list of (old, new); each old must occur exactly once"""
    for old, new in edits:
        if text.count(old) != 1:
            return None
        text = text.replace(old, new)
    return text

def _run_variant(args):
    pid, idx, entry, repo, baseline = args
    relfile = entry['file']
    path = os.path.join(repo, relfile)
    try:
        text = open(path, encoding='utf-8').read()
    except OSError:
        return idx, 'skipped', 'file missing'
    new = _apply(text, entry['edits'])
    if new is None:
        return idx, 'skipped', 'anchor text not found exactly once'
    try:
        compile(new, relfile, 'exec') if relfile.endswith('.py') else None
    except SyntaxError as e:
        return idx, 'skipped', f"variant does not compile: {e}"
    d = _variant_dir(repo, relfile, new)
    try:
        mod = importlib.import_module(f"n2kstatic.props.{pid.lower()}")
        chk = None
        try:
            prog = Program(d, jobs=1)
            chk = Check(pid, 'quick', 0, mod.LEVEL, prog)
            mod.run(chk, prog, 'quick')
        except AnalysisError as e:
            if chk is None or not [o for o in chk.obs if o.status == 'violation' and o.key() not in baseline]:
                return idx, 'refused', str(e)[:200]
        except Exception as e:
            return idx, 'refused', f"{type(e).__name__}: {e}"[:200]
        newv = [(o.rule, o.instance) for o in chk.obs if o.status == 'violation' and o.key() not in baseline]
        if chk.errors and not newv:
            return idx, 'refused', chk.errors[0][:200]
        # one representative instance per rule (a table rule may report dozens)
        per_rule = {}
        for r, i in newv:
            per_rule.setdefault(r, i)
        return idx, 'violations', sorted(per_rule.items())
    finally:
        shutil.rmtree(d, ignore_errors=True)

def run(chk, mod, program, pid, seed):
    from .witness_corpus import CORPUS
    entries = [e for e in CORPUS if pid in e['props']]
    baseline = {o.key() for o in chk.obs if o.status == 'violation'}
    jobs = min(16, os.cpu_count() or 4)
    tasks = [(pid, i, e, program.repo, baseline) for i, e in enumerate(entries)]
    results = []
    if tasks:
        with ProcessPoolExecutor(max_workers=jobs) as ex:
            results = list(ex.map(_run_variant, tasks))
    summary = {'entries': len(entries), 'violate_applicable': 0, 'detected': 0, 'refused': 0, 'missed': [], 'benign_applicable': 0, 'benign_silent': 0, 'benign_alarmed': [],
               'skipped': [], 'details': []}
    for idx, status, info in results:
        e = entries[idx]
        name = e['name']
        if status == 'skipped':
            summary['skipped'].append(f"{name}: {info}")
            continue
        if e['kind'] == 'violate':
            summary['violate_applicable'] += 1
            if status == 'refused':
                summary['refused'] += 1
                summary['details'].append({'name': name, 'outcome': 'refused', 'info': info})
            else:
                hit = [v for v in info if v[0] in e['expect']]
                if hit:
                    summary['detected'] += 1
                    summary['details'].append({'name': name, 'outcome': 'detected', 'by': [f"{r}::{i}" for r, i in hit[:2]]})
                else:
                    summary['missed'].append(name)
                    summary['details'].append({'name': name, 'outcome': 'MISSED', 'other_violations': [f"{r}::{i}" for r, i in info[:3]]})
        else:
            summary['benign_applicable'] += 1
            if status == 'violations' and not info:
                summary['benign_silent'] += 1
            else:
                summary['benign_alarmed'].append(name)
                summary['details'].append({'name': name, 'outcome': 'ALARM-ON-BENIGN' if status == 'violations' else 'REFUSED-BENIGN', 'info': info if status != 'violations' else [f"{r}::{i}" for r, i in info[:3]]})
    chk.witness = summary
    for m in summary['missed']:
        chk.errors.append(f"witness: seeded violation `{m}` was not reported by any of its expected rules (the checker is broken, not the repository)")
    for m in summary['benign_alarmed']:
        chk.errors.append(f"witness: behaviour-preserving twin `{m}` raised an alarm or was refused (the checker is broken, not the repository)")
    return summary
