"""dbspec.py -- canboat.json turned into the *expected* tables.

The database is the oracle for everything generated.  This module never looks
at nmea2000/pgns.py or the Jinja template; it states, per field type, which
helper call with which constants a correct decoder / encoder must contain
(DESIGN.md section 3.1 / 3.2), as terms of the same IR sym.py produces.
"""
from __future__ import annotations

import re
from collections import OrderedDict

from .sym import C, NONE

NUMBER_LIKE = ('NUMBER', 'MMSI', 'PGN', 'DURATION')
DEC_SUPPORTED = set(NUMBER_LIKE) | {'LOOKUP', 'BITLOOKUP', 'STRING_FIX', 'STRING_LZ', 'STRING_LAU', 'FLOAT', 'TIME', 'DATE',
                                    'RESERVED', 'SPARE', 'INDIRECT_LOOKUP', 'BINARY'}
ENC_SUPPORTED = {'NUMBER', 'PGN', 'RESERVED', 'FLOAT', 'LOOKUP', 'DATE', 'TIME', 'DURATION'}
MISSING = ('missing',)

def name(n):
    return ('name', n)

def call(f, *args, **kw):
    if isinstance(f, str):
        f = name(f)
    return ('call', f, tuple(args), tuple(kw.items()))

def attr(b, a):
    return ('attr', b, a)

def num(v):
    return C(v) if v is not None else MISSING

_pat = re.compile(r'[^a-zA-Z0-9]')

class Field:
    def __init__(self, d, index):
        self.d = d
        self.index = index           # 0-based position in the definition
        self.order = d.get('Order')
        self.dbid = d['Id']
        self.name = d['Name']
        self.type = d['FieldType']
        self.bit_offset = d.get('BitOffset')
        self.bit_length = d.get('BitLength')
        self.signed = bool(d.get('Signed', False))
        self.resolution = d.get('Resolution')
        self.range_min = d.get('RangeMin')
        self.range_max = d.get('RangeMax')
        self.offset = d.get('Offset')
        self.match = d.get('Match')
        self.pk = bool(d.get('PartOfPrimaryKey', False))
        self.unit = d.get('Unit')
        self.description = d.get('Description')
        self.quantity = d.get('PhysicalQuantity')
        self.lookup = d.get('LookupEnumeration')
        self.bitlookup = d.get('LookupBitEnumeration')
        self.indirect = d.get('LookupIndirectEnumeration')
        self.indirect_order = d.get('LookupIndirectEnumerationFieldOrder')
        self.bit_length_field = d.get('BitLengthField')

    @property
    def id(self):
        """the id the library reports: database Id, except RESERVED fields,
        which the library names reserved_<BitOffset> to keep ids unique"""
        if self.type == 'RESERVED':
            return 'reserved_' + ('' if self.bit_offset is None else str(self.bit_offset))
        return self.dbid

class Definition:
    def __init__(self, d, index):
        self.d = d
        self.index = index
        self.pgn = d['PGN']
        self.id = d['Id']
        self.description = d['Description']
        self.type = d['Type']
        self.length = d.get('Length')
        self.interval = d.get('TransmissionInterval')
        self.fallback = d.get('Fallback') is True
        self.fields = [Field(f, i) for i, f in enumerate(d.get('Fields', []))]
        self.match_fields = [f for f in self.fields if f.match is not None]
        self.group = None
        self.suffix = None

    @property
    def key(self):
        return f"{self.pgn}:{self.id}"

    def supported_prefix(self):
        """fields up to (excluding) the first one of a type the decoder does not
        support; second value says whether the whole definition is supported"""
        out = []
        for f in self.fields:
            if f.type not in DEC_SUPPORTED:
                return out, False
            out.append(f)
        return out, True

    def encodable(self):
        return all(f.type in ENC_SUPPORTED and f.bit_length is not None and f.bit_offset is not None for f in self.fields)

class Group:
    def __init__(self, pgn):
        self.pgn = pgn
        self.defs = []

    @property
    def has_match(self):
        return any(d.match_fields for d in self.defs)

    @property
    def complex(self):
        return len(self.defs) > 1 and self.has_match

    @property
    def fallback(self):
        fb = [d for d in self.defs if d.fallback]
        return fb[-1] if fb else None

    @property
    def is_fast(self):
        t = self.defs[0].type
        return {'Fast': True, 'Single': False}.get(t)

class Database:
    def __init__(self, data):
        self.data = data
        for k in ('PGNs', 'LookupEnumerations', 'LookupBitEnumerations', 'LookupIndirectEnumerations'):
            if k not in data:
                from .model import AnalysisError
                raise AnalysisError(f"canboat.json key {k} vanished")
        self.defs = [Definition(d, i) for i, d in enumerate(data['PGNs'])]
        self.groups = OrderedDict()
        for d in self.defs:
            self.groups.setdefault(d.pgn, Group(d.pgn)).defs.append(d)
        for g in self.groups.values():
            for d in g.defs:
                d.group = g
                d.suffix = f"{d.pgn}_{d.id}" if g.complex else f"{d.pgn}"
        self.lookups = OrderedDict((l['Name'], [(e['Value'], e['Name']) for e in l['EnumValues']]) for l in data['LookupEnumerations'])
        self.bitlookups = OrderedDict((l['Name'], [(e['Bit'], e['Name']) for e in l['EnumBitValues']]) for l in data['LookupBitEnumerations'])
        self.indirect = OrderedDict((l['Name'], [(f"{e['Value1']}_{e['Value2']}", e['Name']) for e in l['EnumValues']]) for l in data['LookupIndirectEnumerations'])
        self.field_types = [f['Name'] for f in data.get('FieldTypes', [])]
        self.quantities = [q['Name'] for q in data.get('PhysicalQuantities', [])]

    # ------------------------------------------------------------------
    # expected decoder
    # ------------------------------------------------------------------
    def expected_decoder(self, d, P, msgterm):
        """list of expected field rows for definition d.
        P = term of the payload parameter; msgterm = term of the message object.
        Each row: dict(field, off, raw, value, ctor{slot:term}, post (store or None))"""
        rows = []
        fields, complete = d.supported_prefix()
        run_const = 0            # running offset: constant part
        run_sym = []             # symbolic parts
        rawterms = {}
        valterms = {}
        pending_indirect = None
        for f in fields:
            if f.bit_offset is not None:
                run_const, run_sym = f.bit_offset, []
            off = (run_const, tuple(sorted(run_sym, key=repr)))
            offt = C(run_const) if not run_sym else ('off',) + off   # canonical sum, see gen.canon
            L = num(f.bit_length)
            post = None
            skip = None
            t = f.type
            if t in NUMBER_LIKE:
                raw = call('decode_number', P, offt, L, C(f.signed), num(f.resolution), num(f.range_min), num(f.range_max))
                val = raw
            elif t == 'LOOKUP':
                raw = call('decode_int', P, offt, L)
                val = call(attr(('sub', name('master_dict'), C(f.lookup)), 'get'), raw)
            elif t == 'BITLOOKUP':
                raw = call('decode_int', P, offt, L)
                val = call('decode_bit_lookup', raw, ('sub', name('master_flags_dict'), C(f.bitlookup)))
            elif t == 'INDIRECT_LOOKUP':
                raw = call('decode_int', P, offt, L)
                val = ('placeholder',)
                pending_indirect = f
            elif t == 'TIME':
                raw = call('decode_number', P, offt, L, C(f.signed), num(f.resolution), num(f.range_min), num(f.range_max))
                val = call('decode_time', raw)
            elif t == 'DATE':
                raw = call('decode_number', P, offt, L, C(f.signed), num(f.resolution), num(f.range_min), num(f.range_max))
                val = call('decode_date', raw)
            elif t == 'FLOAT':
                raw = call('decode_float', P, offt, L, num(f.range_min), num(f.range_max))
                val = raw
            elif t == 'STRING_FIX':
                raw = call('decode_string_fix', P, offt, L)
                val = raw
            elif t == 'STRING_LZ':
                raw = call('decode_string_lz', P, offt)
                val = raw
            elif t == 'STRING_LAU':
                c = call('decode_string_lau', P, offt)
                raw = ('tupidx', c, 0)
                val = raw
                skip = ('tupidx', c, 1)
            elif t in ('RESERVED', 'SPARE'):
                raw = call('decode_int', P, offt, L)
                val = raw
            elif t == 'BINARY':
                if f.bit_length is not None:
                    raw = call('int_to_bytes', call('decode_int', P, offt, L))
                else:
                    lf = d.fields[f.bit_length_field - 1] if f.bit_length_field else None
                    lt = valterms.get(lf.index) if lf is not None else MISSING
                    raw = call('int_to_bytes', call('decode_int', P, offt, lt if lt is not None else MISSING))
                val = raw
            else:
                raise AssertionError(t)
            rawterms[f.index] = raw
            valterms[f.index] = val
            ctor = {
                'id': C(f.id), 'name': C(f.name),
                'description': C(f.description) if f.description is not None else NONE,
                'unit_of_measurement': C(f.unit) if f.unit is not None else NONE,
                'value': val, 'raw_value': raw,
                'physical_quantities': attr(name('PhysicalQuantities'), f.quantity) if f.quantity else NONE,
                'type': attr(name('FieldTypes'), f.type),
                'part_of_primary_key': C(f.pk),
            }
            if pending_indirect is not None and pending_indirect.indirect_order == f.order:
                pf = pending_indirect
                key = ('binop', '+', ('binop', '+', call('str', raw), C('_')), call('str', rawterms[pf.index]))
                post = (attr(('sub', attr(msgterm, 'fields'), C(pf.order - 1)), 'value'),
                        call(attr(('sub', name('master_indirect_lookup_dict'), C(pf.indirect)), 'get'), key))
                pending_indirect = None
            rows.append({'field': f, 'off': off, 'raw': raw, 'value': val, 'ctor': ctor, 'post': post})
            # advance
            if f.bit_length is not None:
                run_const += f.bit_length
            if skip is not None:
                run_sym = run_sym + [skip]
        return rows, complete

    # ------------------------------------------------------------------
    # expected encoder rows
    # ------------------------------------------------------------------
    def expected_encoder(self, d):
        rows = []
        for f in d.fields:
            rows.append({'field': f, 'id': f.id, 'mask': (1 << f.bit_length) - 1, 'shift': f.bit_offset, 'kind': f.type})
        return rows
