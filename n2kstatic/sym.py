"""sym.py -- AST -> term IR by def-use substitution and constant folding.

This is *not* execution and not solver-backed symbolic execution: it is the
classic "value numbering by substitution" of a compiler front end.  A function
body made of Assign / AugAssign / AnnAssign / Expr / If / Return / Raise /
Assert / Pass is walked once, top to bottom.  Every local name is mapped to
the *term* (a nested tuple) that defines it, so that at each interesting
point (a call, a return, a store) the operands are expressed over the
function's parameters, module-level names and literals only.  Two-armed `if`s
are joined with an `ite` term (gated SSA); arms that end in return/raise add
their guard to the path condition of what follows.  Loops, `try`, `with` are
outside the idiom set: the walker raises Unsupported and the caller decides
whether that is an analysis error (anchored site) or simply "opaque".

Transfer functions (the trusted base of every rule built on terms):
  * literal            -> ('const', v)
  * parameter          -> ('param', name)  (or the bound term when specialising)
  * unbound name       -> ('name', id)
  * a.b                -> ('attr', A, 'b')
  * f(x, k=y)          -> ('call', F, (X,), (('k', Y),))
  * x op y             -> ('binop', op, X, Y), folded when both are int/float/bool
                          constants (Python semantics of + - * / // % ** << >> & | ^)
  * -x ~x not x        -> ('unop', op, X) folded on constants
  * a < b (single)     -> ('cmp', op, A, B) folded on constants; chains become 'and'
  * a and b / a or b   -> ('bool', op, (A, B)) with constant short-circuit folding
  * x if c else y      -> ('ite', C, X, Y) folded on a constant C
  * x[i], x[a:b:c]     -> ('sub', X, I) / ('slice', A, B, C)
  * (a, b) [a, b]      -> ('tuple', ..) / ('list', ..)
  * f"..{x}.."         -> ('fstr', (parts..))
  * a, b = f()         -> a = ('tupidx', F(), 0) ...
Events (in program order, each with the guard = tuple of terms that must hold):
  ('expr', term) ('store', target_term, value_term) ('assert', term)
  ('raise', term) ('return', term) ('global', names) ('del', term)
"""
from __future__ import annotations

import ast
import operator

def _walk_own_stmts(node):
    """ast.walk that does not enter nested function / class bodies"""
    stack = [node]
    while stack:
        n = stack.pop()
        yield n
        for ch in ast.iter_child_nodes(n):
            if not isinstance(ch, (ast.FunctionDef, ast.AsyncFunctionDef, ast.Lambda, ast.ClassDef)):
                stack.append(ch)

class Unsupported(Exception):
    def __init__(self, node, why=""):
        self.node = node
        self.why = why
        super().__init__(f"unsupported construct {type(node).__name__} at line {getattr(node, 'lineno', '?')} {why}")

C = lambda v: ('const', v)
NONE = C(None)
TRUE = C(True)
FALSE = C(False)

_BIN = {
    ast.Add: ('+', operator.add), ast.Sub: ('-', operator.sub), ast.Mult: ('*', operator.mul),
    ast.Div: ('/', operator.truediv), ast.FloorDiv: ('//', operator.floordiv), ast.Mod: ('%', operator.mod),
    ast.Pow: ('**', operator.pow), ast.LShift: ('<<', operator.lshift), ast.RShift: ('>>', operator.rshift),
    ast.BitAnd: ('&', operator.and_), ast.BitOr: ('|', operator.or_), ast.BitXor: ('^', operator.xor),
    ast.MatMult: ('@', None),
}
BINFN = {s: f for (s, f) in _BIN.values()}
_CMP = {
    ast.Eq: ('==', operator.eq), ast.NotEq: ('!=', operator.ne), ast.Lt: ('<', operator.lt), ast.LtE: ('<=', operator.le),
    ast.Gt: ('>', operator.gt), ast.GtE: ('>=', operator.ge), ast.Is: ('is', None), ast.IsNot: ('is not', None),
    ast.In: ('in', None), ast.NotIn: ('not in', None),
}
CMPFN = {s: f for (s, f) in _CMP.values()}
_UN = {ast.USub: '-', ast.UAdd: '+', ast.Invert: '~', ast.Not: 'not'}

def is_const(t):
    return isinstance(t, tuple) and len(t) == 2 and t[0] == 'const'

def is_num(t):
    return is_const(t) and isinstance(t[1], (int, float)) and not isinstance(t[1], bool) or (is_const(t) and isinstance(t[1], bool))

def fold_bin(op, a, b):
    if is_const(a) and is_const(b):
        x, y = a[1], b[1]
        numeric = isinstance(x, (int, float)) and isinstance(y, (int, float))
        if numeric:
            try:
                if op in ('<<', '>>', '&', '|', '^') and not (isinstance(x, int) and isinstance(y, int)):
                    return ('binop', op, a, b)
                if op in ('<<',) and y > 4096:
                    return ('binop', op, a, b)
                if op == '**' and (abs(y) > 4096):
                    return ('binop', op, a, b)
                return C(BINFN[op](x, y))
            except Exception:
                return ('binop', op, a, b)
        if op == '+' and isinstance(x, str) and isinstance(y, str):
            return C(x + y)
        if op == '+' and isinstance(x, bytes) and isinstance(y, bytes):
            return C(x + y)
    return ('binop', op, a, b)

def fold_cmp(op, a, b):
    if is_const(a) and is_const(b):
        x, y = a[1], b[1]
        try:
            if op in ('is', 'is not'):
                if x is None or y is None or isinstance(x, bool) or isinstance(y, bool):
                    r = (x is y) if (x is None or y is None) else (x == y and type(x) is type(y))
                    return C(r if op == 'is' else not r)
                return ('cmp', op, a, b)
            if op in ('in', 'not in'):
                return ('cmp', op, a, b)
            return C(bool(CMPFN[op](x, y)))
        except Exception:
            pass
    return ('cmp', op, a, b)

def mk_not(t):
    if is_const(t):
        return C(not t[1])
    if t[0] == 'unop' and t[1] == 'not':
        return t[2]
    return ('unop', 'not', t)

def mk_ite(c, a, b):
    if is_const(c):
        return a if c[1] else b
    if a == b:
        return a
    return ('ite', c, a, b)

def truth(t):
    """constant truthiness of a term, or None"""
    if is_const(t):
        return bool(t[1])
    return None

UNDEF = ('undef',)

class State:
    __slots__ = ('env', 'guard', 'dead')
    def __init__(self, env=None, guard=(), dead=False):
        self.env = env if env is not None else {}
        self.guard = guard
        self.dead = dead
    def copy(self):
        return State(dict(self.env), self.guard, self.dead)

class SymExec:
    """Walk one function body.  `bind` maps parameter names to terms (partial
    evaluation).  `inline` maps callee names to FunctionDef nodes whose bodies
    are walked in place (depth-limited), so that helper-of-helper calls
    (decode_number -> decode_int) disappear from the residual."""

    def __init__(self, fn, bind=None, inline=None, depth=0, consts=None, max_depth=4, inline_methods=None):
        self.fn = fn
        self.events = []
        self.inline = inline or {}
        self.inline_methods = inline_methods or {}     # method name -> FunctionDef: `self.m(args)` is walked in place
        self.depth = depth
        self.max_depth = max_depth
        self.consts = consts or {}
        self.params = []
        a = fn.args
        for p in list(a.posonlyargs) + list(a.args) + list(a.kwonlyargs):
            self.params.append(p.arg)
        if a.vararg:
            self.params.append(a.vararg.arg)
        if a.kwarg:
            self.params.append(a.kwarg.arg)
        env = {}
        for p in self.params:
            env[p] = (bind or {}).get(p, ('param', p))
        self.state = State(env)
        self.globals_declared = set()

    # ---------------------------------------------------------------- events
    def emit(self, kind, *payload, node=None):
        self.events.append((kind, self._guard_out(self.state.guard)) + tuple(payload) + (getattr(node, 'lineno', 0),))

    def _guard_out(self, guard):
        """conditions that come from `assert` statements are marked inside the walker; outside they appear as plain conjuncts (default) or are
        left out (drop_asserted: an assert states what its author takes to hold, it is not a branch of the decision)"""
        if not any(g[0] == 'assume' for g in guard):
            return guard
        if getattr(self, 'drop_asserted', False):
            return tuple(g for g in guard if g[0] != 'assume')
        return tuple(g[1] if g[0] == 'assume' else g for g in guard)

    # ---------------------------------------------------------------- run
    def run(self):
        self.block(self.fn.body)
        return self

    def block(self, stmts):
        for s in stmts:
            if self.state.dead:
                # code after return/raise on this path: not reachable, skipped
                return
            self.stmt(s)

    def stmt(self, s):
        st = self.state
        if isinstance(s, ast.Expr):
            if isinstance(s.value, ast.Constant):
                return  # docstring
            t = self.expr(s.value)
            self.emit('expr', t, node=s)
        elif isinstance(s, ast.Assign):
            v = self.expr(s.value)
            for tgt in s.targets:
                self.assign(tgt, v, s)
        elif isinstance(s, ast.AnnAssign):
            if s.value is not None:
                self.assign(s.target, self.expr(s.value), s)
        elif isinstance(s, ast.AugAssign):
            op = _BIN[type(s.op)][0]
            cur = self.expr(_load(s.target))
            v = fold_bin(op, cur, self.expr(s.value))
            self.assign(s.target, v, s, aug=op)
        elif isinstance(s, ast.Return):
            v = self.expr(s.value) if s.value is not None else NONE
            self.emit('return', v, node=s)
            st.dead = True
        elif isinstance(s, ast.Raise):
            v = self.expr(s.exc) if s.exc is not None else ('reraise',)
            self.emit('raise', v, node=s)
            st.dead = True
        elif isinstance(s, ast.Assert):
            t = self.expr(s.test)
            self.emit('assert', t, node=s)
            tv = truth(t)
            if tv is False:
                st.dead = True
            elif tv is None:
                st.guard = st.guard + (('assume', t),)
        elif isinstance(s, ast.Pass):
            return
        elif isinstance(s, ast.Global):
            self.globals_declared.update(s.names)
            self.emit('global', tuple(s.names), node=s)
        elif isinstance(s, ast.Delete):
            for t in s.targets:
                self.emit('del', self.expr(_load(t)), node=s)
        elif isinstance(s, ast.If):
            self.do_if(s)
        elif isinstance(s, ast.Try) and not any(isinstance(n, ast.Raise) for b in s.body for n in _walk_own_stmts(b)) \
                and all(h.type is None or (isinstance(h.type, ast.Name) and h.type.id in ('Exception', 'BaseException')) for h in s.handlers):
            # (only handlers that contain failures in general: `except KeyError` / `except StopIteration` around a look-up is ordinary control flow,
            # where "nothing raises" is not the run to describe -- such a try stays unsupported)
            # the guards extracted here describe the runs in which nothing called inside the try raises (the stand-ins of the decision tables do
            # not raise; what happens when a decoder raises is the subject of other rules): body, then else, then finally; the handlers are
            # recorded as one event so that a consumer can see that they exist
            self.emit('try', tuple(ast.unparse(h.type) if h.type is not None else '<bare>' for h in s.handlers), node=s)
            self.block(s.body)
            if not self.state.dead:
                self.block(s.orelse)
            if s.finalbody:
                dead = self.state.dead
                self.state.dead = False
                self.block(s.finalbody)
                self.state.dead = self.state.dead or dead
        elif isinstance(s, (ast.Import, ast.ImportFrom)):
            return
        elif isinstance(s, ast.For) and not s.orelse and isinstance(s.target, (ast.Name, ast.Tuple)) \
                and not any(isinstance(n, (ast.Break, ast.Continue)) for b in s.body for n in ast.walk(b)):
            # a loop over a literal tuple / list (e.g. a hoisted table of terminators): unrolled
            it = self.expr(s.iter)
            if it[0] in ('tuple', 'list') and len(it[1]) <= 64:
                for x in it[1]:
                    if self.state.dead:
                        break
                    self.assign(s.target, x, s)
                    self.block(s.body)
                return
            if is_const(it) and isinstance(it[1], (tuple, list, str, bytes)) and len(it[1]) <= 64:
                for x in it[1]:
                    if self.state.dead:
                        break
                    self.assign(s.target, C(x), s)
                    self.block(s.body)
                return
            self.loop_approx(s, it)
        elif isinstance(s, ast.For) and not s.orelse and isinstance(s.target, (ast.Name, ast.Tuple)):
            self.loop_approx(s, self.expr(s.iter))
        else:
            raise Unsupported(s)

    def loop_approx(self, s, it):
        """a loop over something that is not a literal: its body runs zero or more times.  The names it assigns become opaque (before, so that
        the body sees a value of any iteration, and after); the body is walked once under an opaque `the loop is entered` guard, so that its
        events (stores, raises, returns, calls) are recorded with what they read.  Nothing numeric is claimed about what the loop computes."""
        assigned = set()
        for b in s.body:
            for n in ast.walk(b):
                if isinstance(n, ast.Name) and isinstance(n.ctx, (ast.Store, ast.Del)):
                    assigned.add(n.id)
        for n in ast.walk(s.target):
            if isinstance(n, ast.Name):
                assigned.add(n.id)
        ln = getattr(s, 'lineno', 0)
        def havoc(tag):
            for nm in sorted(assigned):
                self.state.env[nm] = ('opaque', f"loop:{tag}:{nm}", ln, 0)
        base = self.state
        havoc('any')
        inner = base.copy(); inner.guard = base.guard + (('opaque', 'loop-entered', ln, 0), ('call', ('name', 'iter'), (it,), ()))
        self.state = inner
        for n in ast.walk(s.target):
            if isinstance(n, ast.Name):
                self.state.env[n.id] = ('opaque', f"loop:item:{n.id}", ln, 0)
        self.block(s.body)
        self.state = base
        havoc('after')

    def do_if(self, s):
        c = self.expr(s.test)
        tv = truth(c)
        if tv is True:
            self.block(s.body)
            return
        if tv is False:
            self.block(s.orelse)
            return
        base = self.state
        sa = base.copy(); sa.guard = base.guard + (c,)
        self.state = sa
        self.block(s.body)
        sa = self.state              # nested ifs may have replaced the state object
        sb = base.copy(); sb.guard = base.guard + (mk_not(c),)
        self.state = sb
        self.block(s.orelse)
        sb = self.state
        if sa.dead and sb.dead:
            base.dead = True
            self.state = base
            return
        if sa.dead:
            self.state = sb
            return
        if sb.dead:
            self.state = sa
            return
        env = {}
        for k in set(sa.env) | set(sb.env):
            env[k] = mk_ite(c, sa.env.get(k, UNDEF), sb.env.get(k, UNDEF))
        # guards added by asserts inside the arms are dropped at the join (they
        # are recorded as events already); the common prefix is the base guard.
        self.state = State(env, base.guard, False)

    def assign(self, tgt, v, node, aug=None):
        if isinstance(tgt, ast.Name):
            self.state.env[tgt.id] = v
            if tgt.id in self.globals_declared:
                self.emit('store', ('name', tgt.id), v, node=node)
        elif isinstance(tgt, (ast.Tuple, ast.List)):
            if v[0] in ('tuple', 'list') and len(v[1]) == len(tgt.elts):
                for e, x in zip(tgt.elts, v[1]):
                    self.assign(e, x, node)
            elif v[0] == 'sub' and v[2][0] == 'slice' and (v[2][1] == NONE or (is_const(v[2][1]) and isinstance(v[2][1][1], int) and v[2][1][1] >= 0)) and v[2][3] == NONE \
                    and is_const(v[2][2]) and isinstance(v[2][2][1], int) and v[2][2][1] - (0 if v[2][1] == NONE else v[2][1][1]) == len(tgt.elts):
                # a, b = x[lo:lo+2]  (the unpacking succeeds only when the slice has that many elements): element i is x[lo+i]
                lo = 0 if v[2][1] == NONE else v[2][1][1]
                for i, e in enumerate(tgt.elts):
                    self.assign(e, ('sub', v[1], C(lo + i)), node)
            else:
                for i, e in enumerate(tgt.elts):
                    self.assign(e, ('tupidx', v, i), node)
        elif isinstance(tgt, (ast.Attribute, ast.Subscript)):
            self.emit('store', self.expr(_load(tgt)), v, node=node)
        elif isinstance(tgt, ast.Starred):
            raise Unsupported(tgt)
        else:
            raise Unsupported(tgt)

    # ---------------------------------------------------------------- expr
    def expr(self, e):
        if e is None:
            return NONE
        m = getattr(self, 'e_' + type(e).__name__, None)
        if m is None:
            return ('opaque', type(e).__name__, getattr(e, 'lineno', 0), getattr(e, 'col_offset', 0))
        return m(e)

    def e_Constant(self, e):
        return C(e.value)

    def e_NamedExpr(self, e):
        v = self.expr(e.value)
        if isinstance(e.target, ast.Name):
            self.state.env[e.target.id] = v
        return v

    def e_Name(self, e):
        if e.id in self.state.env:
            return self.state.env[e.id]
        if e.id in self.consts:
            return self.consts[e.id]
        if e.id in ('True', 'False', 'None'):
            return C({'True': True, 'False': False, 'None': None}[e.id])
        return ('name', e.id)

    def e_Attribute(self, e):
        return ('attr', self.expr(e.value), e.attr)

    def e_BinOp(self, e):
        return fold_bin(_BIN[type(e.op)][0], self.expr(e.left), self.expr(e.right))

    def e_UnaryOp(self, e):
        op = _UN[type(e.op)]
        x = self.expr(e.operand)
        if op == 'not':
            return mk_not(x)
        if is_const(x) and isinstance(x[1], (int, float)):
            try:
                return C({'-': operator.neg, '+': operator.pos, '~': operator.invert}[op](x[1]))
            except Exception:
                pass
        return ('unop', op, x)

    def e_BoolOp(self, e):
        op = 'and' if isinstance(e.op, ast.And) else 'or'
        out = []
        for v in e.values:
            t = self.expr(v)
            tv = truth(t)
            if tv is not None:
                if op == 'and' and tv is False:
                    return t if not out else ('bool', op, tuple(out + [t]))
                if op == 'or' and tv is True:
                    return t if not out else ('bool', op, tuple(out + [t]))
                if v is not e.values[-1]:
                    continue  # neutral element in non-final position
            out.append(t)
        if not out:
            return C(op == 'and')
        if len(out) == 1:
            return out[0]
        return ('bool', op, tuple(out))

    def e_Compare(self, e):
        left = self.expr(e.left)
        parts = []
        for op, r in zip(e.ops, e.comparators):
            rt = self.expr(r)
            parts.append(fold_cmp(_CMP[type(op)][0], left, rt))
            left = rt
        if len(parts) == 1:
            return parts[0]
        if all(is_const(p) for p in parts):
            return C(all(p[1] for p in parts))
        return ('bool', 'and', tuple(parts))

    def e_IfExp(self, e):
        c = self.expr(e.test)
        tv = truth(c)
        if tv is True:
            return self.expr(e.body)
        if tv is False:
            return self.expr(e.orelse)
        return mk_ite(c, self.expr(e.body), self.expr(e.orelse))

    def e_Call(self, e):
        f = self.expr(e.func)
        args = []
        for a in e.args:
            if isinstance(a, ast.Starred):
                args.append(('star', self.expr(a.value)))
            else:
                args.append(self.expr(a))
        kws = tuple((k.arg, self.expr(k.value)) for k in e.keywords)
        t = ('call', f, tuple(args), kws)
        if f[0] == 'name' and f[1] in self.inline and self.depth < self.max_depth:
            r = self.inline_call(self.inline[f[1]], args, kws, e)
            if r is not None:
                return r
        if f[0] == 'attr' and f[1] == ('param', 'self') and f[2] in self.inline_methods and self.depth < self.max_depth:
            r = self.inline_call(self.inline_methods[f[2]], [f[1]] + args, kws, e)
            if r is not None:
                return r
        return t

    def inline_call(self, callee, args, kws, node):
        params = [p.arg for p in callee.args.posonlyargs + callee.args.args]
        bind = {}
        if len(args) > len(params) or any(a[0] == 'star' for a in args):
            return None
        for p, a in zip(params, args):
            bind[p] = a
        for k, v in kws:
            if k is None or k not in params + [p.arg for p in callee.args.kwonlyargs]:
                return None
            bind[k] = v
        defaults = callee.args.defaults
        for p, d in zip(params[len(params) - len(defaults):], defaults):
            if p not in bind:
                bind[p] = SymExec(callee, consts=self.consts).expr(d)
        if any(p not in bind for p in params):
            return None
        sub = SymExec(callee, bind=bind, inline=self.inline, depth=self.depth + 1, consts=self.consts, max_depth=self.max_depth, inline_methods=self.inline_methods)
        sub.drop_asserted = getattr(self, 'drop_asserted', False)
        try:
            sub.run()
        except Unsupported:
            return None
        rets = [ev for ev in sub.events if ev[0] == 'return']
        result = None
        # events of the callee become events of the caller, guards prefixed
        for ev in sub.events:
            if ev[0] == 'return':
                continue
            self.events.append((ev[0], self._guard_out(self.state.guard) + ev[1]) + ev[2:])
        if not rets:
            return NONE
        # value = first matching return in order
        result = rets[-1][2]
        for ev in reversed(rets[:-1]):
            g = ev[1]
            cond = g[0] if len(g) == 1 else ('bool', 'and', tuple(g)) if g else TRUE
            result = mk_ite(cond, ev[2], result)
        return result

    def e_Subscript(self, e):
        base, key = self.expr(e.value), self.expr(e.slice)
        # a literal container indexed by a constant is the element
        if is_const(key):
            if base[0] in ('tuple', 'list') and isinstance(key[1], int) and not isinstance(key[1], bool) and -len(base[1]) <= key[1] < len(base[1]):
                return base[1][key[1]]
            if base[0] == 'dict':
                hits = [v for k, v in base[1] if k == key]
                if len(hits) == 1:
                    return hits[0]
            if is_const(base) and isinstance(base[1], (tuple, list, str, bytes, dict)):
                try:
                    return C(base[1][key[1]])
                except (KeyError, IndexError, TypeError):
                    pass
        return ('sub', base, key)

    def e_Slice(self, e):
        return ('slice', self.expr(e.lower) if e.lower else NONE, self.expr(e.upper) if e.upper else NONE, self.expr(e.step) if e.step else NONE)

    def e_Tuple(self, e):
        return ('tuple', tuple(self.expr(x) for x in e.elts))

    def e_List(self, e):
        return ('list', tuple(self.expr(x) for x in e.elts))

    def e_Set(self, e):
        return ('set', tuple(self.expr(x) for x in e.elts))

    def e_Dict(self, e):
        return ('dict', tuple((self.expr(k) if k is not None else ('star',), self.expr(v)) for k, v in zip(e.keys, e.values)))

    def e_JoinedStr(self, e):
        parts = []
        for v in e.values:
            if isinstance(v, ast.Constant):
                parts.append(C(v.value))
            elif isinstance(v, ast.FormattedValue):
                spec = None
                if v.format_spec is not None:
                    spec = self.expr(v.format_spec)
                parts.append(('fmt', self.expr(v.value), v.conversion, spec))
        if all(is_const(p) for p in parts):
            return C(''.join(str(p[1]) for p in parts))
        return ('fstr', tuple(parts))

    def e_Await(self, e):
        return ('await', self.expr(e.value))

    def e_Starred(self, e):
        return ('star', self.expr(e.value))

    def e_NamedExpr(self, e):
        v = self.expr(e.value)
        self.assign(e.target, v, e)
        return v

    def e_Lambda(self, e):
        return ('lambda', e.lineno, e.col_offset)

    def _comp(self, e):
        # comprehensions are kept opaque but structured: element term over
        # generator variables (as ('param', name)) and the iterables
        saved = dict(self.state.env)
        gens = []
        for g in e.generators:
            it = self.expr(g.iter)
            for n in ast.walk(g.target):
                if isinstance(n, ast.Name):
                    self.state.env[n.id] = ('compvar', n.id)
            conds = tuple(self.expr(c) for c in g.ifs)
            gens.append((self.expr(_load(g.target)), it, conds))
        if isinstance(e, ast.DictComp):
            elt = ('tuple', (self.expr(e.key), self.expr(e.value)))
        else:
            elt = self.expr(e.elt)
        self.state.env = saved
        return (type(e).__name__.lower(), elt, tuple(gens))

    e_ListComp = e_SetComp = e_GeneratorExp = e_DictComp = _comp


def _load(t):
    """copy of a store-context target as a load-context expression"""
    if isinstance(t, ast.Name):
        return ast.copy_location(ast.Name(id=t.id, ctx=ast.Load()), t)
    if isinstance(t, ast.Attribute):
        return ast.copy_location(ast.Attribute(value=t.value, attr=t.attr, ctx=ast.Load()), t)
    if isinstance(t, ast.Subscript):
        return ast.copy_location(ast.Subscript(value=t.value, slice=t.slice, ctx=ast.Load()), t)
    if isinstance(t, (ast.Tuple, ast.List)):
        return ast.copy_location(ast.Tuple(elts=[_load(x) for x in t.elts], ctx=ast.Load()), t)
    return t

# ------------------------------------------------------------------ printing
def show(t, depth=0):
    """compact rendering of a term for reports"""
    if not isinstance(t, tuple):
        return repr(t)
    if not t:
        return '()'
    k = t[0]
    if not isinstance(k, str):
        return '(' + ', '.join(show(x, depth + 1) for x in t) + ')'
    if depth > 12:
        return '...'
    s = lambda x: show(x, depth + 1)
    if k == 'const':
        return repr(t[1])
    if k in ('name', 'param', 'compvar'):
        return t[1]
    if k == 'attr':
        return f"{s(t[1])}.{t[2]}"
    if k == 'call':
        a = [s(x) for x in t[2]] + [f"{n}={s(v)}" for n, v in t[3]]
        return f"{s(t[1])}({', '.join(a)})"
    if k == 'binop':
        return f"({s(t[2])} {t[1]} {s(t[3])})"
    if k == 'unop':
        return f"({t[1]} {s(t[2])})"
    if k == 'cmp':
        return f"({s(t[2])} {t[1]} {s(t[3])})"
    if k == 'bool':
        return '(' + f' {t[1]} '.join(s(x) for x in t[2]) + ')'
    if k == 'ite':
        return f"({s(t[2])} if {s(t[1])} else {s(t[3])})"
    if k == 'sub':
        return f"{s(t[1])}[{s(t[2])}]"
    if k == 'slice':
        f = lambda x: '' if x == NONE else s(x)
        return f"{f(t[1])}:{f(t[2])}" + (f":{f(t[3])}" if t[3] != NONE else '')
    if k in ('tuple', 'list', 'set'):
        o, c = {'tuple': '()', 'list': '[]', 'set': '{}'}[k]
        return o + ', '.join(s(x) for x in t[1]) + c
    if k == 'tupidx':
        return f"{s(t[1])}#{t[2]}"
    if k == 'fstr':
        return 'f"' + ''.join(p[1] if p[0] == 'const' else '{' + s(p[1]) + '}' for p in t[1]) + '"'
    if k == 'star':
        return '*' + s(t[1])
    if k == 'await':
        return 'await ' + s(t[1])
    if k == 'undef':
        return '<undef>'
    return '<' + ' '.join(str(x) if not isinstance(x, tuple) else s(x) for x in t) + '>'

def walk(t):
    """all sub-terms (tuples whose head is a string tag), pre-order"""
    if not isinstance(t, tuple) or not t:
        return
    if isinstance(t[0], str):
        yield t
        rest = t[1:]
    else:
        rest = t
    for x in rest:
        if isinstance(x, tuple):
            yield from walk(x)

def flatten_or(t):
    """a | b | c  ->  [a, b, c]   (0 | x -> [x])"""
    if t[0] == 'binop' and t[1] == '|':
        return flatten_or(t[2]) + flatten_or(t[3])
    if t == C(0):
        return []
    return [t]

def conj(guard):
    """guard tuple -> flat list of conjuncts"""
    out = []
    for g in guard:
        if g[0] == 'bool' and g[1] == 'and':
            out.extend(conj(g[2]))
        else:
            out.append(g)
    return out


def split_ite_events(events, kinds=('return',)):
    """`return A if C else B` and `if C: return A / return B` are the same decision: events of the given kinds whose value is a conditional
    expression are split into one event per arm, the condition joining the guard"""
    out = []
    work = list(events)
    while work:
        e = work.pop(0)
        if e[0] in kinds and isinstance(e[2], tuple) and e[2] and e[2][0] == 'ite':
            c, a, b = e[2][1], e[2][2], e[2][3]
            work.insert(0, (e[0], tuple(e[1]) + (mk_not(c),), b) + tuple(e[3:]))
            work.insert(0, (e[0], tuple(e[1]) + (c,), a) + tuple(e[3:]))
        else:
            out.append(e)
    return out
