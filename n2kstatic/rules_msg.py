def hash_rules(chk, program): pass
